"""C12 — public-facing outputs never contain private key material.

Three layers (see AGENT_GUIDE):
  * proof: props/C12.v about the export model of model/C12Keys.v;
  * correspondence: as_dict / KeySet.as_dict / thumbprint field selection /
    ensure_kid / prepare_ephemeral_key / as_bytes dispatch of the REAL joserfc
    are run on a key zoo and compared member-for-member with the model (vm_compute);
  * direct oracle: a taint scan.  Every private value is taken from the NATIVE key
    (pyca private_numbers / private_bytes / the oct octets), never from joserfc, and
    searched in every public-facing output in raw, hex, base64 (std + urlsafe, all 3
    alignments, padded or not) and decimal form, also inside base64url-decoded
    segments, JSON members, epk and kid."""
import base64, binascii, hashlib, json, re, contextlib
import lib
from lib import c_str, c_bool, c_list, c_pv, c_exn, exn_class

KIND = {"oct": "KOct", "RSA": "KRSA", "EC": "KEC", "OKP": "KOKP"}
# private parameters named by the property text
SPEC_PRIVATE = {"oct": ["k"], "RSA": ["d", "p", "q", "dp", "dq", "qi", "oth"], "EC": ["d"], "OKP": ["d"]}
EC_CURVES = ["P-256", "P-384", "P-521", "secp256k1"]
OKP_CURVES = ["Ed25519", "Ed448", "X25519", "X448"]
_drafts_registered = []
MIN_SECRET = 8          # shorter values give false positives

RSA_LITERAL = {   # RFC 7520 section 3.4
    'kty': 'RSA', 'kid': 'bilbo.baggins@hobbiton.example', 'use': 'sig',
    'n': 'n4EPtAOCc9AlkeQHPzHStgAbgs7bTZLwUBZdR8_KuKPEHLd4rHVTeT-O-XV2jRojdNhxJWTDvNd7nqQ0VEiZQHz_AJmSCpMaJMRBSFKrKb2wqVwGU_NsYOYL-QtiWN2lbzcEe6XC0dApr5ydQLrHqkHHig3RBordaZ6Aj-oBHqFEHYpPe7Tpe-OfVfHd1E6cS6M1FZcD1NNLYD5lFHpPI9bTwJlsde3uhGqC0ZCuEHg8lhzwOHrtIQbS0FVbb9k3-tVTU4fg_3L_vniUFAKwuCLqKnS2BYwdq_mzSnbLY7h_qixoR7jig3__kRhuaxwUkRz5iaiQkqgc5gHdrNP5zw',
    'e': 'AQAB',
    'd': 'bWUC9B-EFRIo8kpGfh0ZuyGPvMNKvYWNtB_ikiH9k20eT-O1q_I78eiZkpXxXQ0UTEs2LsNRS-8uJbvQ-A1irkwMSMkK1J3XTGgdrhCku9gRldY7sNA_AKZGh-Q661_42rINLRCe8W-nZ34ui_qOfkLnK9QWDDqpaIsA-bMwWWSDFu2MUBYwkHTMEzLYGqOe04noqeq1hExBTHBOBdkMXiuFhUq1BU6l-DqEiWxqg82sXt2h-LMnT3046AOYJoRioz75tSUQfGCshWTBnP5uDjd18kKhyv07lhfSJdrPdM5Plyl21hsFf4L_mHCuoFau7gdsPfHPxxjVOcOpBrQzwQ',
    'p': '3Slxg_DwTXJcb6095RoXygQCAZ5RnAvZlno1yhHtnUex_fp7AZ_9nRaO7HX_-SFfGQeutao2TDjDAWU4Vupk8rw9JR0AzZ0N2fvuIAmr_WCsmGpeNqQnev1T7IyEsnh8UMt-n5CafhkikzhEsrmndH6LxOrvRJlsPp6Zv8bUq0k',
    'q': 'uKE2dh-cTf6ERF4k4e_jy78GfPYUIaUyoSSJuBzp3Cubk3OCqs6grT8bR_cu0Dm1MZwWmtdqDyI95HrUeq3MP15vMMON8lHTeZu2lmKvwqW7anV5UzhM1iZ7z4yMkuUwFWoBvyY898EXvRD-hdqRxHlSqAZ192zB3pVFJ0s7pFc',
    'dp': 'B8PVvXkvJrj2L-GYQ7v3y9r6Kw5g9SahXBwsWUzp19TVlgI-YV85q1NIb1rxQtD-IsXXR3-TanevuRPRt5OBOdiMGQp8pbt26gljYfKU_E9xn-RULHz0-ed9E9gXLKD4VGngpz-PfQ_q29pk5xWHoJp009Qf1HvChixRX59ehik',
    'dq': 'CLDmDGduhylc9o7r84rEUVn7pzQ6PF83Y-iBZx5NT-TpnOZKF1pErAMVeKzFEl41DlHHqqBLSM0W1sOFbwTxYWZDm6sI6og5iTbwQGIC3gnJKbi_7k_vJgGHwHxgPaX2PnvP-zyEkDERuf-ry4c_Z11Cq9AqC2yeL6kdKT1cYF8',
    'qi': '3PiqvXQN0zwMeE-sBvZgi289XP9XCQF3VWqPzMKnIgQp7_Tugo6-NZBKCQsMf3HaEGBjTVJs_jcK8-TRXvaKe-7ZMaQj8VfBdYkssbu0NKDDhjJ-GtiseaDVWt7dcH0cfwxgFUHpQh7FoCrjFJ6h6ZEpMF6xmujs4qMpPz8aaI4',
}


# ----------------------------------------------------------------------------
# small helpers (own codecs: nothing of joserfc.util is used on the oracle side)
# ----------------------------------------------------------------------------
def b64u(b: bytes) -> str:
    return base64.urlsafe_b64encode(b).rstrip(b"=").decode("ascii")


def unb64u(s) -> bytes:
    if isinstance(s, str):
        s = s.encode("ascii")
    return base64.urlsafe_b64decode(s + b"=" * (-len(s) % 4))


def i2b(n: int, length=None) -> bytes:
    if length is None:
        length = max(1, (n.bit_length() + 7) // 8)
    return n.to_bytes(length, "big")


def call(f, *a, **k):
    try:
        return ("ok", f(*a, **k))
    except BaseException as e:  # noqa
        return ("err", e)


def abbr(s: str) -> str:
    """Long member VALUES (RSA numbers, coordinates, thumbprints) are handed to the
    model as head~sha1 tokens: the exporting functions only copy values, never inspect
    them, and the abbreviation is injective (up to sha1 collisions) and applied to
    inputs and recorded outputs alike.  Keeps the generated Coq files small."""
    if len(s) <= 28:
        return s
    return s[:10] + "~" + hashlib.sha1(s.encode("utf-8", "surrogatepass")).hexdigest()[:12]


def c_val(v) -> str:
    if isinstance(v, str):
        return "(PStr %s)" % c_str(abbr(v))
    if isinstance(v, (list, tuple)):
        return "(PList %s)" % c_list([c_val(x) for x in v])
    if isinstance(v, dict):
        return "(PDict %s)" % c_kd(v)
    return c_pv(v)


def c_thumb(t: str) -> str:
    return c_str(abbr(t))


def c_kd(d: dict) -> str:
    items = []
    for k, v in d.items():
        if not isinstance(k, str):
            raise TypeError("non-str member name %r" % (k,))
        items.append("(%s, %s)" % (c_str(k), c_val(v)))
    return c_list(items)


def c_res(r, okf) -> str:
    if r[0] == "ok":
        return "(Ok %s)" % okf(r[1])
    return "(Err %s)" % c_exn(exn_class(r[1]))


# ----------------------------------------------------------------------------
# taint scan
# ----------------------------------------------------------------------------
def _b64_cores(s: bytes):
    """Substrings that every base64 rendering of a blob CONTAINING s (at any
    octet alignment, padded or not) must contain."""
    out = []
    for off in range(3):
        blob = b"\x00" * off + s
        for name, enc in (("b64", base64.b64encode), ("b64url", base64.urlsafe_b64encode)):
            e = enc(blob).rstrip(b"=")
            lead = (0, 2, 3)[off]          # characters that mix in preceding octets
            tail = 0 if len(blob) % 3 == 0 else 1   # last character mixes in following octets
            core = e[lead:len(e) - tail]
            if len(core) >= 10:
                out.append(("%s@%d" % (name, off), core))
    return out


WINDOW, STRIDE = 10, 4


def needles(secret: bytes):
    n = [("raw", secret), ("hex", secret.hex().encode()), ("HEX", secret.hex().upper().encode())]
    n += _b64_cores(secret)
    n.append(("decimal", str(int.from_bytes(secret, "big")).encode()))
    # partial leaks: a truncated encoding (e.g. a kid cut out of the text of "d") and raw windows
    if len(secret) > WINDOW:
        for name, enc in (("b64-prefix", base64.b64encode), ("b64url-prefix", base64.urlsafe_b64encode)):
            n.append((name, enc(secret)[:12]))
        n.append(("hex-prefix", secret.hex().encode()[:20]))
        seen = set()
        for i in list(range(0, len(secret) - WINDOW, STRIDE)) + [len(secret) - WINDOW]:
            w = secret[i:i + WINDOW]
            if len(set(w)) >= 5 and w not in seen:      # skip degenerate windows (runs of zero octets)
                seen.add(w)
                n.append(("raw-window@%d" % i, w))
    return n


class Secret:
    def __init__(self, label: str, value: bytes):
        self.label, self.value = label, value
        self.needles = needles(value)


def mk_secrets(pairs):
    out, seen = [], set()
    for label, b in pairs:
        for v in (b, b.lstrip(b"\x00")):
            if len(v) >= MIN_SECRET and v not in seen:
                seen.add(v)
                out.append(Secret(label, v))
    return out


B64URL_RE = re.compile(rb"^[A-Za-z0-9_-]+={0,2}$")
B64STD_RE = re.compile(rb"^[A-Za-z0-9+/]+={0,2}$")


B64RUN_RE = re.compile(rb"[A-Za-z0-9+/_-]{16,}")
_TO_STD = bytes.maketrans(b"-_", b"+/")


def text_views(blob: bytes):
    """Further views of a text-like blob: white space (also written as \\n / \\r escapes) removed, so
    that PEM body lines are joined again, and every run of base64 characters decoded at all four
    character offsets, so that raw windows of a secret are visible whatever the alignment."""
    views = []
    compact = re.sub(rb"(\\n|\\r|\s)+", b"", blob)
    if compact != blob:
        views.append(compact)
    for m in B64RUN_RE.finditer(compact):
        run = m.group(0).translate(_TO_STD)
        for off in range(4):
            chunk = run[off:]
            chunk = chunk[:len(chunk) // 4 * 4]
            if len(chunk) >= 16:
                with contextlib.suppress(Exception):
                    views.append(base64.b64decode(chunk))
    return views


def haystacks(out, depth=0):
    """Every octet string in which a leak would be visible: the output itself,
    its dot-separated segments, its JSON members, and what those decode to."""
    hs = []
    if depth > 4 or out is None:
        return hs
    if isinstance(out, (dict, list, tuple)):
        hs.append(json.dumps(out, default=repr).encode("utf-8", "surrogatepass"))
        it = out.items() if isinstance(out, dict) else enumerate(out)
        for k, v in it:
            if isinstance(k, str):
                hs += haystacks(k, depth + 1)
            hs += haystacks(v, depth + 1)
        return hs
    if isinstance(out, str):
        out = out.encode("utf-8", "surrogatepass")
    if not isinstance(out, (bytes, bytearray)):
        return hs + [repr(out).encode()]
    out = bytes(out)
    hs.append(out)
    if depth <= 2:
        hs += text_views(out)
    if out.startswith(b"-----BEGIN"):
        body = b"".join(l for l in out.splitlines() if l and not l.startswith(b"-----"))
        with contextlib.suppress(Exception):
            hs.append(base64.b64decode(body))
        return hs
    segs = out.split(b".") if b"." in out else [out]
    for seg in segs:
        if len(segs) > 1:
            hs.append(seg)
        if 2 <= len(seg) and len(seg.rstrip(b"=")) % 4 != 1 and (B64URL_RE.match(seg) or B64STD_RE.match(seg)):
            try:
                dec = base64.urlsafe_b64decode(seg.rstrip(b"=") + b"=" * (-len(seg.rstrip(b"=")) % 4)) \
                    if B64URL_RE.match(seg) else base64.b64decode(seg)
            except (ValueError, binascii.Error):
                continue
            hs.append(dec)
            if dec[:1] in (b"{", b"["):
                with contextlib.suppress(Exception):
                    hs += haystacks(json.loads(dec), depth + 1)
    return hs


def scan(out, secrets):
    """-> [(label, form)] for every secret found in (any view of) out"""
    found = []
    hs = list(dict.fromkeys(haystacks(out)))
    big = b"\x00|\x00".join(hs)          # one search per needle (the separator cannot complete a needle of >= 10 octets by accident: checked below)
    for s in secrets:
        for form, nd in s.needles:
            if nd in big and any(nd in h for h in hs):
                found.append((s.label, form))
                break
    return found


# ----------------------------------------------------------------------------
# native keys (pyca) and the recipes that turn them into joserfc keys
# ----------------------------------------------------------------------------
def _ser():
    from cryptography.hazmat.primitives import serialization as S
    return S


def native_secrets(kty, native):
    """private values straight from the native key"""
    S = _ser()
    if kty == "oct":
        return mk_secrets([("k", native)])
    if kty == "RSA":
        n = native.private_numbers()
        return mk_secrets([("d", i2b(n.d)), ("p", i2b(n.p)), ("q", i2b(n.q)), ("dp", i2b(n.dmp1)),
                           ("dq", i2b(n.dmq1)), ("qi", i2b(n.iqmp))])
    if kty == "EC":
        L = (native.curve.key_size + 7) // 8
        return mk_secrets([("d", i2b(native.private_numbers().private_value, L))])
    if kty == "OKP":
        return mk_secrets([("d", native.private_bytes(S.Encoding.Raw, S.PrivateFormat.Raw, S.NoEncryption()))])
    raise ValueError(kty)


def native_jwk(kty, native, private=True, crt=True, canon=None):
    """JWK written by this harness from the native numbers.  canon="short": EC x / y / d
    with their leading zero octets stripped (as older exporters write them); "long": one
    extra zero octet in front of x and d"""
    S = _ser()
    if kty == "oct":
        return {"kty": "oct", "k": b64u(native)}
    if kty == "RSA":
        n = native.private_numbers()
        d = {"kty": "RSA", "n": b64u(i2b(n.public_numbers.n)), "e": b64u(i2b(n.public_numbers.e))}
        if private:
            d["d"] = b64u(i2b(n.d))
            if crt:
                d.update(p=b64u(i2b(n.p)), q=b64u(i2b(n.q)), dp=b64u(i2b(n.dmp1)), dq=b64u(i2b(n.dmq1)),
                         qi=b64u(i2b(n.iqmp)))
        return d
    if kty == "EC":
        n = native.private_numbers()
        L = (native.curve.key_size + 7) // 8
        crv = {"secp256r1": "P-256", "secp384r1": "P-384", "secp521r1": "P-521", "secp256k1": "secp256k1"}[native.curve.name]
        d = {"kty": "EC", "crv": crv, "x": b64u(i2b(n.public_numbers.x, L)), "y": b64u(i2b(n.public_numbers.y, L))}
        if private:
            d["d"] = b64u(i2b(n.private_value, L))
        if canon == "short":
            for m in ("x", "y", "d"):
                if m in d:
                    d[m] = b64u(unb64u(d[m]).lstrip(b"\x00") or b"\x00")
        elif canon == "long":
            for m in ("x", "d"):
                if m in d:
                    d[m] = b64u(b"\x00" + unb64u(d[m]))
        return d
    if kty == "OKP":
        crv = type(native).__name__.replace("PrivateKey", "").lstrip("_")
        for c in OKP_CURVES:
            if c.lower() in type(native).__name__.lower():
                crv = c
        d = {"kty": "OKP", "crv": crv,
             "x": b64u(native.public_key().public_bytes(S.Encoding.Raw, S.PublicFormat.Raw))}
        if private:
            d["d"] = b64u(native.private_bytes(S.Encoding.Raw, S.PrivateFormat.Raw, S.NoEncryption()))
        if canon == "short":      # (refused by the library when the key has no leading zero octet to strip: fixed-length raw octets)
            for m in ("x", "d"):
                if m in d:
                    d[m] = b64u(unb64u(d[m]).lstrip(b"\x00") or b"\x00")
        elif canon == "long":
            d["x"] = b64u(b"\x00" + unb64u(d["x"]))
        return d
    raise ValueError(kty)


def native_bytes(native, private, der):
    S = _ser()
    enc = S.Encoding.DER if der else S.Encoding.PEM
    if private:
        return native.private_bytes(enc, S.PrivateFormat.PKCS8, S.NoEncryption())
    return native.public_key().public_bytes(enc, S.PublicFormat.SubjectPublicKeyInfo)


def key_class(kty):
    from joserfc.jwk import OctKey, RSAKey, ECKey, OKPKey
    return {"oct": OctKey, "RSA": RSAKey, "EC": ECKey, "OKP": OKPKey}[kty]


def make_key(recipe):
    """recipe: {"kty", "how": bytes|jwk|pem|der|generate, "data", "parameters"}"""
    cls = key_class(recipe["kty"])
    how, params = recipe["how"], recipe.get("parameters")
    if how == "generate-via":
        return gen_via(recipe["entry"], recipe["kty"], recipe["data"], recipe["form"], recipe.get("private"))[0]
    if how == "generate":
        return cls.generate_key(recipe["data"], params, private=recipe.get("private", True))
    if how == "jwk":
        return cls.import_key(dict(json.loads(recipe["data"])), params)
    if how in ("bytes", "der"):
        return cls.import_key(bytes.fromhex(recipe["data"]), params)
    if how == "pem":
        return cls.import_key(recipe["data"].encode("ascii"), params)
    raise ValueError(how)


def gen_via(entry, kty, arg, form, flag, count=2):
    """Keys from a generating entry point; the private flag is given positionally ("pos"), by
    keyword ("kw") or omitted ("default")."""
    from joserfc.jwk import JWKRegistry, KeySet
    cls = key_class(kty) if kty in KIND else None
    if entry == "class":
        if form == "default":
            return [cls.generate_key(arg)]
        return [cls.generate_key(arg, None, flag)] if form == "pos" else [cls.generate_key(arg, private=flag)]
    if entry == "registry":
        if form == "default":
            return [JWKRegistry.generate_key(kty, arg)]
        return [JWKRegistry.generate_key(kty, arg, None, flag)] if form == "pos" else [JWKRegistry.generate_key(kty, arg, private=flag)]
    if entry == "keyset":
        if form == "default":
            ks = KeySet.generate_key_set(kty, arg, count=count)
        elif form == "pos":
            ks = KeySet.generate_key_set(kty, arg, None, flag, count)
        else:
            ks = KeySet.generate_key_set(kty, arg, private=flag, count=count)
        return list(ks.keys)
    raise ValueError(entry)


def generation_plan(ctx):
    """(entry point, kty, size_or_crv, flag form, flag) over every generating entry point"""
    rng = ctx.rng
    plan = []
    args = {"RSA": [1024], "EC": EC_CURVES, "OKP": OKP_CURVES, "oct": [128, 256]}
    for kty in ("RSA", "EC", "OKP", "oct"):
        for entry in ("class", "registry", "keyset"):
            pick = (lambda: rng.choice(args[kty]))
            plan.append((entry, kty, pick(), "default", True))
            for form in ("pos", "kw"):
                flags = [False, True] + ([None, 0, 1, ""] if not ctx.quick else [rng.choice([None, 0, 1, ""])])
                for flag in flags:
                    for arg in (args[kty] if (not ctx.quick and flag is False) else [pick()]):
                        plan.append((entry, kty, arg, form, flag))
    plan.append(("registry", "XYZ", 256, "kw", False))
    plan.append(("keyset", "XYZ", "P-256", "pos", True))
    return plan


class Entry:
    def __init__(self, name, kty, crv, recipe, native, public_only, key=None):
        self.name, self.kty, self.crv, self.recipe = name, kty, crv, recipe
        self.noncanonical = "-noncanon-" in name
        self.native, self.public_only = native, public_only
        self.key = key if key is not None else make_key(recipe)
        self.key.dict_value         # (validates lazily built views: a key whose JWK view cannot be built is not in the zoo)
        self.secrets = native_secrets(kty, native) if native is not None else []

    def fresh(self):
        """a new key object from the same material (exports mutate: ensure_kid)"""
        if self.recipe["how"].startswith("generate"):
            return self.key
        if self.kty == "RSA" and not self.public_only:
            # importing an RSA private key costs 50-300 ms (pyca consistency checks, prime recovery): after the
            # first real import, new objects are built by the key class constructor around the same native key
            k = self.key
            return type(k)(k.raw_value, k.original_value, k.extra_parameters)
        return make_key(self.recipe)


EXTRA_PARAMS = [None, None, {"kid": "zoo-kid", "x-note": "caller data"}, {"x-extra": [1, "two", {"three": None}], "x5t": "dGh1bWI"},
                {"kid": "zoo-kid-2", "x-bool": True}, {"use": "sig"}, {"use": "enc"},
                {"key_ops": ["sign", "verify"], "alg": "declared-alg"}]


def build_zoo(ctx):
    from joserfc.jwk import OctKey, RSAKey, ECKey, OKPKey
    rng = ctx.rng
    zoo, skipped = [], []

    def add(name, kty, crv, recipe, native, public_only, key=None):
        try:
            zoo.append(Entry(name, kty, crv, recipe, native, public_only, key))
        except Exception as e:  # noqa  (a representation the library does not import: not C12's business)
            skipped.append("%s: %s" % (name, type(e).__name__))

    def params():
        return rng.choice(EXTRA_PARAMS)

    # ---- oct
    for n in (16, 32, 64):
        raw = bytes(rng.randrange(256) for _ in range(n))
        add("oct%d-bytes" % n, "oct", None, {"kty": "oct", "how": "bytes", "data": raw.hex(), "parameters": None}, raw, False)
        add("oct%d-bytes-params" % n, "oct", None,
            {"kty": "oct", "how": "bytes", "data": raw.hex(), "parameters": {"use": "sig", "kid": "oct-%d" % n}}, raw, False)
        add("oct%d-jwk" % n, "oct", None,
            {"kty": "oct", "how": "jwk", "data": json.dumps(native_jwk("oct", raw)), "parameters": None}, raw, False)
        j = native_jwk("oct", raw)
        j.update({"kid": "k-%d" % n, "x-extra": ["a", 1, None, {"b": True}], "d": "not-a-secret-for-oct"})
        add("oct%d-jwk-extra" % n, "oct", None, {"kty": "oct", "how": "jwk", "data": json.dumps(j), "parameters": params()}, raw, False)
        p = params()
        g = OctKey.generate_key(n * 8, p)
        add("oct%d-generated" % n, "oct", None, {"kty": "oct", "how": "generate", "data": n * 8, "parameters": p},
            g.raw_value, False, key=g)

    for n in (24, 48):          # sizes of A192KW / A192GCMKW / A192GCM / A192CBC-HS384
        raw = bytes(rng.randrange(256) for _ in range(n))
        add("oct%d-bytes" % n, "oct", None, {"kty": "oct", "how": "bytes", "data": raw.hex(), "parameters": None}, raw, False)
        add("oct%d-jwk-params-named-private" % n, "oct", None,
            {"kty": "oct", "how": "jwk", "data": json.dumps(native_jwk("oct", raw)), "parameters": {"d": "caller-d", "p": "caller-p"}}, raw, False)

    def asym(kty, crv, native, tag, generated=None, gen_params=None):
        if generated is not None:
            add("%s-generated" % tag, kty, crv, {"kty": kty, "how": "generate", "data": crv, "parameters": gen_params},
                native, False, key=generated)
        add("%s-pem" % tag, kty, crv, {"kty": kty, "how": "pem", "data": native_bytes(native, True, False).decode(), "parameters": None},
            native, False)
        add("%s-der" % tag, kty, crv, {"kty": kty, "how": "der", "data": native_bytes(native, True, True).hex(), "parameters": params()},
            native, False)
        add("%s-jwk" % tag, kty, crv, {"kty": kty, "how": "jwk", "data": json.dumps(native_jwk(kty, native)), "parameters": None},
            native, False)
        j = native_jwk(kty, native)
        j.update({"kid": "kid-" + tag, "k": "not-a-secret-here", "x-extra": {"nested": [1, "two"]}})
        add("%s-jwk-extra" % tag, kty, crv, {"kty": kty, "how": "jwk", "data": json.dumps(j), "parameters": params()}, native, False)
        # public-only views of the same native key
        add("%s-pub-pem" % tag, kty, crv, {"kty": kty, "how": "pem", "data": native_bytes(native, False, False).decode(), "parameters": None},
            native, True)
        add("%s-pub-der" % tag, kty, crv, {"kty": kty, "how": "der", "data": native_bytes(native, False, True).hex(), "parameters": None},
            native, True)
        # a private key whose extra parameters are named like private members of OTHER key types (not private here)
        add("%s-pem-params-named-foreign" % tag, kty, crv,
            {"kty": kty, "how": "pem", "data": native_bytes(native, True, False).decode(),
             "parameters": {"k": "caller-k"} if kty == "RSA" else {"k": "caller-k", "p": "caller-p", "qi": "caller-qi"}}, native, False)
        # a public-only key whose EXTRA parameters are named like private members: the filter is driven by
        # the registry, not by is_private, so they are stripped from a public export as well
        named = {"RSA": {"d": "caller-d", "qi": "caller-qi", "x-keep": "kept"}, "EC": {"d": "caller-d", "x-keep": "kept"},
                 "OKP": {"d": "caller-d", "x-keep": "kept"}}[kty]
        add("%s-pub-pem-params-named-private" % tag, kty, crv,
            {"kty": kty, "how": "pem", "data": native_bytes(native, False, False).decode(), "parameters": named}, native, True)
        add("%s-pub-jwk" % tag, kty, crv,
            {"kty": kty, "how": "jwk", "data": json.dumps(native_jwk(kty, native, private=False)), "parameters": params()}, native, True)

    def noncanonical(kty, crv, native, tag):
        """the same key written with short / long member encodings (imported from JWK only)"""
        for canon in ("short", "long"):
            for priv in (True, False):
                j = native_jwk(kty, native, private=priv, canon=canon)
                if j == native_jwk(kty, native, private=priv):
                    continue
                if priv and rng.random() < 0.5:
                    j.update({"kid": "nc-" + tag, "x-extra": [canon]})
                add("%s-noncanon-%s-%s" % (tag, canon, "jwk" if priv else "pub-jwk"), kty, crv,
                    {"kty": kty, "how": "jwk", "data": json.dumps(j), "parameters": params() if priv else None}, native, not priv)

    def leading_zero_key(gen, has_zero, tries=4000):
        """search generated keys until one has a leading zero octet in a public coordinate"""
        k = None
        for _ in range(tries):
            k = gen()
            if has_zero(k):
                return k, True
        return k, False

    # ---- RSA: one generated 2048-bit key per run, and the RFC 7520 literal
    g = RSAKey.generate_key(2048)
    asym("RSA", 2048, g.private_key, "rsa2048", generated=g)
    add("rsa2048-jwk-nocrt", "RSA", 2048,
        {"kty": "RSA", "how": "jwk", "data": json.dumps(native_jwk("RSA", g.private_key, crt=False)), "parameters": None},
        g.private_key, False)
    # an RSA key carrying "oth" (other primes info, flagged private): refused by the registry validator today; the
    # attempts are made on every run so that such keys join the zoo (with the oth values as secrets) once they import
    oth = [{"r": b64u(bytes(rng.randrange(256) for _ in range(24))), "d": b64u(bytes(rng.randrange(256) for _ in range(24))),
            "t": b64u(bytes(rng.randrange(256) for _ in range(24)))}]
    for nm, rec in (("rsa2048-jwk-oth", {"kty": "RSA", "how": "jwk", "data": json.dumps({**native_jwk("RSA", g.private_key), "oth": oth}), "parameters": None}),
                    ("rsa2048-pem-params-oth", {"kty": "RSA", "how": "pem", "data": native_bytes(g.private_key, True, False).decode(), "parameters": {"oth": oth}}),
                    ("rsa2048-pub-pem-params-oth", {"kty": "RSA", "how": "pem", "data": native_bytes(g.private_key, False, False).decode(), "parameters": {"oth": oth}})):
        n0 = len(zoo)
        add(nm, "RSA", 2048, rec, g.private_key, "pub" in nm)
        if len(zoo) > n0:
            zoo[-1].secrets += mk_secrets([("oth." + m, unb64u(v)) for m, v in oth[0].items()])
    lit = RSAKey.import_key(dict(RSA_LITERAL))
    add("rsa-literal", "RSA", 2048, {"kty": "RSA", "how": "jwk", "data": json.dumps(RSA_LITERAL), "parameters": None},
        lit.private_key, False)
    nocrt = {k: v for k, v in RSA_LITERAL.items() if k not in ("p", "q", "dp", "dq", "qi")}
    add("rsa-literal-nocrt", "RSA", 2048, {"kty": "RSA", "how": "jwk", "data": json.dumps(nocrt), "parameters": None},
        lit.private_key, False)
    pubonly = {k: v for k, v in RSA_LITERAL.items() if k not in SPEC_PRIVATE["RSA"]}
    add("rsa-literal-pub", "RSA", 2048, {"kty": "RSA", "how": "jwk", "data": json.dumps(pubonly), "parameters": None},
        lit.private_key, True)
    gp = RSAKey.generate_key(2048, private=False) if not ctx.quick else None
    if gp is not None:
        add("rsa2048-generated-public", "RSA", 2048, {"kty": "RSA", "how": "generate", "data": 2048, "private": False, "parameters": None},
            None, True, key=gp)

    # ---- EC / OKP
    for crv in EC_CURVES:
        reps = 1 if ctx.quick else 4
        for r in range(reps):
            p = params() if r else None
            g = ECKey.generate_key(crv, p)
            asym("EC", crv, g.private_key, "ec-%s-%d" % (crv, r), generated=g, gen_params=p)
        def ec_zero(k, L=(ECKey.binding._dss_curves[crv]().key_size + 7) // 8):
            pn = k.private_numbers().public_numbers
            return i2b(pn.x, L)[0] == 0 or i2b(pn.y, L)[0] == 0
        from cryptography.hazmat.primitives.asymmetric import ec as _ec
        nat, found0 = leading_zero_key(lambda: _ec.generate_private_key(ECKey.binding._dss_curves[crv]()), ec_zero)
        if not found0:
            skipped.append("ec-%s: no key with a leading zero octet found" % crv)
        noncanonical("EC", crv, nat, "ec-%s-z" % crv)
        add("ec-%s-z-jwk" % crv, "EC", crv, {"kty": "EC", "how": "jwk", "data": json.dumps(native_jwk("EC", nat)), "parameters": None}, nat, False)
        add("ec-%s-z-pem" % crv, "EC", crv, {"kty": "EC", "how": "pem", "data": native_bytes(nat, True, False).decode(), "parameters": None}, nat, False)
        gp = ECKey.generate_key(crv, private=False)
        add("ec-%s-generated-public" % crv, "EC", crv, {"kty": "EC", "how": "generate", "data": crv, "private": False, "parameters": None},
            None, True, key=gp)
    for crv in OKP_CURVES:
        reps = 1 if ctx.quick else 4
        for r in range(reps):
            p = params() if r else None
            g = OKPKey.generate_key(crv, p)
            asym("OKP", crv, g.private_key, "okp-%s-%d" % (crv, r), generated=g, gen_params=p)
        S_ = _ser()
        from cryptography.hazmat.primitives.asymmetric import ed25519, ed448, x25519, x448
        okp_cls = {"Ed25519": ed25519.Ed25519PrivateKey, "Ed448": ed448.Ed448PrivateKey,
                   "X25519": x25519.X25519PrivateKey, "X448": x448.X448PrivateKey}[crv]
        nat, found0 = leading_zero_key(okp_cls.generate, lambda k: k.public_key().public_bytes(S_.Encoding.Raw, S_.PublicFormat.Raw)[0] == 0,
                                       tries=1500)
        if found0:
            n_before = len(zoo)
            noncanonical("OKP", crv, nat, "okp-%s-z" % crv)      # fixed-length raw octets: the library refuses these (recorded below)
            add("okp-%s-z-jwk" % crv, "OKP", crv, {"kty": "OKP", "how": "jwk", "data": json.dumps(native_jwk("OKP", nat)), "parameters": None}, nat, False)
        gp = OKPKey.generate_key(crv, private=False)
        add("okp-%s-generated-public" % crv, "OKP", crv, {"kty": "OKP", "how": "generate", "data": crv, "private": False, "parameters": None},
            None, True, key=gp)
    # ---- every generating entry point x every form / value of the private flag
    gen_records = []
    for entry, kty, arg, form, flag in generation_plan(ctx):
        r = call(gen_via, entry, kty, arg, form, flag)
        gen_records.append((entry, kty, arg, form, flag, r))
        if r[0] == "ok" and not flag and kty in KIND:
            for j, k in enumerate(r[1]):
                raw = k.raw_value
                nat = raw if (kty != "oct" and hasattr(raw, "private_bytes")) else (raw if kty == "oct" else None)
                add("gen-%s-%s-%s-%s-%r-%d" % (entry, kty, arg, form, flag, j), kty, arg if kty in ("EC", "OKP") else None,
                    {"kty": kty, "how": "generate-via", "entry": entry, "data": arg, "form": form, "private": flag, "parameters": None},
                    nat, True, key=k)
    build_zoo.gen_records = gen_records
    return zoo, skipped


# ----------------------------------------------------------------------------
# hooks: thumbprint input (json.dumps in joserfc.rfc7638), generated ephemeral keys
# ----------------------------------------------------------------------------
class _JsonShim:
    def __init__(self, real):
        self._real, self.calls = real, []

    def dumps(self, data, *a, **k):
        self.calls.append(list(data.items()))
        return self._real.dumps(data, *a, **k)

    def __getattr__(self, n):
        return getattr(self._real, n)


@contextlib.contextmanager
def thumb_hook():
    import joserfc.rfc7638 as m
    real = m.json
    shim = _JsonShim(real)
    m.json = shim
    try:
        yield shim
    finally:
        m.json = real


@contextlib.contextmanager
def capture_generated():
    """records every key made by ECKey/OKPKey.generate_key (the ephemeral keys)"""
    from joserfc.jwk import ECKey, OKPKey
    made, saved = [], {}
    for cls in (ECKey, OKPKey):
        orig = cls.__dict__["generate_key"]
        saved[cls] = orig

        def wrapper(c, *a, __orig=orig, **k):
            key = __orig.__func__(c, *a, **k)
            made.append(key)
            return key
        cls.generate_key = classmethod(wrapper)
    try:
        yield made
    finally:
        for cls, orig in saved.items():
            cls.generate_key = orig


def ephemeral_secrets(made):
    out = []
    for k in made:
        nat = k.private_key
        if nat is not None:
            for s in native_secrets(k.key_type, nat):
                s.label = "ephemeral." + s.label
                out.append(s)
    return out


# ----------------------------------------------------------------------------
# operations whose outputs are meant for other parties
# ----------------------------------------------------------------------------
PAYLOAD = b"C12 payload: nothing secret in here"
CLAIMS = {"iss": "c12", "n": 12}
CALLER_PARAMS = {"use": "sig", "kid": "caller-kid", "x-caller": [1, "two", {"three": None}]}


# every registered algorithm must be tabled here (fail closed: an unknown name is reported)
JWS_TABLE = {"none": None,
             "HS256": ("oct", None), "HS384": ("oct", None), "HS512": ("oct", None),
             "RS256": ("RSA", None), "RS384": ("RSA", None), "RS512": ("RSA", None),
             "PS256": ("RSA", None), "PS384": ("RSA", None), "PS512": ("RSA", None),
             "ES256": ("EC", ("P-256",)), "ES384": ("EC", ("P-384",)), "ES512": ("EC", ("P-521",)), "ES256K": ("EC", ("secp256k1",)),
             "EdDSA": ("OKP", ("Ed25519", "Ed448"))}
JWE_ALG_TABLE = {"RSA1_5": "rsa", "RSA-OAEP": "rsa", "RSA-OAEP-256": "rsa",
                 "A128KW": ("kw", 16), "A192KW": ("kw", 24), "A256KW": ("kw", 32),
                 "A128GCMKW": ("kw", 16), "A192GCMKW": ("kw", 24), "A256GCMKW": ("kw", 32),
                 "dir": "dir",
                 "PBES2-HS256+A128KW": "pbes2", "PBES2-HS384+A192KW": "pbes2", "PBES2-HS512+A256KW": "pbes2",
                 "ECDH-ES": "agree", "ECDH-ES+A128KW": "agree", "ECDH-ES+A192KW": "agree", "ECDH-ES+A256KW": "agree",
                 "ECDH-1PU": "agree1pu", "ECDH-1PU+A128KW": "agree1pu", "ECDH-1PU+A192KW": "agree1pu", "ECDH-1PU+A256KW": "agree1pu"}
JWE_ENC_TABLE = {"A128CBC-HS256": 32, "A192CBC-HS384": 48, "A256CBC-HS512": 64, "A128GCM": 16, "A192GCM": 24, "A256GCM": 32}
JWE_ZIP_TABLE = {"DEF"}


def register_drafts():
    if not _drafts_registered:
        from joserfc.drafts.jwe_ecdh_1pu import register_ecdh_1pu
        register_ecdh_1pu()
        _drafts_registered.append(True)


def untabled_algorithms():
    from joserfc import jws, jwe
    register_drafts()
    out = sorted(set(jws.JWSRegistry.algorithms) - set(JWS_TABLE))
    out += sorted(set(jwe.JWERegistry.algorithms["alg"]) - set(JWE_ALG_TABLE))
    out += sorted(set(jwe.JWERegistry.algorithms["enc"]) - set(JWE_ENC_TABLE))
    out += sorted(set(jwe.JWERegistry.algorithms["zip"]) - JWE_ZIP_TABLE)
    return out


def sig_algs(e):
    from joserfc import jws
    out = []
    for name in jws.JWSRegistry.algorithms:
        t = JWS_TABLE.get(name)
        if t and t[0] == e.kty and (t[1] is None or e.crv in t[1]):
            out.append(name)
    return out


def enc_algs(e):
    """(alg, enc) pairs usable with this key: every registered key management algorithm"""
    from joserfc import jwe
    register_drafts()
    encs = sorted(n for n in jwe.JWERegistry.algorithms["enc"] if n in JWE_ENC_TABLE)
    out = []
    i = sum(map(ord, e.name))          # rotate the content encryption algorithm over the zoo

    def some_enc(cbc_only=False):
        nonlocal i
        pool = [x for x in encs if not cbc_only or "CBC" in x]
        i += 1
        return pool[i % len(pool)]
    for alg in jwe.JWERegistry.algorithms["alg"]:
        t = JWE_ALG_TABLE.get(alg)
        if t is None:
            continue
        if e.kty == "oct":
            n = len(e.native)
            if isinstance(t, tuple) and t[1] == n:
                out.append((alg, some_enc()))
            elif t == "dir":
                out += [(alg, x) for x in encs if JWE_ENC_TABLE[x] == n]
            elif t == "pbes2":
                out.append((alg, some_enc()))
        elif e.kty == "RSA" and t == "rsa":
            out.append((alg, some_enc()))
        elif t in ("agree", "agree1pu") and agreement_capable(e):
            out.append((alg, some_enc(cbc_only=(t == "agree1pu" and "+" in alg))))
    return out


# Every public name of the key classes / KeySet / JWKRegistry / joserfc.jwk, classified.  A name that
# is not tabled is reported (fail closed): it may be an output path nobody scans.
ENTRY_TABLE = {
    "key": {
        "output (scanned)": ["as_dict", "as_bytes", "as_der", "as_pem", "thumbprint", "kid", "alg", "keys", "ensure_kid",
                             "curve_name", "curve_key_size", "key_type", "thumbprint_digest_method", "is_private"],
        "accessor of the key's own material (by design, not a public-facing output)":
            ["dict_value", "raw_value", "private_key", "public_key", "get", "__getitem__", "get_op_key", "exchange_derive_key"],
        "check (raises; message scanned)": ["check_alg", "check_use", "check_key_op"],
        "constructor": ["generate_key", "import_key", "validate_dict_key"],
        "class data": ["binding", "operation_registry", "param_registry", "value_registry", "required_fields", "private_only_fields"],
    },
    "KeySet": {"output (scanned)": ["as_dict"], "constructor": ["generate_key_set", "import_key_set"],
               "accessor": ["get_by_kid", "pick_random_key", "keys", "__iter__", "__bool__"], "class data": ["algorithm_keys", "registry_cls"]},
    "JWKRegistry": {"constructor": ["generate_key", "import_key"], "class data": ["key_types"]},
    "jwk": {"names": ["JWKRegistry", "Key", "KeyCallable", "KeyFlexible", "OctKey", "RSAKey", "ECKey", "OKPKey", "KeySet", "guess_key"]},
}
DUNDERS = ["__repr__", "__str__", "__format__", "__bytes__", "__iter__", "__getitem__", "__bool__", "__len__", "__contains__",
           "__eq__", "__hash__", "__reduce__", "__reduce_ex__", "__getstate__", "__index__", "__int__", "__dir__", "__getattr__"]


def untabled_entries():
    import joserfc.jwk as J
    from joserfc.jwk import OctKey, RSAKey, ECKey, OKPKey, KeySet, JWKRegistry
    out = []

    def names_of(cls):
        pub = [n for n in dir(cls) if not n.startswith("_")]
        for n in DUNDERS:       # special methods defined by the library itself
            for c in cls.__mro__:
                if n in c.__dict__ and getattr(c, "__module__", "").startswith("joserfc"):
                    pub.append(n)
                    break
        return pub
    tabled = {k: {n for l in v.values() for n in l} for k, v in ENTRY_TABLE.items()}
    for cls in (OctKey, RSAKey, ECKey, OKPKey):
        out += ["%s.%s" % (cls.__name__, n) for n in names_of(cls) if n not in tabled["key"]]
    out += ["KeySet.%s" % n for n in names_of(KeySet) if n not in tabled["KeySet"]]
    out += ["JWKRegistry.%s" % n for n in names_of(JWKRegistry) if n not in tabled["JWKRegistry"]]
    out += ["jwk.%s" % n for n in getattr(J, "__all__", []) if n not in tabled["jwk"]]
    return sorted(set(out))


def describe(k):
    """what a log line / debugger / template shows of a key object"""
    from joserfc.jwk import KeySet
    ks = KeySet([k])
    return {"repr": repr(k), "str": str(k), "format": format(k), "ascii": ascii(k), "kid": k.kid, "alg": k.alg, "keys()": list(k.keys()),
            "key_type": k.key_type, "curve_name": getattr(k, "curve_name", None), "curve_key_size": getattr(k, "curve_key_size", None),
            "digest": k.thumbprint_digest_method, "is_private": k.is_private,
            "KeySet.repr": repr(ks), "KeySet.str": str(ks), "KeySet.format": format(ks), "KeySet.bool": bool(ks),
            "public_key.repr": repr(k.public_key) if k.key_type != "oct" else None}


def export_ops(e):
    """name -> thunk(key) for the exporting methods"""
    from joserfc.jwk import KeySet
    ops = {
        "as_dict(private=False)": lambda k: k.as_dict(private=False),
        "as_dict(private=False, **params)": lambda k: k.as_dict(private=False, **CALLER_PARAMS),
        "KeySet.as_dict(private=False)": lambda k: KeySet([k]).as_dict(private=False),
        "KeySet.as_dict(private=False, **params)": lambda k: KeySet([k]).as_dict(private=False, use="sig"),
        "thumbprint()": lambda k: k.thumbprint(),
        "repr/str/kid/alg/keys()/KeySet repr": describe,
        "ensure_kid();kid": lambda k: (k.ensure_kid(), k.kid)[1],
        "KeySet;kid": lambda k: (KeySet([k]), k.kid)[1],
    }
    if e.public_only:
        ops["as_dict()"] = lambda k: k.as_dict()
        ops["as_dict(**params)"] = lambda k: k.as_dict(**CALLER_PARAMS)
        ops["KeySet.as_dict()"] = lambda k: KeySet([k]).as_dict()
    if e.kty != "oct":
        ops["as_pem(private=False)"] = lambda k: k.as_pem(private=False)
        ops["as_der(private=False)"] = lambda k: k.as_der(private=False)
        ops["as_bytes('PEM', private=False)"] = lambda k: k.as_bytes("PEM", False)
        ops["as_pem(private=False, password)"] = lambda k: k.as_pem(private=False, password="pw")
        ops["as_der(private=False, password)"] = lambda k: k.as_der(private=False, password=b"pw")
        if e.public_only:
            ops["as_pem()"] = lambda k: k.as_pem()
            ops["as_der()"] = lambda k: k.as_der()
    return ops


def token_ops(e):
    """name -> thunk(key) for every token-producing operation this key can perform"""
    from joserfc import jws, jwe, jwt
    from joserfc.jwk import KeySet
    from joserfc import rfc7797
    ops = {}
    if not e.public_only:
        for alg in sig_algs(e):
            A = [alg]
            ops["jws.serialize_compact[%s]" % alg] = lambda k, alg=alg, A=A: jws.serialize_compact({"alg": alg}, PAYLOAD, k, algorithms=A)
            ops["jws.serialize_compact[%s,KeySet]" % alg] = lambda k, alg=alg, A=A: jws.serialize_compact({"alg": alg}, PAYLOAD, KeySet([k]), algorithms=A)
            ops["jws.serialize_json.flattened[%s]" % alg] = lambda k, alg=alg, A=A: jws.serialize_json(
                {"protected": {"alg": alg}, "header": {"cty": "text/plain"}}, PAYLOAD, k, algorithms=A)
            ops["jws.serialize_json.general[%s,KeySet]" % alg] = lambda k, alg=alg, A=A: jws.serialize_json(
                [{"protected": {"alg": alg}}, {"header": {"alg": alg}}], PAYLOAD, KeySet([k]), algorithms=A)
            ops["rfc7797.serialize_compact[%s,b64=false]" % alg] = lambda k, alg=alg, A=A: rfc7797.serialize_compact(
                {"alg": alg, "b64": False, "crit": ["b64"]}, PAYLOAD, k, algorithms=A)
            ops["rfc7797.serialize_compact[%s,b64=false,detached]" % alg] = lambda k, alg=alg, A=A: rfc7797.serialize_compact(
                {"alg": alg, "b64": False, "crit": ["b64"]}, b"needs.detaching " + PAYLOAD, k, algorithms=A)
            ops["rfc7797.serialize_json[%s,b64=false]" % alg] = lambda k, alg=alg, A=A: rfc7797.serialize_json(
                {"protected": {"alg": alg, "b64": False, "crit": ["b64"]}}, PAYLOAD, KeySet([k]), algorithms=A)
            ops["jwt.encode[%s]" % alg] = lambda k, alg=alg, A=A: jwt.encode({"alg": alg}, CLAIMS, k, algorithms=A)
            ops["jwt.encode[%s,KeySet]" % alg] = lambda k, alg=alg, A=A: jwt.encode({"alg": alg}, CLAIMS, KeySet([k]), algorithms=A)
    def reprs(*objs):
        out = {}
        for i, o in enumerate(objs):
            out["%d:%s" % (i, type(o).__name__)] = [repr(o), str(o), format(o), ascii(o)]
        return out
    if not e.public_only and sig_algs(e):
        a0 = sig_algs(e)[0]

        def consumed_jws(k, a0=a0):
            tok = jws.serialize_compact({"alg": a0}, PAYLOAD, k, algorithms=[a0])
            o1 = jws.deserialize_compact(tok, k, algorithms=[a0])
            o2 = jws.deserialize_json(jws.serialize_json({"protected": {"alg": a0}}, PAYLOAD, k, algorithms=[a0]), k, algorithms=[a0])
            t = jwt.decode(jwt.encode({"alg": a0}, CLAIMS, k, algorithms=[a0]), k, algorithms=[a0])
            return reprs(o1, o2, t, getattr(o1, "protected", None), getattr(t, "header", None), getattr(t, "claims", None))
        ops["repr/str of consumed JWS / JWT objects[%s]" % a0] = consumed_jws
    if not e.public_only and [x for x in enc_algs(e) if not x[0].startswith("ECDH-1PU")]:
        a1, e1 = [x for x in enc_algs(e) if not x[0].startswith("ECDH-1PU")][0]

        def consumed_jwe(k, a1=a1, e1=e1):
            tok = jwe.encrypt_compact({"alg": a1, "enc": e1}, PAYLOAD, k, algorithms=[a1, e1])
            o1 = jwe.decrypt_compact(tok, k, algorithms=[a1, e1])
            o = jwe.FlattenedJSONEncryption({"enc": e1}, PAYLOAD)
            o.add_recipient({"alg": a1}, k)
            o2 = jwe.decrypt_json(jwe.encrypt_json(o, None, algorithms=[a1, e1]), k, algorithms=[a1, e1])
            return reprs(o1, o2, o1.recipient, o2.recipients[0], o, o.recipients[0], o1.protected, o2.recipients[0].header)
        ops["repr/str of JWE objects and recipients[%s,%s]" % (a1, e1)] = consumed_jwe
    for alg, enc in enc_algs(e):
        A = [alg, enc]
        if alg.startswith("ECDH-1PU"):
            # sender key generated on the spot (captured by capture_generated, so its d is searched for as well)
            def onepu(k, alg=alg, enc=enc, A=A, ser="compact"):
                sender = type(k).generate_key(k.curve_name)
                if ser == "compact":
                    return jwe.encrypt_compact({"alg": alg, "enc": enc, "skid": "sender-1"}, PAYLOAD, k, algorithms=A, sender_key=sender)
                o = (jwe.FlattenedJSONEncryption if ser == "flattened" else jwe.GeneralJSONEncryption)({"enc": enc}, PAYLOAD)
                o.add_recipient({"alg": alg}, k)
                if ser == "general" and "+" in alg:
                    o.add_recipient({"alg": alg, "typ": "second"}, k)
                return jwe.encrypt_json(o, None, algorithms=A, sender_key=sender)
            ops["jwe.encrypt_compact[%s,%s,sender]" % (alg, enc)] = onepu
            ops["jwe.encrypt_json.flattened[%s,%s,sender]" % (alg, enc)] = lambda k, f=onepu: f(k, ser="flattened")
            ops["jwe.encrypt_json.general[%s,%s,sender]" % (alg, enc)] = lambda k, f=onepu: f(k, ser="general")
            continue
        ops["jwe.encrypt_compact[%s,%s]" % (alg, enc)] = lambda k, alg=alg, enc=enc, A=A: jwe.encrypt_compact(
            {"alg": alg, "enc": enc}, PAYLOAD, k, algorithms=A)
        ops["jwe.encrypt_compact[%s,%s,KeySet]" % (alg, enc)] = lambda k, alg=alg, enc=enc, A=A: jwe.encrypt_compact(
            {"alg": alg, "enc": enc}, PAYLOAD, KeySet([k]), algorithms=A)

        def flat(k, alg=alg, enc=enc, A=A):
            o = jwe.FlattenedJSONEncryption({"enc": enc}, PAYLOAD, {"jku": "https://c12.example/jwks"}, b"aad")
            o.add_recipient({"alg": alg}, k)
            return jwe.encrypt_json(o, None, algorithms=A)

        def general(k, alg=alg, enc=enc, A=A):
            o = jwe.GeneralJSONEncryption({"enc": enc}, PAYLOAD)
            o.add_recipient({"alg": alg}, k)
            o.add_recipient({"alg": alg, "typ": "second"})
            return jwe.encrypt_json(o, KeySet([k]), algorithms=A)
        ops["jwe.encrypt_json.flattened[%s,%s]" % (alg, enc)] = flat
        if alg != "dir" and not alg.startswith("ECDH-ES") or alg.startswith("ECDH-ES+"):
            ops["jwe.encrypt_json.general[%s,%s,KeySet]" % (alg, enc)] = general
        if alg.startswith("ECDH-ES"):
            ops["jwe.encrypt_compact[%s,%s,apu/apv]" % (alg, enc)] = lambda k, alg=alg, enc=enc, A=A: jwe.encrypt_compact(
                {"alg": alg, "enc": enc, "apu": b64u(b"Alice"), "apv": b64u(b"Bob"), "kid": "given-kid"}, PAYLOAD, k, algorithms=A)
        ops["jwt.encode[%s,%s]" % (alg, enc)] = lambda k, alg=alg, enc=enc, A=A: jwt.encode(
            {"alg": alg, "enc": enc}, CLAIMS, k, registry=jwe.JWERegistry(algorithms=A))
    return ops


def must_raise_ops(e):
    from joserfc.jwk import KeySet
    ops = {"as_dict(private=True)": lambda k: k.as_dict(private=True),
           "as_dict(private=True, **params)": lambda k: k.as_dict(private=True, **CALLER_PARAMS),
           "KeySet.as_dict(private=True)": lambda k: KeySet([k]).as_dict(private=True)}
    if e.kty != "oct":
        ops.update({"as_pem(private=True)": lambda k: k.as_pem(private=True),
                    "as_der(private=True)": lambda k: k.as_der(private=True),
                    "as_pem(private=True, password)": lambda k: k.as_pem(private=True, password="pw"),
                    "as_bytes('DER', private=True)": lambda k: k.as_bytes("DER", True)})
    return ops


def all_ops(e):
    ops = {}
    ops.update(export_ops(e))
    ops.update(token_ops(e))
    return ops


def mutating(name):
    """operations that write a generated kid into the key object"""
    return "KeySet" in name or "kid" in name


def run_op(e, name, thunk):
    """-> (result, secrets to look for)"""
    key = e.fresh() if mutating(name) else e.key
    with capture_generated() as made:
        r = call(thunk, key)
    return r, e.secrets + ephemeral_secrets(made)


def short(o, n=160):
    s = repr(o)
    return s if len(s) <= n else s[:n] + "..."


# ----------------------------------------------------------------------------
# JWE with caller-provided ephemeral keys
# ----------------------------------------------------------------------------
EPK_ALGS = [("ECDH-ES", "A128GCM"), ("ECDH-ES+A128KW", "A128GCM"), ("ECDH-ES+A256KW", "A256CBC-HS512"),
            ("ECDH-1PU", "A256GCM"), ("ECDH-1PU+A128KW", "A128CBC-HS256"), ("ECDH-1PU+A256KW", "A256CBC-HS512")]
EPK_SERS = ["compact", "flattened", "general-1", "general-2", "general-3"]


def agreement_capable(e):
    return (e.kty == "EC") or (e.kty == "OKP" and e.crv in ("X25519", "X448"))


def epk_token_plan(ctx, zoo):
    """every agreement-capable key of the zoo, in every representation, as caller-provided ephemeral key"""
    rng = ctx.rng
    cands = [e for e in zoo if agreement_capable(e)]

    def same(e, private=None):
        return [x for x in cands if x.kty == e.kty and x.crv == e.crv and (private is None or x.public_only != private)]

    def static(e):      # recipes that rebuild the same key (a "generate" recipe would give another key)
        return not e.recipe["how"].startswith("generate")

    def usable(e):      # declared use / key_ops allow key agreement
        d = e.key.dict_value
        return d.get("use") != "sig" and ("key_ops" not in d or "deriveKey" in d["key_ops"])
    plan = []
    for eph in cands:
        if not static(eph):
            continue
        combos = [(a, s) for a in EPK_ALGS for s in EPK_SERS if not (s in ("general-2", "general-3") and "+" not in a[0])]
        if eph.public_only:
            # the API has no use for a public-only ephemeral key (the exchange needs its private part): one attempt each
            combos = [rng.choice(combos)]
        elif ctx.quick:
            combos = rng.sample(combos, 4 if not eph.noncanonical else 8)
        for (alg, enc), ser in combos:
            n = {"compact": 1, "flattened": 1, "general-1": 1, "general-2": 2, "general-3": 3}[ser]
            one_curve = alg.startswith("ECDH-1PU")      # one sender key for all recipients
            recips = []
            for j in range(n):
                pool = [x for x in (same(eph) if one_curve else cands) if static(x) and not x.public_only]
                e_j = eph if j == 0 else rng.choice(pool)
                rks = [x for x in same(e_j) if static(x) and usable(x)]
                recips.append({"rk": rng.choice(rks).recipe, "eph": e_j.recipe, "name": e_j.name})
            sender = None
            if one_curve:
                sender = rng.choice([x for x in same(eph, private=True) if static(x) and usable(x)]).recipe
            plan.append({"alg": alg, "enc": enc, "ser": ser, "recipients": [{"rk": r["rk"], "eph": r["eph"]} for r in recips],
                         "sender": sender, "names": [r["name"] for r in recips]})
    return plan


def _native_of(key):
    if key.key_type == "oct":
        return key.raw_value
    return key.private_key


def find_epks(o, acc, depth=0):
    """every value stored under a member named epk, anywhere in (decoded views of) the output"""
    if depth > 5:
        return acc
    if isinstance(o, dict):
        for k, v in o.items():
            if k == "epk":
                acc.append(v)
            find_epks(v, acc, depth + 1)
    elif isinstance(o, (list, tuple)):
        for v in o:
            find_epks(v, acc, depth + 1)
    elif isinstance(o, (str, bytes)):
        b = o.encode() if isinstance(o, str) else o
        for seg in (b.split(b".") if b"." in b else [b]):
            if seg[:2] == b"ey" and B64URL_RE.match(seg):
                with contextlib.suppress(Exception):
                    find_epks(json.loads(unb64u(seg)), acc, depth + 1)
    return acc


def run_epk_token(spec):
    """-> (result, [(violation kind, text)], number of epk members checked)"""
    from joserfc import jwe
    from joserfc.rfc7516.message import perform_encrypt
    from joserfc.rfc7516.compact import represent_compact
    register_drafts()
    alg, enc, ser = spec["alg"], spec["enc"], spec["ser"]
    registry = jwe.JWERegistry(algorithms=[alg, enc])
    rks = [make_key(r["rk"]) for r in spec["recipients"]]
    ephs = [make_key(r["eph"]) for r in spec["recipients"]]
    sender = make_key(spec["sender"]) if spec.get("sender") else None
    secrets, wants = [], []
    for k in rks + ephs + ([sender] if sender else []):
        nat = _native_of(k)
        if nat is not None:
            secrets += native_secrets(k.key_type, nat)
    for k in ephs:
        wants.append({m: v for m, v in dict(k.dict_value).items() if m not in SPEC_PRIVATE[k.key_type]})

    def go():
        if ser == "compact":
            obj = jwe.CompactEncryption({"alg": alg, "enc": enc, "apu": b64u(b"Alice")}, PAYLOAD)
            obj.attach_recipient(rks[0])
            obj.recipient.ephemeral_key = ephs[0]
            obj.recipient.sender_key = sender
            perform_encrypt(obj, registry)
            return represent_compact(obj).decode("ascii")
        if ser == "flattened":
            obj = jwe.FlattenedJSONEncryption({"enc": enc}, PAYLOAD, {"jku": "https://c12.example/jwks"}, b"aad")
            obj.add_recipient({"alg": alg}, rks[0])
        else:
            obj = jwe.GeneralJSONEncryption({"enc": enc}, PAYLOAD)
            for rk in rks:
                obj.add_recipient({"alg": alg}, rk)
        for rec, eph in zip(obj.recipients, ephs):
            rec.ephemeral_key = eph
        return jwe.encrypt_json(obj, None, registry=registry, sender_key=sender)
    with capture_generated() as made:
        r = call(go)
    problems = []
    if made:
        problems.append(("caller-ephemeral-key-replaced", "generate_key was called although every recipient had a caller-provided ephemeral key"))
    if r[0] == "err":
        return r, problems, 0
    out = r[1]
    found = scan(out, secrets + ephemeral_secrets(made))
    if found:
        problems.append(("private-material-in-output", "output contains private value %s (%s form): %s" % (found[0][0], found[0][1], short(out, 600))))
    epks = find_epks(out, [])
    if len(epks) < len(ephs):
        problems.append(("epk-missing", "%d epk member(s) for %d recipient(s): %s" % (len(epks), len(ephs), short(out, 400))))
    for epk in epks:
        if epk not in wants:
            extra = sorted(set(epk) - set().union(*[set(w) for w in wants])) if isinstance(epk, dict) else "?"
            problems.append(("private-member-in-epk", "epk %s is not the public view of a provided ephemeral key (unexpected members: %s)" % (
                short(epk, 500), extra)))
    return r, problems, len(epks)


# ----------------------------------------------------------------------------
# error messages and warnings produced while a private key is in play
# ----------------------------------------------------------------------------
def exc_texts(e, depth=0):
    """everything an exception shows to a log: str, repr, args, JoseError fields, notes, chained causes"""
    out = [str(e), repr(e)]
    for a in getattr(e, "args", ()):
        out.append(a if isinstance(a, (str, bytes)) else repr(a))
    for f in ("error", "description"):
        v = getattr(e, f, None)
        if v is not None:
            out.append(v if isinstance(v, (str, bytes)) else repr(v))
    out += list(getattr(e, "__notes__", []) or [])
    if depth < 3:
        for c in (e.__cause__, e.__context__):
            if c is not None:
                out += exc_texts(c, depth + 1)
    return out


def error_ops(e, rng, other):
    """name -> thunk; operations that are EXPECTED to fail (or warn) while handling the private key of e.
    `other`: another private entry of the same kind (for mismatching members)."""
    from joserfc import jws, jwe, jwt
    from joserfc.jwk import KeySet, JWKRegistry, OctKey
    cls = key_class(e.kty)
    ops = {}
    j = native_jwk(e.kty, e.native)
    jo = native_jwk(other.kty, other.native) if other is not None else dict(j)
    reg = list(cls.value_registry)

    def imp(name, d):
        ops["import_key[%s]" % name] = lambda d=d: cls.import_key(dict(d))
        ops["JWKRegistry.import_key[%s]" % name] = lambda d=d: JWKRegistry.import_key(dict(d))
        ops["KeySet.import_key_set[good, %s]" % name] = lambda d=d: KeySet.import_key_set({"keys": [dict(j), dict(d)]})
    for m in reg:
        if m in j:
            imp("%s=int" % m, {**j, m: 12345})
            imp("%s=list" % m, {**j, m: [j[m]]})
            imp("%s bad base64" % m, {**j, m: j[m] + "!*"})
            imp("%s truncated" % m, {**j, m: j[m][:-3]})
            if jo.get(m) not in (None, j[m]) and jo.get("crv") == j.get("crv"):
                imp("%s of another key" % m, {**j, m: jo[m]})
            if m not in SPEC_PRIVATE[e.kty] or m in ("q", "dp"):
                imp("%s missing" % m, {k: v for k, v in j.items() if k != m})
    imp("use=list", {**j, "use": ["sig"], "key_ops": ["sign"]})
    imp("use/key_ops conflict", {**j, "use": "enc", "key_ops": ["sign"]})
    imp("key_ops=str", {**j, "key_ops": "sign"})
    imp("kid=dict", {**j, "kid": {"nested": j}})
    imp("unknown crv", {**j, "crv": "P-999"})
    imp("kty missing", {k: v for k, v in j.items() if k != "kty"})
    imp("kty other", {**j, "kty": "EC" if e.kty != "EC" else "RSA"})
    if e.kty != "oct":
        S = _ser()
        enc_pem = e.native.private_bytes(S.Encoding.PEM, S.PrivateFormat.PKCS8, S.BestAvailableEncryption(b"right"))
        pem = native_bytes(e.native, True, False)
        ops["import_key[encrypted PEM, no password]"] = lambda: cls.import_key(enc_pem)
        ops["import_key[encrypted PEM, wrong password]"] = lambda: cls.import_key(enc_pem, password="wrong")
        lines = pem.split(b"\n")
        ops["import_key[PEM, blank line after the first body line]"] = lambda: cls.import_key(b"\n".join(lines[:2] + [b""] + lines[2:]))
        ops["import_key[PEM, Proc-Type style header then body]"] = lambda: cls.import_key(b"\n".join([lines[0], b"Comment: exported", b""] + lines[1:]))
        ops["import_key[PEM, garbage character]"] = lambda: cls.import_key(pem[:60] + b"*" + pem[60:])
        for frac in (3, 5, 7, 9):
            cut = len(pem) * frac // 10
            ops["import_key[PEM cut at %d/10]" % frac] = lambda cut=cut: cls.import_key(pem[:cut] + b"\n-----END PRIVATE KEY-----\n")
            ops["import_key[PEM cut at %d/10, no END]" % frac] = lambda cut=cut: cls.import_key(pem[:cut])
        ops["import_key[PEM of another class]"] = lambda: key_class({"RSA": "EC", "EC": "OKP", "OKP": "RSA"}[e.kty]).import_key(pem)
        ops["OctKey.import_key[private PEM text] (warns)"] = lambda: OctKey.import_key(pem).as_dict(private=False)
        ops["import_key[DER + junk]"] = lambda: cls.import_key(native_bytes(e.native, True, True)[:-7] + b"junkjunk")
    restricted = {"use": "sig", "alg": "only-this-alg", "key_ops": ["verify"]}
    if not e.recipe["how"].startswith("generate"):
        def rk():
            return make_key({**e.recipe, "parameters": restricted}) if e.recipe["how"] != "jwk" else \
                cls.import_key({**json.loads(e.recipe["data"]), **restricted})
        ops["check_use('enc')"] = lambda: rk().check_use("enc")
        ops["check_alg('other')"] = lambda: rk().check_alg("other")
        ops["check_key_op('sign')"] = lambda: rk().check_key_op("sign")
        ops["check_key_op('bogus')"] = lambda: rk().check_key_op("bogus")
        ops["serialize with restricted key"] = lambda: jws.serialize_compact({"alg": (sig_algs(e) or ["HS256"])[0]}, PAYLOAD, rk())
    key = e.key
    wrong_sig = [a for a, t in JWS_TABLE.items() if t and t[0] != e.kty]
    for a in rng.sample(wrong_sig, 3):
        ops["jws.serialize_compact[%s, wrong key type]" % a] = lambda a=a: jws.serialize_compact({"alg": a}, PAYLOAD, key, algorithms=[a])
    wrong_enc = [a for a, t in JWE_ALG_TABLE.items() if (t == "rsa") != (e.kty == "RSA") or (e.kty == "oct") != (isinstance(t, tuple) or t in ("dir", "pbes2"))]
    for a in rng.sample(wrong_enc, 3):
        ops["jwe.encrypt_compact[%s, wrong key]" % a] = lambda a=a: jwe.encrypt_compact({"alg": a, "enc": "A128GCM"}, PAYLOAD, key, algorithms=[a, "A128GCM"])
    if e.kty == "oct":
        for a, t in JWE_ALG_TABLE.items():
            if isinstance(t, tuple) and t[1] != len(e.native):
                ops["jwe.encrypt_compact[%s, wrong key size]" % a] = lambda a=a: jwe.encrypt_compact(
                    {"alg": a, "enc": "A128GCM"}, PAYLOAD, key, algorithms=[a, "A128GCM"])
        ops["jwe.encrypt_compact[dir, wrong key size]"] = lambda: jwe.encrypt_compact(
            {"alg": "dir", "enc": "A192CBC-HS384" if len(e.native) != 48 else "A128GCM"}, PAYLOAD, key, algorithms=["dir", "A192CBC-HS384", "A128GCM"])
        ops["key given as str (deprecation warning)"] = lambda: jws.serialize_compact({"alg": "HS256"}, PAYLOAD, b64u(e.native))
    ops["header not allowed"] = lambda: jws.serialize_compact({"alg": (sig_algs(e) or ["HS256"])[0], "x-unknown": b"\xff"}, PAYLOAD, key)
    ops["KeySet.get_by_kid(unknown)"] = lambda: KeySet([e.fresh()]).get_by_kid("no-such-kid")
    # consuming side: tampered tokens handled with the private key
    sa = sig_algs(e)
    if sa:
        def tampered_jws(how):
            tok = jws.serialize_compact({"alg": sa[0]}, PAYLOAD, key, algorithms=sa[:1])
            h, p, sg = tok.split(".")
            if how == "sig":
                tok = ".".join([h, p, sg[:-4] + ("AAAA" if not sg.endswith("AAAA") else "BBBB")])
            elif how == "kid":
                tok = jws.serialize_compact({"alg": sa[0], "kid": "other-kid"}, PAYLOAD, key, algorithms=sa[:1])
                return jws.deserialize_compact(tok, KeySet([e.fresh()]), algorithms=sa[:1])
            elif how == "short":
                tok = ".".join([h, p, sg[:7]])
            return jws.deserialize_compact(tok, key, algorithms=sa[:1])
        for how in ("sig", "kid", "short"):
            ops["jws.deserialize_compact[tampered %s]" % how] = lambda how=how: tampered_jws(how)
        ops["jwt.decode[tampered]"] = lambda: jwt.decode(jwt.encode({"alg": sa[0]}, CLAIMS, key, algorithms=sa[:1])[:-6] + "AAAAAA", key, algorithms=sa[:1])
    ea = [x for x in enc_algs(e) if not x[0].startswith("ECDH-1PU")]
    if ea and not e.public_only:
        alg, enc = ea[0]

        def tampered_jwe(part):
            tok = jwe.encrypt_compact({"alg": alg, "enc": enc}, PAYLOAD, key, algorithms=[alg, enc])
            segs = tok.split(".")
            i = {"header": 0, "ek": 1, "iv": 2, "ct": 3, "tag": 4}[part]
            segs[i] = (segs[i][:-3] + "AAA") if segs[i] and not segs[i].endswith("AAA") else "AAAA"
            return jwe.decrypt_compact(".".join(segs), key, algorithms=[alg, enc])
        for part in ("ek", "iv", "ct", "tag", "header"):
            ops["jwe.decrypt_compact[tampered %s]" % part] = lambda part=part: tampered_jwe(part)
    ops["as_dict(private=True) when public-only"] = lambda: cls.import_key(native_jwk(e.kty, e.native, private=False)).as_dict(private=True) \
        if e.kty != "oct" else (_ for _ in ()).throw(ValueError("n/a"))
    return ops


def run_error_op(thunk):
    """-> (outcome, texts to scan)"""
    import warnings
    with warnings.catch_warnings(record=True) as ws:
        warnings.simplefilter("always")
        r = call(thunk)
    texts = []
    for w in ws:
        texts += [str(w.message), repr(w.message), "%s:%s" % (w.filename, w.lineno)]
    if r[0] == "err":
        texts += exc_texts(r[1])
    return r, texts


# ----------------------------------------------------------------------------
# histories
# ----------------------------------------------------------------------------
def history_plan(rng, kty, n):
    """a random sequence of exporting calls on one key object"""
    ps_pool = [{}, {}, {"use": "sig"}, dict(CALLER_PARAMS), {"d": "caller-d", "k": "caller-k"}, {"kid": "caller-kid"}]
    ops = []
    for _ in range(n):
        r = rng.random()
        if r < 0.45:
            ops.append(("as_dict", False, rng.choice(ps_pool)))
        elif r < 0.7:
            ops.append(("as_dict", rng.choice([None, True, None, 0, 1]), rng.choice(ps_pool)))
        elif r < 0.85:
            ops.append(("ensure_kid",))
        else:
            ops.append(("thumbprint",))
    ops.append(("as_dict", False, {}))
    return ops


def run_history_impl(key, ops, mutate_rng=None):
    """-> list of ("dict"|"unit"|"str", result); every returned dict is mutated afterwards (top level):
    the next export must not care"""
    outs = []
    for op in ops:
        if op[0] == "as_dict":
            r = call(lambda: key.as_dict(private=op[1], **op[2]))
            snap = ("ok", json.loads(json.dumps(r[1]))) if r[0] == "ok" else r
            outs.append(("dict", snap))
            if r[0] == "ok" and mutate_rng is not None:
                d = r[1]
                how = mutate_rng.randrange(4)
                if how == 0:
                    d.clear()
                elif how == 1:
                    d["d"] = d["k"] = d["p"] = "mutated-by-caller"
                elif how == 2:
                    for m in list(d):
                        if m not in ("kty",):
                            d.pop(m)
                else:
                    d["kid"] = "mutated-kid"
        elif op[0] == "ensure_kid":
            outs.append(("unit", call(key.ensure_kid)))
        else:
            outs.append(("str", call(key.thumbprint)))
    return outs


ORDER_CHILD = """
import sys, json
sys.path.insert(0, %r)
from props import c12
print("C12ORDER " + json.dumps(c12.order_child(%r)))
"""


def order_child(order):
    """Run in a FRESH interpreter: the first public export in the process is done by order[0], then the
    other key types follow (class-level caches shared between key classes show up only this way)."""
    from joserfc.jwk import KeySet
    args = {"oct": 256, "RSA": 1024, "EC": "P-384", "OKP": "X25519"}
    problems = []
    keys = []
    for kty in order:
        k = key_class(kty).generate_key(args[kty])
        nat = k.raw_value if kty == "oct" else k.private_key
        keys.append((kty, k, native_secrets(kty, nat)))
    for rnd in range(2):
        for kty, k, secrets in keys:
            outs = {"as_dict(private=False)": k.as_dict(private=False)}
            if rnd:
                outs["as_dict()"] = None if k.as_dict() else None      # a private export in between
                outs["as_dict(private=False) again"] = k.as_dict(private=False)
            if kty != "oct":
                outs["as_pem(private=False)"] = k.as_pem(private=False)
            for name, out in outs.items():
                if out is None:
                    continue
                found = scan(out, secrets)
                bad = [m for m in SPEC_PRIVATE[kty] if isinstance(out, dict) and m in out]
                if found or bad:
                    problems.append("%s of the %s key after the order %s (round %d): private members %s, private values %s" % (
                        name, kty, "->".join(order), rnd, bad, found[:1]))
        ks = KeySet([k for _, k, _ in keys]).as_dict(private=False)
        found = scan(ks, [s for _, _, ss in keys for s in ss])
        bad = [(kty, m) for (kty, _, _), d in zip(keys, ks["keys"]) for m in SPEC_PRIVATE[kty] if m in d]
        if found or bad:
            problems.append("KeySet.as_dict(private=False) after the order %s: private members %s, private values %s" % ("->".join(order), bad, found[:1]))
    return problems


def run_order_child(order):
    import subprocess
    code = ORDER_CHILD % (lib.os.path.dirname(lib.os.path.dirname(lib.os.path.abspath(__file__))), list(order))
    p = subprocess.run([lib.PY, "-W", "ignore", "-c", code], env=lib.child_env(), stdout=subprocess.PIPE, stderr=subprocess.STDOUT,
                       text=True, timeout=120)
    for line in p.stdout.splitlines():
        if line.startswith("C12ORDER "):
            return json.loads(line[9:]), None
    return None, p.stdout[-1500:]


# ----------------------------------------------------------------------------
def run(ctx):
    from joserfc import jwe
    from joserfc.jwk import KeySet
    from joserfc.rfc7516.models import Recipient, CompactEncryption, FlattenedJSONEncryption
    from cryptography.hazmat.primitives import serialization as S
    ok, log = ctx.prove()
    rng = ctx.rng

    cases, meta = [], []

    seen_terms = set()

    def add(term, m):
        if term in seen_terms:       # same model input and same recorded outcome: evaluate once
            return
        seen_terms.add(term)
        cases.append(term)
        meta.append(m)

    dist = {"keys": 0, "exports_scanned": 0, "tokens_scanned": 0, "must_raise": 0, "as_dict_cases": 0,
            "keyset_cases": 0, "thumb_cases": 0, "ensure_kid_cases": 0, "epk_cases": 0, "as_bytes_cases": 0,
            "needles_per_secret": 0, "ops_not_applicable": 0}
    register_drafts()
    unt = untabled_entries() + ["algorithm " + a for a in untabled_algorithms()]
    dist["untabled_entries"] = len(unt)
    ctx.coverage["entry_table"] = ENTRY_TABLE
    for u in unt:
        ctx.violation({"kind": "untabled-entry", "entry": u},
                      "%s is public but not classified in harness/props/c12.py (ENTRY_TABLE / algorithm tables): an output path "
                      "that carries key material may go unscanned" % u,
                      {"no_failing_input_found": True, "broken": "coverage table of the C12 check", "entry": u})
    zoo, skipped = build_zoo(ctx)
    dist["keys"] = len(zoo)
    if skipped:
        ctx.notes.append("key representations not importable (skipped): " + "; ".join(skipped))
    if zoo and zoo[0].secrets:
        dist["needles_per_secret"] = len(zoo[0].secrets[0].needles)

    def leak(e, opname, found, out, extra=None):
        label, form = found[0]
        ctx.violation({"kind": "private-material-in-output", "kty": e.kty, "op": opname.split("[")[0], "member": label.split(".")[-1]},
                      "%s of key %s contains private value %s (%s form); output: %s" % (opname, e.name, label, form, short(out)),
                      {"recipe": e.recipe, "op": opname, "found": found, "output": short(out, 2000), **(extra or {})})

    # Observations outside the outputs enumerated by the statement (public JWK / key-set exports, public PEM/DER,
    # epk, thumbprints and generated kids, JWS/JWE/JWT serializations): exception and warning texts, object
    # representations.  They are scanned, but a hit is only COUNTED here - never a violation.
    rnd_ = ctx.coverage.setdefault("recorded_not_demanded", {"hits": 0, "by_cause": {}, "samples": []})

    def record_not_demanded(cause, e, opname, found, out):
        rnd_["hits"] += 1
        rnd_["by_cause"][cause] = rnd_["by_cause"].get(cause, 0) + 1
        if len(rnd_["samples"]) < 6 and not any(x["cause"] == cause and x["kty"] == e.kty for x in rnd_["samples"]):
            rnd_["samples"].append({"cause": cause, "kty": e.kty, "key": e.name, "op": opname, "private_value": found[0][0],
                                    "form": found[0][1], "text": short(out, 300)})

    # ---- 1. direct oracle: taint scan over every exporting method and token operation
    for e in zoo:
        exp = export_ops(e)
        for name, thunk in all_ops(e).items():
            r, secrets = run_op(e, name, thunk)
            ctx.note_case(("op", e.name, name))
            if r[0] == "err":
                # an operation that the unchanged library refuses is not a leak; what must work is checked below
                dist["ops_not_applicable"] += 1
                if name in exp:
                    ctx.violation({"kind": "public-export-raises", "kty": e.kty, "op": name},
                                  "%s raised %r on key %s" % (name, r[1], e.name), {"recipe": e.recipe, "op": name})
                continue
            out = r[1]
            dist["exports_scanned" if name in exp else "tokens_scanned"] += 1
            found = scan(out, secrets)
            if found and name.startswith("repr/str"):
                # object representations are not among the outputs the statement enumerates: recorded only
                record_not_demanded("repr", e, name, found, out)
            elif found:
                leak(e, name, found, out)
            # structural: no private member NAME in a JWK exported as public
            if name in ("as_dict(private=False)", "as_dict()", "as_dict(private=False, **params)", "as_dict(**params)"):
                # with the default flag the caller's own extra parameters (even if named like private members) stay
                own = set() if "private=False" in name else set(e.recipe.get("parameters") or {})
                bad = [m for m in SPEC_PRIVATE[e.kty] if m in out and m not in CALLER_PARAMS and m not in own]
                if bad:
                    ctx.violation({"kind": "private-member-in-public-jwk", "kty": e.kty, "op": name, "member": bad[0]},
                                  "%s of key %s has private member(s) %s" % (name, e.name, bad),
                                  {"recipe": e.recipe, "op": name, "output": short(out, 2000)})
            if name.startswith("KeySet.as_dict("):
                for d in out["keys"]:
                    own = set() if "private=False" in name else set(e.recipe.get("parameters") or {})
                    bad = [m for m in SPEC_PRIVATE[e.kty] if m in d and m not in own]
                    if bad:
                        ctx.violation({"kind": "private-member-in-public-jwk", "kty": e.kty, "op": name, "member": bad[0]},
                                      "%s of key %s has private member(s) %s" % (name, e.name, bad),
                                      {"recipe": e.recipe, "op": name, "output": short(out, 2000)})
            # epk of a produced JWE: re-read it from the token and check its members
            if name.startswith("jwe.encrypt_compact[ECDH") or name.startswith("jwt.encode[ECDH"):
                hdr = json.loads(unb64u(out.split(".")[0]))
                epk = hdr.get("epk")
                if not isinstance(epk, dict) or any(m in epk for m in SPEC_PRIVATE[e.kty]):
                    ctx.violation({"kind": "private-member-in-epk", "kty": e.kty, "op": name.split("[")[0]},
                                  "%s with key %s wrote epk %r" % (name, e.name, epk), {"recipe": e.recipe, "op": name})
            # a PEM/DER public export is exactly the native public encoding (no room for anything else)
            if e.native is not None and e.kty != "oct" and name.startswith(("as_pem(", "as_der(", "as_bytes(")):
                want = native_bytes(e.native, False, "der" in name.lower())
                if out != want:
                    ctx.violation({"kind": "public-bytes-differ", "kty": e.kty, "op": name},
                                  "%s of key %s is not the SubjectPublicKeyInfo of the native public key: %s" % (name, e.name, short(out)),
                                  {"recipe": e.recipe, "op": name, "output": short(out, 2000)})
        if e.recipe["how"] == "generate-via" and e.key.is_private:
            ctx.violation({"kind": "public-only-request-returns-private-key", "kty": e.kty, "entry": e.recipe["entry"]},
                          "%s(%s, %r, private=%r given %s) returned a key with is_private = True" % (
                              {"class": "<KeyClass>.generate_key", "registry": "JWKRegistry.generate_key",
                               "keyset": "KeySet.generate_key_set"}[e.recipe["entry"]], e.kty, e.recipe["data"], e.recipe["private"],
                              {"pos": "positionally", "kw": "by keyword"}.get(e.recipe["form"], e.recipe["form"])),
                          {"recipe": e.recipe, "op": "as_dict(private=True)"})
        # private export requested from a public-only key is an error
        if e.public_only:
            for name, thunk in must_raise_ops(e).items():
                r = call(thunk, e.fresh())
                ctx.note_case(("must-raise", e.name, name))
                dist["must_raise"] += 1
                if r[0] == "ok":
                    ctx.violation({"kind": "private-export-from-public-key-returns", "kty": e.kty, "op": name},
                                  "%s on public-only key %s returned %s instead of raising" % (name, e.name, short(r[1])),
                                  {"recipe": e.recipe, "op": name, "output": short(r[1], 2000)})
        elif e.kty != "oct" and not e.noncanonical:
            # non-interference on the implementation: public export of the private key == export of its public-only twin
            twin = key_class(e.kty).import_key(native_bytes(e.native, False, False))
            a, b = e.fresh().as_dict(private=False), twin.as_dict()
            reg = set(key_class(e.kty).value_registry) | {"kty"}
            extras = (set((e.recipe.get("parameters") or {}).keys())
                      | set(json.loads(e.recipe["data"]).keys() if e.recipe["how"] == "jwk" else ())) - reg
            core = {k: v for k, v in a.items() if k not in extras}
            core.pop("kid", None)
            if core != {k: v for k, v in b.items() if k != "kid"}:
                ctx.violation({"kind": "public-view-differs", "kty": e.kty},
                              "as_dict(private=False) of %s = %r differs from the JWK of its public key %r" % (e.name, a, b),
                              {"recipe": e.recipe, "op": "as_dict(private=False)"})

    # ---- 2. correspondence with the Coq model
    PRIV_MAIN = [False, None, True]
    PRIV_ODD = [0, 1, "", "x", 0.0]
    PARAM_SETS = [{}, dict(CALLER_PARAMS), {"d": "caller-d", "k": "caller-k", "n": "caller-n"}, {"kty": "caller-kty", "oth": [1]}]

    def kind_of(e):
        return KIND[e.kty]

    def key_tuple(k, d):
        return "(%s, %s, %s)" % (KIND[k.key_type], c_bool(k.is_private if k.key_type != "oct" else True), c_kd(d))

    for entry, kty, arg, form, flag, r in build_zoo.gen_records:
        en = {"class": "GClass", "registry": "GRegistry" if kty in KIND else "GRegistryUnknown",
              "keyset": "(GKeySet 2%nat)" if kty in KIND else None}[entry]
        if en is None:          # key set of an unknown key type: same refusal as the registry call, one key at a time
            en = "GRegistryUnknown"
        kk = KIND.get(kty, "KOct")
        model_flag = True if form == "default" else flag
        exp = c_res(r, lambda ks: c_list(c_bool(k.is_private) for k in ks))
        add("CGen %s %s %s %s" % (en, kk, c_pv(model_flag), exp), ("generate", entry, kty, arg, form, flag))
        ctx.note_case(("generate", entry, kty, arg, form, repr(flag)))
        dist["generate_cases"] = dist.get("generate_cases", 0) + 1
        if r[0] == "ok" and kty in KIND:
            want_private = bool(model_flag) or kty == "oct"
            for k in r[1]:
                if k.is_private and not want_private:     # (the converse is not a leak: left to the correspondence)
                    ctx.violation({"kind": "public-only-request-returns-private-key", "kty": kty, "entry": entry},
                                  "%s %s %r: private flag %r (%s) gave is_private = %r" % (entry, kty, arg, flag, form, k.is_private),
                                  {"recipe": {"kty": kty, "how": "generate-via", "entry": entry, "data": arg, "form": form, "private": flag,
                                              "parameters": None}, "op": "as_dict(private=True)"})
    for kty in KIND:
        cls = key_class(kty)
        flags = [(n, bool(p.private), bool(p.required)) for n, p in cls.value_registry.items()]
        add("CFlags %s %s" % (KIND[kty], c_list("(%s, %s, %s)" % (c_str(n), c_bool(p), c_bool(r)) for n, p, r in flags)),
            ("flags", kty))
        ctx.note_case(("flags", kty))

    for e in zoo:
        key = e.fresh()
        d0 = dict(key.dict_value)
        rawpriv = key.is_private
        combos = [(False, ps) for ps in PARAM_SETS]
        for pv in (None, True):
            combos += [(pv, {})] + [(pv, ps) for ps in (PARAM_SETS[1:] if not ctx.quick else [rng.choice(PARAM_SETS[1:])])]
        combos += [(pv, rng.choice(PARAM_SETS)) for pv in (PRIV_ODD if not ctx.quick else rng.sample(PRIV_ODD, 2))]
        for pv, ps in combos:
            if True:
                r = call(lambda: key.as_dict(private=pv, **ps))
                if r[0] == "ok" and not isinstance(r[1], dict):
                    r = ("err", TypeError("not a dict"))
                add("CAsDict %s %s %s %s %s %s" % (kind_of(e), c_bool(rawpriv), c_kd(d0), c_pv(pv), c_kd(ps), c_res(r, c_kd)),
                    ("as_dict", e.name, pv, ps))
                ctx.note_case(("as_dict", e.name, repr(pv), json.dumps(ps, sort_keys=True)))
                dist["as_dict_cases"] += 1
        # thumbprint input as seen by json.dumps, and the digest of exactly that
        with thumb_hook() as shim:
            t = call(key.thumbprint)
        if t[0] == "ok" and len(shim.calls) == 1:
            inp = dict(shim.calls[0])
            add("CThumbIn %s %s (Ok %s)" % (kind_of(e), c_kd(d0), c_kd(inp)), ("thumbprint-input", e.name))
            want = b64u(hashlib.sha256(json.dumps(inp, separators=(",", ":")).encode()).digest())
            fields_priv = [m for m in inp if m in SPEC_PRIVATE[e.kty]]
            if t[1] != want or (e.kty != "oct" and fields_priv):
                ctx.violation({"kind": "thumbprint-reads-private", "kty": e.kty},
                              "thumbprint() of %s digests members %s (private: %s)" % (e.name, list(inp), fields_priv),
                              {"recipe": e.recipe, "op": "thumbprint()", "fields": list(inp)})
        else:
            add("CThumbIn %s %s %s" % (kind_of(e), c_kd(d0), c_res(t if t[0] == "err" else ("err", RuntimeError()), c_kd)),
                ("thumbprint-input", e.name))
        ctx.note_case(("thumb", e.name))
        dist["thumb_cases"] += 1
        # ensure_kid
        thumbs = "[(%s, %s)]" % (c_kd(dict(shim.calls[0])), c_thumb(t[1])) if t[0] == "ok" and shim.calls else "[]"
        r = call(lambda: (key.ensure_kid(), dict(key.dict_value))[1])
        add("CEnsureKid %s %s %s %s" % (kind_of(e), c_kd(d0), thumbs, c_res(r, c_kd)), ("ensure_kid", e.name))
        ctx.note_case(("ensure_kid", e.name))
        dist["ensure_kid_cases"] += 1
        # as_bytes dispatch
        if e.kty != "oct":
            with_pw = (None, "pw") if (not ctx.quick or rng.random() < 0.2) else (None,)   # encrypting PKCS8 is slow
            for enc in (None, "PEM", "DER", "JWK"):
                for pv in [True, False, None] + ([0, 1] if enc in (None, "DER") else []):
                    for pw in with_pw:
                        kk = key
                        kw = {"private": pv}
                        if enc is not None:
                            kw["encoding"] = enc
                        if pw is not None:
                            kw["password"] = pw
                        r = call(lambda: kk.as_bytes(**kw))
                        if r[0] == "ok":
                            o = r[1]
                            pwb = pw.encode() if pw else None
                            if o.startswith(b"-----BEGIN"):
                                xk = "XPrivate" if b"PRIVATE KEY-----" in o else ("XPublic" if b"PUBLIC KEY-----" in o else None)
                            else:
                                xk = "XPrivate" if call(S.load_der_private_key, o, pwb)[0] == "ok" else (
                                    "XPublic" if call(S.load_der_public_key, o)[0] == "ok" else None)
                            exp_term = "(Ok %s)" % xk if xk else "(Err ERuntime)"
                        else:
                            exp_term = "(Err %s)" % c_exn(exn_class(r[1]))
                        add("CAsBytes %s %s %s %s %s" % (c_bool(rawpriv), {None: "EncDefault", "PEM": "EncPEM", "DER": "EncDER", "JWK": "EncOther"}[enc],
                                                          c_pv(pv), c_bool(pw is not None), exp_term), ("as_bytes", e.name, enc, pv, pw))
                        ctx.note_case(("as_bytes", e.name, enc, repr(pv), pw))
                        dist["as_bytes_cases"] += 1

    # key sets: random mixes of all kinds, fresh objects, with and without kid
    n_sets = ctx.scale(60, 1500)
    for i in range(n_sets):
        members = [rng.choice(zoo) for _ in range(rng.choice([0, 1, 1, 2, 3, 4, 6]))]
        if i < len(zoo):
            members.append(zoo[i])          # every entry occurs in some set
        keys = [m.fresh() for m in members]
        pre = [dict(k.dict_value) for k in keys]
        thumbs = []
        for k, d in zip(keys, pre):
            if "kid" not in d:
                with thumb_hook() as shim:
                    t = k.thumbprint()
                thumbs.append("(%s, %s)" % (c_kd(dict(shim.calls[0])), c_thumb(t)))
        pv = rng.choice([False, False, False, None, True] + ([0] if i % 7 == 0 else []))
        ps = rng.choice([{}, {}, {"use": "sig"}, dict(CALLER_PARAMS), {"k": "caller-k", "d": "caller-d"}])
        r = call(lambda: KeySet(keys).as_dict(private=pv, **ps)["keys"])
        add("CKeySet %s %s %s %s %s" % (c_list(thumbs), c_list(key_tuple(k, d) for k, d in zip(keys, pre)), c_pv(pv), c_kd(ps),
                                       c_res(r, lambda l: c_list(c_kd(x) for x in l))),
            ("keyset", [m.name for m in members], pv, ps))
        ctx.note_case(("keyset", i, [m.name for m in members], repr(pv)))
        dist["keyset_cases"] += 1
        if r[0] == "ok" and pv is False:
            secrets = [s for m in members for s in m.secrets]
            found = scan({"keys": r[1]}, secrets)
            if found:
                leak(members[0], "KeySet.as_dict(private=False) of [%s]" % ", ".join(m.name for m in members), found, r[1],
                     {"recipes": [m.recipe for m in members]})
            for m, o in zip(members, r[1]):
                bad = [x for x in SPEC_PRIVATE[m.kty] if x in o and x not in ps]
                if bad:
                    ctx.violation({"kind": "private-member-in-public-jwk", "kty": m.kty, "op": "KeySet.as_dict(private=False)", "member": bad[0]},
                                  "KeySet.as_dict(private=False) exports private member(s) %s of %s" % (bad, m.name),
                                  {"recipe": m.recipe, "op": "KeySet.as_dict(private=False)", "output": short(o, 2000)})

    # prepare_ephemeral_key: header written for caller-provided / generated / re-generated ephemeral keys
    algs = jwe.JWERegistry.algorithms["alg"]
    curve_entries = [e for e in zoo if e.kty in ("EC", "OKP")]
    others = [e for e in zoo if e.kty in ("oct", "RSA")]

    def same_curve(e):
        return [x for x in curve_entries if x.kty == e.kty and x.crv == e.crv]

    plan = []
    for eph_e in curve_entries:             # every representation (incl. non-canonical JWKs) as a caller-provided ephemeral key
        plan.append((rng.choice(same_curve(eph_e)), eph_e, "given"))
    for i in range(ctx.scale(60, 1000)):
        rk_e = rng.choice(curve_entries) if rng.random() < 0.85 else rng.choice(others)
        mode = rng.choice(["none", "none", "again", "given-again", "other", "public"])
        if mode in ("none", "again"):
            eph_e = None
        elif mode == "given-again":
            eph_e = rng.choice(same_curve(rk_e) or curve_entries)
        elif mode == "public":
            eph_e = rng.choice([e for e in curve_entries if e.public_only])
        else:
            eph_e = rng.choice(zoo)
        plan.append((rk_e, eph_e, mode))
    for i, (rk_e, eph_e, mode) in enumerate(plan):
        alg = algs[rng.choice(["ECDH-ES", "ECDH-ES+A128KW", "ECDH-ES+A256KW"])]
        hdr0 = rng.choice([{"alg": alg.name, "enc": "A128GCM"}, {"alg": alg.name, "enc": "A128GCM", "epk": {"stale": 1}, "kid": "r"},
                           {"epk": "old", "alg": alg.name}, {}])
        compact = rng.random() < 0.5
        rk = rk_e.fresh()
        if compact:
            parent = CompactEncryption(dict(hdr0), PAYLOAD)
            rec = Recipient(parent, None, rk)
        else:
            parent = FlattenedJSONEncryption({"enc": "A128GCM"}, PAYLOAD)
            rec = Recipient(parent, dict(hdr0) if hdr0 else None, rk)
        if eph_e is not None:
            rec.ephemeral_key = eph_e.fresh()
        secrets = rk_e.secrets + (eph_e.secrets if eph_e else [])
        rounds = 2 if mode in ("again", "given-again") else 1      # second round = re-encryption of the same object
        for rnd in range(rounds):
            before = rec.ephemeral_key
            before_t = "None" if before is None else "(Some %s)" % key_tuple(before, dict(before.dict_value))
            mark = bool(getattr(rec, "_ephemeral_key_generated", False))
            start = dict(parent.protected) if compact else dict(rec.header or {})
            with capture_generated() as made:
                r = call(alg.prepare_ephemeral_key, rec)
            written = parent.protected if compact else (rec.header or {})
            eph = rec.ephemeral_key
            fresh_k = made[-1] if made else (eph if eph is not None else rk)   # any key when nothing was generated
            res = ("ok", dict(written)) if r[0] == "ok" else r
            add("CEpk %s %s %s %s %s %s" % (KIND[rk.key_type], before_t, c_bool(mark), key_tuple(fresh_k, dict(fresh_k.dict_value)),
                                           c_kd(start), c_res(res, c_kd)),
                ("epk", rk_e.name, eph_e.name if eph_e else "generated", mode, rnd, compact))
            ctx.note_case(("epk", i, rnd, rk_e.name, eph_e.name if eph_e else None, compact))
            dist["epk_cases"] += 1
            if r[0] != "ok":
                break
            secrets = secrets + ephemeral_secrets(made)
            found = scan(written, secrets)
            epk = written.get("epk")
            want = {k: v for k, v in eph.dict_value.items() if k not in SPEC_PRIVATE[eph.key_type]}
            if found or epk != want:
                ctx.violation({"kind": "private-member-in-epk", "kty": eph.key_type, "op": "prepare_ephemeral_key"},
                              "prepare_ephemeral_key wrote epk %s, expected the public members %s of the ephemeral key (private values found: %s); "
                              "recipient %s, ephemeral %s" % (short(epk, 400), sorted(want), found, rk_e.name, eph_e.name if eph_e else "generated"),
                              {"recipe": rk_e.recipe, "ephemeral_recipe": eph_e.recipe if eph_e else None, "op": "prepare_ephemeral_key",
                               "alg": alg.name})

    # ---- 4. error messages and warnings raised while a private key is handled
    priv_entries = [e for e in zoo if not e.public_only and e.native is not None]
    by_kind = {}
    for e in priv_entries:
        by_kind.setdefault((e.kty, e.crv), []).append(e)
    chosen = []
    for kk, lst in sorted(by_kind.items(), key=str):
        chosen += (lst if not ctx.quick else rng.sample(lst, min(2, len(lst))))
    for e in chosen:
        others = [x for x in by_kind[(e.kty, e.crv)] if x.native is not e.native]
        other = rng.choice(others) if others else None
        for name, thunk in error_ops(e, rng, other).items():
            r, texts = run_error_op(thunk)
            ctx.note_case(("error", e.name, name))
            dist["error_ops"] = dist.get("error_ops", 0) + 1
            dist["error_ops_raised" if r[0] == "err" else "error_ops_returned"] = dist.get(
                "error_ops_raised" if r[0] == "err" else "error_ops_returned", 0) + 1
            dist["messages_scanned"] = dist.get("messages_scanned", 0) + len(texts)
            secrets = e.secrets + (other.secrets if other is not None else [])
            found = scan(texts, secrets) if texts else []
            if found:
                cause = "pyca-pem-error-echo" if any("Unable to load PEM file" in str(t) for t in texts) else (
                    "exception-text" if r[0] == "err" else "warning-text")
                record_not_demanded(cause, e, name, found, texts)

    # ---- 5. histories: sequences of exports on one object (model: run_history), export orders across key types
    for e in zoo:
        if e.recipe["how"].startswith("generate"):
            continue
        for rep in range(ctx.scale(1, 4)):
            key = e.fresh()
            d0 = dict(key.dict_value)
            with thumb_hook() as shim:
                t0 = call(key.thumbprint)
            thumbs = "[(%s, %s)]" % (c_kd(dict(shim.calls[0])), c_thumb(t0[1])) if t0[0] == "ok" and shim.calls else "[]"
            ops = history_plan(rng, e.kty, rng.randrange(3, 8))
            outs = run_history_impl(key, ops, mutate_rng=rng)
            ops_t, outs_t = [], []
            for op, (kind, r) in zip(ops, outs):
                if op[0] == "as_dict":
                    ops_t.append("OAsDict %s %s" % (c_pv(op[1]), c_kd(op[2])))
                    outs_t.append("RDict %s" % c_res(r, c_kd))
                elif op[0] == "ensure_kid":
                    ops_t.append("OEnsureKid")
                    outs_t.append("RUnit %s" % c_res(r, lambda _: "tt"))
                else:
                    ops_t.append("OThumbprint")
                    outs_t.append("RStr %s" % c_res(r, c_thumb))
            add("CHistory %s %s %s %s %s %s %s" % (KIND[e.kty], c_bool(key.is_private), c_kd(d0), thumbs, c_list(ops_t), c_list(outs_t),
                                                  c_kd(dict(key.dict_value))), ("history", e.name, [o[0] + repr(o[1:2]) for o in ops]))
            ctx.note_case(("history", e.name, rep, repr(ops)))
            dist["history_cases"] = dist.get("history_cases", 0) + 1
            first_pub = None
            for op, (kind, r) in zip(ops, outs):
                if op[0] != "as_dict" or op[1] is not False or r[0] != "ok":
                    if op[0] == "as_dict" and op[1] is False:
                        ctx.violation({"kind": "public-export-raises", "kty": e.kty, "op": "history"},
                                      "as_dict(private=False) raised %r on %s after %r" % (r[1], e.name, ops), {"recipe": e.recipe, "op": "history", "ops": repr(ops)})
                    continue
                out = r[1]
                found = scan(out, e.secrets)
                bad = [m for m in SPEC_PRIVATE[e.kty] if m in out and m not in op[2]]
                core = {k: v for k, v in out.items() if k != "kid"} if not op[2] else None   # exports without params are comparable
                if first_pub is None and core is not None:
                    first_pub = core
                if found or bad or (core is not None and core != first_pub):
                    ctx.violation({"kind": "private-material-after-history", "kty": e.kty, "op": "as_dict(private=False)"},
                                  "after the calls %r on one %s object, as_dict(private=False) = %s (private members %s, private values %s, "
                                  "same as the first public export: %s)" % (ops, e.name, short(out, 300), bad, found[:1], core is None or core == first_pub),
                                  {"recipe": e.recipe, "op": "history", "ops": json.dumps(ops)})
    import itertools
    orders = list(itertools.permutations(["oct", "RSA", "EC", "OKP"]))
    if ctx.quick:
        orders = [o for o in orders if o in (("oct", "RSA", "EC", "OKP"), ("RSA", "OKP", "oct", "EC"), ("EC", "oct", "OKP", "RSA"), ("OKP", "EC", "RSA", "oct"))]
    for order in orders:
        problems, err = run_order_child(order)
        ctx.note_case(("order", order))
        dist["export_orders"] = dist.get("export_orders", 0) + 1
        if problems is None:
            ctx.violation({"kind": "order-child-crashed"}, "the fresh-interpreter export-order run crashed: " + (err or "")[-300:],
                          {"no_failing_input_found": True, "broken": "harness (order child)", "output": err})
            continue
        for text in problems[:3]:
            ctx.violation({"kind": "private-material-depends-on-export-order", "first": order[0]}, text,
                          {"op": "order", "order": list(order)})

    # ---- 3. tokens made with CALLER-PROVIDED ephemeral keys, every representation, ECDH-ES / ECDH-1PU (+KW), all serializations
    for spec in epk_token_plan(ctx, zoo):
        r, problems, n_epk_seen = run_epk_token(spec)
        ctx.note_case(("epk-token", json.dumps(spec, sort_keys=True)))
        dist["epk_tokens" if r[0] == "ok" else "epk_tokens_refused"] = dist.get("epk_tokens" if r[0] == "ok" else "epk_tokens_refused", 0) + 1
        dist["epk_members_checked"] = dist.get("epk_members_checked", 0) + n_epk_seen
        for kind, text in problems:
            ctx.violation({"kind": kind, "op": "jwe[caller-provided epk]", "alg": spec["alg"].split("+")[0], "ser": spec["ser"].split("-")[0]},
                          "%s %s with caller-provided ephemeral key(s) %s: %s" % (spec["alg"], spec["ser"], spec["names"], text),
                          {"op": "epk-token", "spec": spec})

    ctx.coverage["input_distribution"] = dist
    ctx.coverage["rule"] = ("every private value of the native key (pyca numbers / raw octets), >= %d octets, searched in raw, hex, HEX, "
                            "base64/base64url cores at 3 alignments and decimal form in every view of every output" % MIN_SECRET)
    e0 = next(e for e in zoo if e.kty == "EC" and not e.public_only)
    ctx.sample({"op": "as_dict(private=False)", "key": e0.name, "impl": e0.fresh().as_dict(private=False)})
    ctx.sample({"op": "KeySet.as_dict(private=False)", "key": zoo[0].name, "impl": KeySet([zoo[0].fresh()]).as_dict(private=False)})
    ctx.sample({"coq_case": cases[10][:200]})

    # ---- correspondence: model (vm_compute) vs recorded implementation behaviour
    ev = lib.CoqEval(["From Model Require Import Base PyVal TableTypes C12Keys C12Cases."], "c12case", "c12_check", "c12_show",
                     shard=150, max_chars=60000)
    res = ev.run(cases, jobs=6)
    dist["coq_cases_distinct"] = len(cases)
    dist["coq_case_chars"] = sum(len(c) for c in cases)
    ctx.coverage["traces_validated_against_impl"] = res["evaluated"]
    ctx.coverage["disagreements_checked"] = len(res["failing"])
    direct = len(ctx.violations)
    for i in res["failing"][:20]:
        ctx.violation({"kind": "correspondence", "fn": meta[i][0]},
                      "model and implementation disagree on %s %r" % (meta[i][0], meta[i][1:]),
                      {"case": cases[i][:6000], "no_failing_input_found": direct == 0,
                       "broken": "correspondence model/C12Cases.v:c12_check vs joserfc key exports"})
    for si, err in res["errors"]:
        ctx.violation({"kind": "correspondence-error"}, "coqc failed on a generated case file",
                      {"output": err, "no_failing_input_found": True, "broken": "case evaluation"})
    if not ok:
        ctx.violation({"kind": "proof-broken"}, "props/C12.v or its closure no longer compiles (registry flags changed?)",
                      {"log": log[-3000:], "no_failing_input_found": direct == 0 and not res["failing"],
                       "broken": "theorems of props/C12.v"})
    ctx.assumptions += [
        "the digest json.dumps -> hashlib -> base64url of a thumbprint is an uninterpreted function H of the selected members "
        "(its RFC 7638 value is C13); that a digest of k does not contain k is checked by the taint scan only",
        "pyca public_bytes / private_bytes are uninterpreted functions of the public / private native key; the PEM/DER public "
        "export is compared byte-for-byte with pyca's SubjectPublicKeyInfo of the native public key on the implementation",
        "JWS/JWE/JWT serializations are not modelled: they are covered by the taint scan (direct oracle) over every "
        "algorithm family and serialization, with ephemeral keys captured from generate_key",
        "dict_value of a key (the JWK view before filtering) is an input of the model, recorded from the implementation",
    ]
    if not ctx.quick:
        ctx.coqchk()


def replay(path):
    r = json.load(open(path))["replay"]
    print("replay:", {k: (v if k != "output" else "...") for k, v in r.items()})
    if r.get("op") == "order":
        problems, err = run_order_child(r["order"])
        print("problems:", problems, err or "")
        return 1 if (problems or problems is None) else 0
    if r.get("op") == "history":
        key = make_key(r["recipe"])
        nat = key.raw_value if key.key_type == "oct" else key.private_key
        secrets = native_secrets(key.key_type, nat) if nat is not None else []
        ops = [tuple(o) for o in json.loads(r["ops"])] if r.get("ops", "").startswith("[[") else []
        bad = 0
        for op, (kind, res) in zip(ops, run_history_impl(key, ops)):
            if op[0] == "as_dict" and op[1] is False:
                print(op, "->", short(res[1], 300))
                if res[0] != "ok" or scan(res[1], secrets) or [m for m in SPEC_PRIVATE[key.key_type] if m in res[1] and m not in op[2]]:
                    bad = 1
        return bad
    if str(r.get("op", "")).startswith("error:"):
        import random as _random
        key = make_key(r["recipe"])
        nat = key.raw_value if key.key_type == "oct" else key.private_key
        e = Entry("replay", key.key_type, getattr(key, "curve_name", None), r["recipe"], nat, False, key=key)
        ops = error_ops(e, _random.Random(0), None)
        name = r["op"][6:]
        if name not in ops:
            print("operation %r not available standalone (needs a second key or another random choice)" % name)
            return 1
        res, texts = run_error_op(ops[name])
        found = scan(texts, e.secrets)
        print("texts:", short(texts, 1500)); print("private values found:", found)
        return 1 if found else 0
    if r.get("op") == "epk-token":
        res, problems, n = run_epk_token(r["spec"])
        print("result:", res[0], short(res[1], 600))
        print("problems:", problems, "epk members checked:", n)
        return 1 if (problems or res[0] == "err") else 0
    if "recipe" not in r or "op" not in r:
        print("no direct witness in this replay file (see 'broken')")
        return 1

    class _C:
        quick = True
    rec = r["recipe"]
    key = make_key(rec)
    nat = key.private_key if rec["kty"] != "oct" else key.raw_value
    requested_public = rec["how"].startswith("generate") and "private" in rec and not rec["private"]
    e = Entry("replay", rec["kty"], rec.get("data") if rec["how"].startswith("generate") else getattr(key, "curve_name", None),
              rec, nat, requested_public or not key.is_private, key=key)
    if requested_public:
        print("key requested public-only; is_private =", key.is_private)
    if e.kty == "oct":
        e.native = key.raw_value
    ops = dict(all_ops(e))
    ops.update(must_raise_ops(e))
    name = r["op"]
    if name == "prepare_ephemeral_key":
        from joserfc import jwe
        from joserfc.rfc7516.models import Recipient, CompactEncryption
        alg = jwe.JWERegistry.algorithms["alg"][r.get("alg", "ECDH-ES")]
        parent = CompactEncryption({"alg": alg.name, "enc": "A128GCM"}, PAYLOAD)
        rcp = Recipient(parent, None, key)
        secrets = list(e.secrets)
        if r.get("ephemeral_recipe"):
            rcp.ephemeral_key = make_key(r["ephemeral_recipe"])
            if rcp.ephemeral_key.key_type != "oct" and rcp.ephemeral_key.private_key is not None:
                secrets += native_secrets(rcp.ephemeral_key.key_type, rcp.ephemeral_key.private_key)
        with capture_generated() as made:
            res = call(alg.prepare_ephemeral_key, rcp)
        secrets += ephemeral_secrets(made)
        print("result:", res[0], short(parent.protected, 400))
        if res[0] == "err":
            return 1
        epk = parent.protected.get("epk")
        found = scan(parent.protected, secrets)
        names = [m for m in SPEC_PRIVATE[rcp.ephemeral_key.key_type] if isinstance(epk, dict) and m in epk]
        print("private values found:", found, "private members in epk:", names)
        return 1 if (found or names) else 0
    if name not in ops:
        print("operation %r cannot be replayed standalone" % name)
        return 1
    res, secrets = run_op(e, name, ops[name])
    print("result:", res[0], short(res[1], 400))
    if name in must_raise_ops(e):
        return 1 if res[0] == "ok" else 0
    if res[0] == "err":
        return 1
    out = res[1]
    found = scan(out, secrets)
    dicts = [out] if isinstance(out, dict) and "keys" not in out else (out.get("keys", []) if isinstance(out, dict) else [])
    names = [m for d in dicts if isinstance(d, dict) for m in SPEC_PRIVATE[e.kty] if m in d and m not in CALLER_PARAMS]
    print("private values found:", found, "private members:", names)
    bad = bool(found or names)
    if e.native is not None and e.kty != "oct" and name.startswith(("as_pem(", "as_der(", "as_bytes(")):
        same = out == native_bytes(e.native, False, "der" in name.lower())
        print("equals the SubjectPublicKeyInfo of the native public key:", same)
        bad = bad or not same
    if name == "thumbprint()":
        with thumb_hook() as shim:
            key.thumbprint()
        fields = [m for c in shim.calls for m, _ in c]
        print("thumbprint digests members:", fields)
        bad = bad or (e.kty != "oct" and any(m in SPEC_PRIVATE[e.kty] for m in fields))
    return 1 if bad else 0
