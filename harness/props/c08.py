"""C08 — JWE octets on the wire are those of RFC 7516/7518 and the implemented drafts.

Part 1 of this file is an INDEPENDENT reference implementation; part 2 is the harness.

Independent reference implementation of JWE (RFC 7516 / 7518, draft-madden-jose-ecdh-1pu-04,
draft-amringer-jose-chacha-02) written from the specifications.  It shares no code with
joserfc: own base64url, own Concat KDF (hashlib), own AES_CBC_HMAC_SHA2 composition, own
RFC 3394 key wrap over raw AES-ECB, own PBES2 (hashlib.pbkdf2_hmac), own XChaCha20 (HChaCha20 by
hand + IETF ChaCha20-Poly1305), own raw DEFLATE framing, RSA paddings from the RFC table.
Keys are JWK dicts."""
import base64, hashlib, hmac, json, os, struct, zlib
from cryptography.hazmat.primitives.ciphers import Cipher, algorithms, modes
from cryptography.hazmat.primitives.ciphers.aead import AESGCM, ChaCha20Poly1305
from cryptography.hazmat.primitives.asymmetric import ec, rsa, padding, x25519, x448
from cryptography.hazmat.primitives import hashes


class RefError(Exception):
    pass


def b64u(b: bytes) -> str:
    return base64.urlsafe_b64encode(b).decode("ascii").rstrip("=")


_B64URL = set("ABCDEFGHIJKLMNOPQRSTUVWXYZabcdefghijklmnopqrstuvwxyz0123456789-_")


def unb64u(s) -> bytes:
    """STRICT base64url (RFC 7515 section 2 / appendix C): the URL-safe alphabet only, NO padding, no white space"""
    if isinstance(s, bytes):
        s = s.decode("ascii")
    if not isinstance(s, str) or any(c not in _B64URL for c in s) or len(s) % 4 == 1:
        raise RefError("not unpadded base64url: %r" % (s[:40],))
    return base64.urlsafe_b64decode(s + "=" * (-len(s) % 4))


def b2i(s):
    return int.from_bytes(unb64u(s), "big")


# ---- RFC 7518 section 5: content encryption ---------------------------------------
# name: (family, key octets, iv octets, hash, MAC_KEY_LEN = ENC_KEY_LEN = T_LEN)
ENC = {
    "A128CBC-HS256": ("cbc", 32, 16, hashlib.sha256, 16),
    "A192CBC-HS384": ("cbc", 48, 16, hashlib.sha384, 24),
    "A256CBC-HS512": ("cbc", 64, 16, hashlib.sha512, 32),
    "A128GCM": ("gcm", 16, 12, None, 0),
    "A192GCM": ("gcm", 24, 12, None, 0),
    "A256GCM": ("gcm", 32, 12, None, 0),
    "C20P": ("c20p", 32, 12, None, 0),
    "XC20P": ("xc20p", 32, 24, None, 0),
}


def _rotl(v, n):
    return ((v << n) & 0xFFFFFFFF) | (v >> (32 - n))


def hchacha20(key: bytes, nonce16: bytes) -> bytes:
    st = list(struct.unpack("<4I", b"expand 32-byte k")) + list(struct.unpack("<8I", key)) + list(struct.unpack("<4I", nonce16))

    def qr(a, b, c, d):
        st[a] = (st[a] + st[b]) & 0xFFFFFFFF; st[d] = _rotl(st[d] ^ st[a], 16)
        st[c] = (st[c] + st[d]) & 0xFFFFFFFF; st[b] = _rotl(st[b] ^ st[c], 12)
        st[a] = (st[a] + st[b]) & 0xFFFFFFFF; st[d] = _rotl(st[d] ^ st[a], 8)
        st[c] = (st[c] + st[d]) & 0xFFFFFFFF; st[b] = _rotl(st[b] ^ st[c], 7)
    for _ in range(10):
        qr(0, 4, 8, 12); qr(1, 5, 9, 13); qr(2, 6, 10, 14); qr(3, 7, 11, 15)
        qr(0, 5, 10, 15); qr(1, 6, 11, 12); qr(2, 7, 8, 13); qr(3, 4, 9, 14)
    return struct.pack("<8I", *(st[0:4] + st[12:16]))


def aead_encrypt(enc, cek, iv, aad, pt):
    fam, klen, ivlen, h, tlen = ENC[enc]
    if len(cek) != klen or len(iv) != ivlen:
        raise RefError("bad key / iv size")
    if fam == "cbc":
        mac_key, enc_key = cek[:klen // 2], cek[klen // 2:]
        n = 16 - len(pt) % 16
        c = Cipher(algorithms.AES(enc_key), modes.CBC(iv)).encryptor()
        e = c.update(pt + bytes([n]) * n) + c.finalize()
        al = struct.pack(">Q", len(aad) * 8)
        t = hmac.new(mac_key, aad + iv + e + al, h).digest()[:tlen]
        return e, t
    if fam == "gcm":
        out = AESGCM(cek).encrypt(iv, pt, aad)
        return out[:-16], out[-16:]
    if fam == "c20p":
        out = ChaCha20Poly1305(cek).encrypt(iv, pt, aad)
        return out[:-16], out[-16:]
    sub = hchacha20(cek, iv[:16])
    out = ChaCha20Poly1305(sub).encrypt(b"\x00" * 4 + iv[16:], pt, aad)
    return out[:-16], out[-16:]


def aead_decrypt(enc, cek, iv, aad, ct, tag):
    fam, klen, ivlen, h, tlen = ENC[enc]
    if len(cek) != klen or len(iv) != ivlen:
        raise RefError("bad key / iv size")
    if fam == "cbc":
        mac_key, enc_key = cek[:klen // 2], cek[klen // 2:]
        al = struct.pack(">Q", len(aad) * 8)
        t = hmac.new(mac_key, aad + iv + ct + al, h).digest()[:tlen]
        if len(tag) != tlen or not hmac.compare_digest(t, tag):
            raise RefError("tag")
        if len(ct) % 16 or not ct:
            raise RefError("ciphertext length")
        d = Cipher(algorithms.AES(enc_key), modes.CBC(iv)).decryptor()
        p = d.update(ct) + d.finalize()
        n = p[-1]
        if not 1 <= n <= 16 or p[-n:] != bytes([n]) * n:
            raise RefError("padding")
        return p[:-n]
    if len(tag) != 16:
        raise RefError("tag length")
    try:
        if fam == "gcm":
            return AESGCM(cek).decrypt(iv, ct + tag, aad)
        if fam == "c20p":
            return ChaCha20Poly1305(cek).decrypt(iv, ct + tag, aad)
        sub = hchacha20(cek, iv[:16])
        return ChaCha20Poly1305(sub).decrypt(b"\x00" * 4 + iv[16:], ct + tag, aad)
    except Exception:
        raise RefError("tag")


# ---- RFC 3394 ------------------------------------------------------------------------
def _ecb(key):
    return Cipher(algorithms.AES(key), modes.ECB())


def kw_wrap(kek, p):
    if len(p) % 8 or len(p) < 16:
        raise RefError("key wrap input")
    n = len(p) // 8
    a = b"\xa6" * 8
    r = [p[i * 8:(i + 1) * 8] for i in range(n)]
    e = _ecb(kek).encryptor()
    for j in range(6):
        for i in range(n):
            b = e.update(a + r[i])
            t = n * j + i + 1
            a = (int.from_bytes(b[:8], "big") ^ t).to_bytes(8, "big")
            r[i] = b[8:]
    return a + b"".join(r)


def kw_unwrap(kek, c):
    if len(c) % 8 or len(c) < 24:
        raise RefError("key wrap input")
    n = len(c) // 8 - 1
    a = c[:8]
    r = [c[(i + 1) * 8:(i + 2) * 8] for i in range(n)]
    d = _ecb(kek).decryptor()
    for j in range(5, -1, -1):
        for i in range(n - 1, -1, -1):
            t = n * j + i + 1
            b = d.update((int.from_bytes(a, "big") ^ t).to_bytes(8, "big") + r[i])
            a, r[i] = b[:8], b[8:]
    if a != b"\xa6" * 8:
        raise RefError("key unwrap integrity")
    return b"".join(r)


# ---- RFC 7518 4.6.2 / NIST SP 800-56A Concat KDF (SHA-256) -------------------------------
def lp(b):
    return struct.pack(">I", len(b)) + b


def otherinfo(algid: str, apu: bytes, apv: bytes, keydatalen: int, tag=None):
    oi = lp(algid.encode("ascii")) + lp(apu) + lp(apv) + struct.pack(">I", keydatalen)
    if tag is not None:
        oi += lp(tag)          # ECDH-1PU draft section 2.3: cctag in SuppPubInfo... appended
    return oi


def concat_kdf(z: bytes, keydatalen: int, oi: bytes) -> bytes:
    out, counter = b"", 1
    while len(out) * 8 < keydatalen:
        out += hashlib.sha256(struct.pack(">I", counter) + z + oi).digest()
        counter += 1
    return out[:keydatalen // 8]


# ---- keys --------------------------------------------------------------------------------
CURVES = {"P-256": ec.SECP256R1, "P-384": ec.SECP384R1, "P-521": ec.SECP521R1, "secp256k1": ec.SECP256K1}


def ec_pub(j):
    return ec.EllipticCurvePublicNumbers(b2i(j["x"]), b2i(j["y"]), CURVES[j["crv"]]()).public_key()


def ec_priv(j):
    return ec.derive_private_key(b2i(j["d"]), CURVES[j["crv"]]())


def dh(priv_jwk, pub_jwk):
    if priv_jwk["kty"] != pub_jwk["kty"] or priv_jwk["crv"] != pub_jwk["crv"]:
        raise RefError("curve mismatch")
    if priv_jwk["kty"] == "EC":
        return ec_priv(priv_jwk).exchange(ec.ECDH(), ec_pub(pub_jwk))
    if priv_jwk["crv"] == "X25519":
        return x25519.X25519PrivateKey.from_private_bytes(unb64u(priv_jwk["d"])).exchange(
            x25519.X25519PublicKey.from_public_bytes(unb64u(pub_jwk["x"])))
    if priv_jwk["crv"] == "X448":
        return x448.X448PrivateKey.from_private_bytes(unb64u(priv_jwk["d"])).exchange(
            x448.X448PublicKey.from_public_bytes(unb64u(pub_jwk["x"])))
    raise RefError("curve")


def gen_ephemeral(like):
    from cryptography.hazmat.primitives import serialization as S
    if like["kty"] == "EC":
        k = ec.generate_private_key(CURVES[like["crv"]]())
        n = k.private_numbers()
        size = (k.curve.key_size + 7) // 8
        return {"kty": "EC", "crv": like["crv"], "x": b64u(n.public_numbers.x.to_bytes(size, "big")),
                "y": b64u(n.public_numbers.y.to_bytes(size, "big")), "d": b64u(n.private_value.to_bytes(size, "big"))}
    cls = x25519.X25519PrivateKey if like["crv"] == "X25519" else x448.X448PrivateKey
    k = cls.generate()
    return {"kty": "OKP", "crv": like["crv"],
            "x": b64u(k.public_key().public_bytes(S.Encoding.Raw, S.PublicFormat.Raw)),
            "d": b64u(k.private_bytes(S.Encoding.Raw, S.PrivateFormat.Raw, S.NoEncryption()))}


def public_part(j):
    return {k: v for k, v in j.items() if k in ("kty", "crv", "x", "y")}


def rsa_pub(j):
    return rsa.RSAPublicNumbers(b2i(j["e"]), b2i(j["n"])).public_key()


def rsa_priv(j):
    pn = rsa.RSAPublicNumbers(b2i(j["e"]), b2i(j["n"]))
    d = b2i(j["d"])
    if "p" in j:
        p, q = b2i(j["p"]), b2i(j["q"])
    else:
        p, q = rsa.rsa_recover_prime_factors(pn.n, pn.e, d)
    return rsa.RSAPrivateNumbers(p, q, d, rsa.rsa_crt_dmp1(d, p), rsa.rsa_crt_dmq1(d, q), rsa.rsa_crt_iqmp(p, q), pn).private_key()


# RFC 7518 section 4.2 / 4.3: RSA1_5 = RSAES-PKCS1-v1_5; RSA-OAEP = OAEP with SHA-1 and MGF1 with SHA-1;
# RSA-OAEP-256 = OAEP with SHA-256 and MGF1 with SHA-256 (empty label)
def rsa_padding(alg):
    if alg == "RSA1_5":
        return padding.PKCS1v15()
    if alg == "RSA-OAEP":
        return padding.OAEP(mgf=padding.MGF1(hashes.SHA1()), algorithm=hashes.SHA1(), label=None)
    if alg == "RSA-OAEP-256":
        return padding.OAEP(mgf=padding.MGF1(hashes.SHA256()), algorithm=hashes.SHA256(), label=None)
    raise RefError("rsa alg")


KW_BITS = {"A128KW": 128, "A192KW": 192, "A256KW": 256}
PBES2 = {"PBES2-HS256+A128KW": ("sha256", 16), "PBES2-HS384+A192KW": ("sha384", 24), "PBES2-HS512+A256KW": ("sha512", 32)}


def deflate_raw(b):
    c = zlib.compressobj(9, zlib.DEFLATED, -15)
    return c.compress(b) + c.flush()


def inflate_raw(b):
    """STRICT raw inflate (RFC 1951): the data must be ONE complete stream (a final block ends it) and nothing else"""
    d = zlib.decompressobj(-15)
    out = d.decompress(b) + d.flush()
    if not d.eof:
        raise RefError("incomplete or truncated DEFLATE stream (no final block)")
    if d.unused_data:
        raise RefError("data after the end of the DEFLATE stream")
    return out


def agreement_key(alg, enc, hdr, z, tag):
    """Concat KDF per RFC 7518 4.6.2 (and the 1PU draft for the tag)"""
    apu = unb64u(hdr["apu"]) if "apu" in hdr else b""
    apv = unb64u(hdr["apv"]) if "apv" in hdr else b""
    if "+" in alg:
        bits, algid = KW_BITS[alg.split("+")[1]], alg
    else:
        bits, algid = ENC[enc][1] * 8, enc
    return concat_kdf(z, bits, otherinfo(algid, apu, apv, bits, tag))


# ---- decryption (RFC 7516 section 5.2) ------------------------------------------------------
def recover_cek(alg, enc, hdr, ek, key, sender, tag):
    if alg == "dir":
        if ek:
            raise RefError("ek must be empty")
        return unb64u(key["k"])
    if alg in KW_BITS:
        return kw_unwrap(unb64u(key["k"]), ek)
    if alg.startswith("RSA"):
        return rsa_priv(key).decrypt(ek, rsa_padding(alg))
    if alg.endswith("GCMKW"):
        # RFC 7518 4.7.1.1 / 4.7.1.2: 96-bit IV, 128-bit tag
        if len(unb64u(hdr["iv"])) != 12 or len(unb64u(hdr["tag"])) != 16:
            raise RefError("GCM-KW iv/tag size")
        return AESGCM(unb64u(key["k"])).decrypt(unb64u(hdr["iv"]), ek + unb64u(hdr["tag"]), None)
    if alg in PBES2:
        h, dk = PBES2[alg]
        salt = alg.encode("utf-8") + b"\x00" + unb64u(hdr["p2s"])
        kek = hashlib.pbkdf2_hmac(h, unb64u(key["k"]), salt, hdr["p2c"], dk)
        return kw_unwrap(kek, ek)
    if alg.startswith("ECDH-ES"):
        z = dh(key, hdr["epk"])
        k = agreement_key(alg, enc, hdr, z, None)
    elif alg.startswith("ECDH-1PU"):
        ze, zs = dh(key, hdr["epk"]), dh(key, sender)
        k = agreement_key(alg, enc, hdr, ze + zs, tag if "+" in alg else None)
    else:
        raise RefError("alg " + alg)
    if "+" in alg:
        return kw_unwrap(k, ek)
    if ek:
        raise RefError("ek must be empty")
    return k


def decrypt(token, key, sender=None, index=0):
    """token: compact str or JSON dict (general or flattened); key: JWK of recipient [index]"""
    if isinstance(token, (str, bytes)):
        t = token.decode() if isinstance(token, bytes) else token
        p, ek, iv, ct, tag = t.split(".")
        prot_b64, aad_b64, unprot, rhdr = p, None, {}, {}
        ek = unb64u(ek)
    else:
        prot_b64, aad_b64 = token["protected"], token.get("aad")
        unprot = token.get("unprotected") or {}
        r = token["recipients"][index] if "recipients" in token else token
        rhdr = r.get("header") or {}
        ek = unb64u(r["encrypted_key"]) if "encrypted_key" in r else b""
        iv, ct, tag = token["iv"], token["ciphertext"], token["tag"]
    prot = json.loads(unb64u(prot_b64))
    if not isinstance(prot, dict):
        raise RefError("protected header is not a JSON object")
    if "zip" in unprot or "zip" in rhdr:
        raise RefError('"zip" outside the protected header')      # RFC 7516 4.1.3: MUST be integrity protected
    hdr = dict(prot); hdr.update(unprot); hdr.update(rhdr)
    iv, ct, tag = unb64u(iv), unb64u(ct), unb64u(tag)
    alg, enc = hdr["alg"], hdr["enc"]
    cek = recover_cek(alg, enc, hdr, ek, key, sender, tag)
    aad = prot_b64.encode("ascii") + ((b"." + aad_b64.encode("ascii")) if aad_b64 else b"")
    m = aead_decrypt(enc, cek, iv, aad, ct, tag)
    if "zip" in prot:
        if prot["zip"] != "DEF":
            raise RefError("zip")
        m = inflate_raw(m)
    return m


# ---- encryption (RFC 7516 section 5.1) ------------------------------------------------------
def encrypt(ser, enc, recips, plaintext, aad=None, zip_=False, spell=None, unprotected=None,
            alg_in_protected=True, extra_protected=None):
    """recips: [{"alg", "key" (JWK), "sender" (JWK, 1PU), "apu", "apv", "p2c"}];
    spell: function json-text -> json-text (same members) for the protected header"""
    fam, klen, ivlen, _, _ = ENC[enc]
    single = len(recips) == 1 and ser != "general"
    algs = [r["alg"] for r in recips]
    if any(a in ("dir", "ECDH-ES", "ECDH-1PU") for a in algs) and len(recips) > 1:
        raise RefError("direct modes have one recipient")
    prot = {"enc": enc}
    if zip_:
        prot["zip"] = "DEF"
    prot.update(extra_protected or {})
    rhdrs, cek, states = [], None, []
    for r in recips:
        alg, key = r["alg"], r["key"]
        h = {"alg": alg}
        st = {}
        if alg.startswith("ECDH"):
            eph = gen_ephemeral(key)
            h["epk"] = public_part(eph)
            if r.get("apu") is not None:
                h["apu"] = b64u(r["apu"])
            if r.get("apv") is not None:
                h["apv"] = b64u(r["apv"])
            st["eph"] = eph
        if alg in PBES2:
            st["p2s"] = os.urandom(16)
            h["p2s"] = b64u(st["p2s"])
            h["p2c"] = r.get("p2c", 3)
        if alg.endswith("GCMKW"):
            st["iv"] = os.urandom(12)
        rhdrs.append(h); states.append(st)
    if algs[0] == "dir":
        cek = unb64u(recips[0]["key"]["k"])
    elif algs[0] in ("ECDH-ES", "ECDH-1PU"):
        r, h, st = recips[0], rhdrs[0], states[0]
        merged = dict(prot); merged.update(unprotected or {}); merged.update(h)
        z = dh(st["eph"], r["key"])
        if algs[0] == "ECDH-1PU":
            z = z + dh(r["sender"], r["key"])
        cek = agreement_key(algs[0], enc, merged, z, None)
    else:
        cek = os.urandom(klen)
    eks = [None] * len(recips)
    for i, (r, h, st) in enumerate(zip(recips, rhdrs, states)):
        alg, key = r["alg"], r["key"]
        if alg in KW_BITS:
            eks[i] = kw_wrap(unb64u(key["k"]), cek)
        elif alg.startswith("RSA"):
            eks[i] = rsa_pub(key).encrypt(cek, rsa_padding(alg))
        elif alg.endswith("GCMKW"):
            out = AESGCM(unb64u(key["k"])).encrypt(st["iv"], cek, None)
            eks[i] = out[:-16]
            h["iv"], h["tag"] = b64u(st["iv"]), b64u(out[-16:])
        elif alg in PBES2:
            hname, dk = PBES2[alg]
            kek = hashlib.pbkdf2_hmac(hname, unb64u(key["k"]), alg.encode() + b"\x00" + st["p2s"], h["p2c"], dk)
            eks[i] = kw_wrap(kek, cek)
        elif alg in ("dir", "ECDH-ES", "ECDH-1PU"):
            eks[i] = b""
    if single and (alg_in_protected or ser == "compact"):
        prot.update(rhdrs[0])
        rhdrs[0] = {}
    text = json.dumps(prot, separators=(",", ":"))
    if spell:
        text = spell(text)
        assert json.loads(text) == prot
    prot_b64 = b64u(text.encode("utf-8"))
    m = deflate_raw(plaintext) if zip_ else plaintext
    iv = os.urandom(ivlen)
    a = prot_b64.encode("ascii") + ((b"." + b64u(aad).encode("ascii")) if (aad and ser != "compact") else b"")
    ct, tag = aead_encrypt(enc, cek, iv, a, m)
    for i, (r, h, st) in enumerate(zip(recips, rhdrs, states)):
        alg = r["alg"]
        if alg.startswith("ECDH") and "+" in alg:
            merged = dict(prot); merged.update(unprotected or {}); merged.update(h)
            z = dh(st["eph"], r["key"])
            if alg.startswith("ECDH-1PU"):
                z = z + dh(r["sender"], r["key"])
            kek = agreement_key(alg, enc, merged, z, tag if alg.startswith("ECDH-1PU") else None)
            eks[i] = kw_wrap(kek, cek)
    if ser == "compact":
        return ".".join([prot_b64, b64u(eks[0]), b64u(iv), b64u(ct), b64u(tag)])
    d = {"protected": prot_b64, "iv": b64u(iv), "ciphertext": b64u(ct), "tag": b64u(tag)}
    if aad:
        d["aad"] = b64u(aad)
    if unprotected:
        d["unprotected"] = unprotected

    def item(h, ek):
        it = {}
        if h:
            it["header"] = h
        if ek:
            it["encrypted_key"] = b64u(ek)
        return it
    if ser == "general":
        d["recipients"] = [item(h, ek) for h, ek in zip(rhdrs, eks)]
    else:
        d.update(item(rhdrs[0], eks[0]))
    return d


# ==========================================================================================
# harness
# ==========================================================================================
import copy
import lib
from props import jwe_common as J

# RFC 7516 appendix A.3 (A128KW + A128CBC-HS256); used only if the reference authenticates it
RFC7516_A3 = {
    "key": {"kty": "oct", "k": "GawgguFyGrWKav7AX4VKUg"},
    "token": ("eyJhbGciOiJBMTI4S1ciLCJlbmMiOiJBMTI4Q0JDLUhTMjU2In0."
              "6KB707dM9YTIgHtLvtgWQ8mKwboJW3of9locizkDTHzBC2IlrT1oOQ."
              "AxY8DCtDaGlsbGljb3RoZQ."
              "KDlTtXchhZTGufMYmOYGS4HffxPSUrfmqCHXaI9wOGY."
              "U0m_YmjN04DJvceFICbCVQ"),
    "plaintext": b"Live long and prosper.",
}
# RFC 7516 appendix A.1 (RSA-OAEP + A256GCM) and A.2 (RSA1_5 + A128CBC-HS256); keys: tests/keys/RFC7516-A.{1,2}.3.json
RFC7516_A1 = {
    "keyfile": "RFC7516-A.1.3.json",
    "token": ("eyJhbGciOiJSU0EtT0FFUCIsImVuYyI6IkEyNTZHQ00ifQ."
              "OKOawDo13gRp2ojaHV7LFpZcgV7T6DVZKTyKOMTYUmKoTCVJRgckCL9kiMT03JGeipsEdY3mx_etLbbWSrFr05kLzcSr4qKAq7YN7e9jwQRb23nfa6c9d-"
              "StnImGyFDbSv04uVuxIp5Zms1gNxKKK2Da14B8S4rzVRltdYwam_lDp5XnZAYpQdb76FdIKLaVmqgfwX7XWRxv2322i-vDxRfqNzo_tETKzpVLzfiwQyeyPGLBIO56YJ7eObdv0je"
              "81860ppamavo35UgoRdbYaBcoh9QcfylQr66oc6vFWXRcZ_ZT2LawVCWTIy3brGPi6UklfCpIMfIjf7iGdXKHzg."
              "48V1_ALb6US04U3b."
              "5eym8TW_c8SuK0ltJ3rpYIzOeDQz7TALvtu6UG9oMo4vpzs9tX_EFShS8iB7j6jiSdiwkIr3ajwQzaBtQD_A."
              "XFBoMYUZodetZdvTiFvSkQ"),
    "plaintext": b"The true sign of intelligence is not knowledge but imagination.",
}
RFC7516_A2 = {
    "keyfile": "RFC7516-A.2.3.json",
    "token": ("eyJhbGciOiJSU0ExXzUiLCJlbmMiOiJBMTI4Q0JDLUhTMjU2In0."
              "UGhIOguC7IuEvf_NPVaXsGMoLOmwvc1GyqlIKOK1nN94nHPoltGRhWhw7Zx0-kFm1NJn8LE9XShH59_i8J0PH5ZZyNfGy2xGdULU7sHNF6Gp2vPLgNZ__deLKxGHZ7Pc"
              "HALUzoOegEI-8E66jX2E4zyJKx-YxzZIItRzC5hlRirb6Y5Cl_p-ko3YvkkysZIFNPccxRU7qve1WYPxqbb2Yw8kZqa2rMWI5ng8OtvzlV7elprCbuPhcCdZ6XDP0_F8"
              "rkXds2vE4X-ncOIM8hAYHHi29NX0mcKiRaD0-D-ljQTP-cFPgwCp6X-nZZd9OHBv-B3oWh2TbqmScqXMR4gp_A."
              "AxY8DCtDaGlsbGljb3RoZQ."
              "KDlTtXchhZTGufMYmOYGS4HffxPSUrfmqCHXaI9wOGY."
              "9hH0vgRfYgPnAHOd8stkvw"),
    "plaintext": b"Live long and prosper.",
}
# RFC 7518 appendix C (Concat KDF for ECDH-ES direct with A128GCM)
RFC7518_C = {
    "alice": {"kty": "EC", "crv": "P-256", "x": "gI0GAILBdu7T53akrFmMyGcsF3n5dO7MmwNBHKW5SV0",
              "y": "SLW_xSffzlPWrHEVI30DHM_4egVwt3NQqeUD7nMFpps", "d": "0_NxaRPUMQoAJt50Gz8YiTr8gRTwyEaCumd-MToTmIo"},
    "bob": {"kty": "EC", "crv": "P-256", "x": "weNJy2HscCSM6AEDTDg04biOvhFhyyWvOHQfeF_PxMQ",
            "y": "e8lnCO-AlStT-NJVX-crhB7QRYhiix03illJOVAOyck", "d": "VEmDZpDXXK8p8N0Cndsxs924q6nS1RXFASRl6BfUqdw"},
    "apu": "QWxpY2U", "apv": "Qm9i", "enc": "A128GCM", "derived": "VqqN6vgjbSBcIijNcacQGg",
}


def spellings(rng):
    """functions json-text -> json-text producing the same members"""
    def ident(t):
        return t

    def spaced(t):
        return json.dumps(json.loads(t), separators=(", ", ": "))

    def pretty(t):
        return json.dumps(json.loads(t), indent=rng.choice([1, 2, 4]))

    def reordered(t):
        o = json.loads(t)
        ks = list(o)
        rng.shuffle(ks)
        return json.dumps({k: o[k] for k in ks}, separators=(",", ":"))

    def sorted_keys(t):
        return json.dumps(json.loads(t), sort_keys=True, separators=(",", ":"))

    def padded(t):
        return " " + t + "\n"

    def escaped(t):
        o = json.loads(t)
        enc = o["enc"]
        return t.replace('"%s"' % enc, '"\\u%04x%s"' % (ord(enc[0]), enc[1:]), 1)

    def tabbed(t):
        return t.replace(",", ",\t").replace("{", "{\r\n", 1)

    def duplicate(t):
        # the same member twice with the same value: json.loads keeps one, the octets differ
        o = json.loads(t)
        k = rng.choice(list(o))
        return t[:-1] + "," + json.dumps(k) + ":" + json.dumps(o[k], separators=(",", ":")) + "}"

    def duplicate_first(t):
        o = json.loads(t)
        k = list(o)[-1]
        return "{" + json.dumps(k) + ":" + json.dumps(o[k], separators=(",", ":")) + "," + t[1:]

    def escaped_name(t):
        # \u escapes inside member NAMES ("\u0065nc" is "enc")
        o = json.loads(t)
        for k in o:
            t = t.replace('"%s":' % k, '"\\u%04x%s":' % (ord(k[0]), k[1:]), 1)
        return t

    def escaped_all(t):
        # every character of every member name and of the enc value escaped
        o = json.loads(t)
        esc = lambda x: "".join("\\u%04x" % ord(c) for c in x)
        for k in o:
            t = t.replace('"%s":' % k, '"%s":' % esc(k), 1)
        return t.replace(':"%s"' % o["enc"], ':"%s"' % esc(o["enc"]), 1)
    return [("canonical", ident), ("spaced", spaced), ("pretty", pretty), ("reordered", reordered),
            ("sorted", sorted_keys), ("padded", padded), ("u-escape", escaped), ("tabs", tabbed), ("duplicate-member", duplicate),
            ("duplicate-member-first", duplicate_first), ("u-escape-names", escaped_name), ("u-escape-everything", escaped_all)]


def run(ctx):
    J.install()
    ok, log = ctx.prove()
    rng = ctx.rng
    K = J.Keys(rng)
    from joserfc import jwe
    from joserfc.jwk import JWKRegistry
    dist = {}
    cases, meta = [], []

    def bump(k):
        dist[k] = dist.get(k, 0) + 1

    def jwk(k):
        return k.as_dict(private=True)

    # ------------------------------------------------------------- direction 1: joserfc -> reference
    thin = [0]

    def replay_in_model(label):
        """quick tier: the generic alg x enc matrix is replayed in Coq every 2nd time (C04 replays the same joserfc
        behaviour in full); the targeted families are always replayed; the reference exchange always runs"""
        if not ctx.quick or label.split(":")[0] in ("party-info", "direct-among-several", "spelling", "multi", "DEF", "1pu-skid"):
            return True
        thin[0] += 1
        return thin[0] % 2 == 0

    def j2r(spec, label, may_refuse=False):
        ctx.note_case(("j2r", label))
        bump("joserfc->ref:" + spec["ser"])
        obs, info = J.encrypt_spec(spec)
        sig = {"dir": "joserfc->reference", "algs": "+".join(spec["algs"]), "enc": spec["enc"], "ser": spec["ser"]}
        if obs[0] != "ok" and may_refuse:
            # a combination joserfc may refuse at encryption time: the verdict is compared with the model's
            bump("refused-at-encryption")
            if not info["nondet"] and J.table_chars(info["log"]) < 40000:
                cases.append(J.case_enc(obs, info)); meta.append(("enc-refused", label))
            return
        if obs[0] != "ok":
            ctx.violation(dict(sig, kind="encrypt-failed"), "joserfc failed to encrypt (%s): %s" % (label, obs[1]), {"label": label})
            return
        token = J.token_of(obs)
        if not info["nondet"] and J.table_chars(info["log"]) < 40000 and replay_in_model(label):
            cases.append(J.case_enc(obs, info)); meta.append(("enc", label))
        for i, (_, k) in enumerate(info["recips"]):
            try:
                m = decrypt(token, jwk(k), jwk(spec["sender"]) if spec["sender"] is not None else None, index=i)
                good, why = m == spec["plaintext"], "different plaintext"
            except Exception as e:  # noqa
                good, why = False, "%s: %s" % (type(e).__name__, e)
            if not good:
                ctx.violation(dict(sig, kind="reference-rejects-joserfc-token"),
                              "the independent RFC implementation does not decrypt a token produced by joserfc (%s, recipient %d): %s" % (label, i, why),
                              {"token": token, "key": jwk(k), "sender": jwk(spec["sender"]) if spec["sender"] is not None else None,
                               "index": i, "plaintext_hex": spec["plaintext"].hex(), "direction": "j2r"})

    # ------------------------------------------------------------- direction 2: reference -> joserfc
    def r2j(ser, enc, algs, label, crv="P-256", zip_=False, aad=None, apu=None, apv=None, spell=None,
            alg_in_protected=True, unprotected=None, extra_protected=None):
        ctx.note_case(("r2j", label, spell[0] if spell else "-"))
        bump("ref->joserfc:" + ser)
        keys = [K.for_alg(a, enc, crv) for a in algs]
        sender = K.curve_key(crv, "sender") if any(a in J.PU_ALGS for a in algs) else None
        pt = bytes(rng.randrange(256) for _ in range(rng.choice([0, 1, 16, 33, 100])))
        recips = [{"alg": a, "key": jwk(k), "sender": jwk(sender) if sender is not None else None,
                   "apu": apu, "apv": apv, "p2c": rng.choice([1, 5, 9])} for a, k in zip(algs, keys)]
        sig = {"dir": "reference->joserfc", "algs": "+".join(algs), "enc": enc, "ser": ser,
               "spelling": spell[0] if spell else "canonical"}
        try:
            token = encrypt(ser, enc, recips, pt, aad=aad, zip_=zip_, spell=spell[1] if spell else None,
                            unprotected=unprotected, alg_in_protected=alg_in_protected, extra_protected=extra_protected)
        except Exception as e:  # noqa
            raise RuntimeError("reference encrypt failed for %s: %r" % (label, e))
        obs, (dlog, nondet) = J.do_decrypt(J.dec_ser(ser), token, keys, sender=sender)
        if not nondet and J.table_chars(dlog) < 40000 and replay_in_model(label):
            cases.append(J.case_dec(J.dec_ser(ser), token, keys, sender, True, obs, dlog)); meta.append(("dec", label))
        if obs[0] != "ok" or obs[1] != pt:
            ctx.violation(dict(sig, kind="joserfc-rejects-reference-token"),
                          "joserfc does not decrypt a token built by the independent RFC implementation (%s, header spelling %s): %s" % (
                              label, sig["spelling"], obs[1] if obs[0] == "err" else "different plaintext"),
                          {"token": token, "keys": [jwk(k) for k in keys], "sender": jwk(sender) if sender is not None else None,
                           "ser": ser, "plaintext_hex": pt.hex(), "direction": "r2j"})

    sers = ["compact", "flat", "general"]
    pairs = [(a, e) for a in J.ALL_ALGS for e in J.ALL_ENCS if J.valid_combo(a, e)]
    sp = spellings(rng)
    n = 0
    for rep in range(ctx.scale(1, 4)):
        for (a, e) in pairs:
            for s in (sers if not ctx.quick else [sers[n % 3]]):
                crv = J.ALL_CURVES[n % 6]
                z = n % 3 == 0
                aad = None if (s == "compact" or n % 2) else bytes(rng.randrange(256) for _ in range(rng.choice([1, 9])))
                apu = rng.choice([None, b"Alice", b"\x00\xff"])
                apv = rng.choice([None, b"Bob"])
                pt = bytes(rng.randrange(256) for _ in range(rng.choice([0, 1, 15, 16, 17, 48])))
                spec = J.make_spec(K, rng, s, [a], e, crv=crv, zip_=z, plaintext=pt, aad=aad, apu=apu, apv=apv,
                                   alg_in=rng.choice(["auto", "protected"]))
                tag = "%s/%s/%s/%s%s" % (a, e, s, crv if J.is_agreement(a) else "-", "/DEF" if z else "")
                j2r(spec, tag)
                r2j(s, e, [a], tag, crv=crv, zip_=not z, aad=aad, apu=apv, apv=apu, spell=sp[n % len(sp)],
                    alg_in_protected=n % 2 == 0, unprotected={"cty": "x"} if (s != "compact" and n % 5 == 0) else None)
                n += 1
    # BINARY PartyUInfo / PartyVInfo (thumbprints, hashes): the base64url text contains "-" and "_"; lengths 0..64;
    # values whose text has length 1 mod 4 once "-" / "_" are taken out; in the protected, per-recipient and shared
    # unprotected position; every key-agreement algorithm, both directions
    def party_values():
        vals = [b"\xfb\xef\xbe", b"\xff\xff\xff", b"\xf8", b"\xfc", b"\xfb\xff", b"", b"\xfb\xef\xbe\xf8"]
        for ln in (1, 2, 3, 5, 16, 20, 32, 33, 48, 64):
            v = bytes(rng.getrandbits(8) for _ in range(ln))
            vals.append(v)
            vals.append(b"\xfb\xff\xbf" + v + b"\xfe")      # "-_-_..." at the start, "_" or "-" near the end
        return vals
    pvals = party_values()
    assert any("-" in b64u(v) and "_" in b64u(v) for v in pvals)
    kag = J.ES_ALGS + J.PU_ALGS
    pn = 0
    for a in kag:
        for s in sers:
            for place in (["header"] if s == "compact" else ["header", "unprotected"]):
                for rep in range(ctx.scale(2, 8)):
                    e = rng.choice([x for x in J.ALL_ENCS if J.valid_combo(a, x)])
                    crv = J.ALL_CURVES[pn % 6]
                    u, v = pvals[pn % len(pvals)], pvals[(pn * 7 + 3) % len(pvals)]
                    pn += 1
                    tag = "party-info:%s/%s/%s/%s/%s" % (a, e, s, crv, place)
                    if place == "header":
                        spec = J.make_spec(K, rng, s, [a], e, crv=crv, plaintext=b"binary party info", apu=u, apv=v,
                                           alg_in=rng.choice(["auto", "protected"]))
                        j2r(spec, tag)
                        r2j(s, e, [a], tag, crv=crv, apu=u, apv=v, alg_in_protected=pn % 2 == 0)
                    else:
                        un = {"apu": b64u(u), "apv": b64u(v)}
                        spec = J.make_spec(K, rng, s, [a], e, crv=crv, plaintext=b"binary party info", unprotected=dict(un))
                        j2r(spec, tag)
                        r2j(s, e, [a], tag, crv=crv, unprotected=dict(un), alg_in_protected=pn % 2 == 0)
                    bump("party-info")

    # ECDH-1PU (direct and +A*KW): "skid" present / absent x "apu" present / absent x "apv"; the Concat KDF party info
    # comes from apu / apv ONLY (draft-madden-jose-ecdh-1pu-04 section 2.2: skid is just a key hint)
    sk_n = 0
    for a in J.PU_ALGS:
        for s in sers:
            for skid in (None, "alice-key-1", "\u00e9-\u2603"):
                for u in (None, b"Alice", b"\xfb\xff\x00"):
                    for v in ((None, b"Bob") if not ctx.quick else (b"Bob" if sk_n % 2 else None,)):
                        sk_n += 1
                        if ctx.quick and skid is not None and skid != "alice-key-1" and sk_n % 3:
                            continue
                        e = rng.choice(J.CBC_ENCS) if a != "ECDH-1PU" else rng.choice(J.ALL_ENCS)
                        crv = J.ALL_CURVES[sk_n % 6]
                        tag = "1pu-skid:%s/%s/%s/skid=%s/apu=%s/apv=%s" % (a, e, s, skid is not None, u is not None, v is not None)
                        spec = J.make_spec(K, rng, s, [a], e, crv=crv, plaintext=b"skid and party info", apu=u, apv=v,
                                           alg_in="protected" if sk_n % 2 else "auto")
                        if skid is not None:
                            if s == "compact" or spec["recips"][0][0] is None:
                                spec["protected"]["skid"] = skid
                            else:
                                spec["recips"][0][0]["skid"] = skid
                        j2r(spec, tag)
                        r2j(s, e, [a], tag, crv=crv, apu=u, apv=v, alg_in_protected=True,
                            extra_protected=({"skid": skid} if skid is not None else None))
                        bump("1pu-skid")

    # zip = DEF over plaintext classes (empty, tiny, repetitive, incompressible, 100 KB) through the STRICT reference
    zclasses = [("empty", b""), ("one", b"x"), ("tiny", b"ab"), ("block", bytes(16)), ("text", b"to be or not to be " * 40),
                ("random-1k", bytes(rng.getrandbits(8) for _ in range(1024))),
                ("100KB-text", (b"The quick brown fox jumps over the lazy dog. " * 2300)[:100 * 1024]),
                ("100KB-random", bytes(rng.getrandbits(8) for _ in range(100 * 1024)))]
    for zi, (zname, zpt) in enumerate(zclasses):
        for s in sers:
            a, e = [("dir", "A128CBC-HS256"), ("A128KW", "A256GCM"), ("ECDH-ES", "C20P"), ("dir", "A256GCM")][(zi + sers.index(s)) % 4]
            spec = J.make_spec(K, rng, s, [a], e, crv=J.ALL_CURVES[zi % 6], zip_=True, plaintext=zpt)
            j2r(spec, "DEF:%s/%s/%s/%s" % (zname, a, e, s))
            bump("def-class")

    # every spelling in every serialization, with and without aad
    for s in sers:
        for name_fn in sp:
            for aad in ([None] if s == "compact" else [None, b"extra aad"]):
                a, e = rng.choice([("A128KW", "A128CBC-HS256"), ("dir", "A256GCM"), ("ECDH-ES", "A128GCM"), ("A128GCMKW", "XC20P")])
                r2j(s, e, [a], "spelling/%s/%s" % (a, e), aad=aad, spell=name_fn, crv=rng.choice(J.ALL_CURVES))
    # several recipients, both directions
    multi_algs = [a for a in J.ALL_ALGS if a not in J.DIRECT_ALGS]
    for i in range(ctx.scale(12, 200)):
        e = rng.choice(J.CBC_ENCS)
        algs = [rng.choice(multi_algs) for _ in range(2 + i % 3)]
        algs = [a if not (a in J.RSA_ALGS and j > 0) else "A192KW" for j, a in enumerate(algs)]
        crv = rng.choice(J.ALL_CURVES)
        spec = J.make_spec(K, rng, "general", algs, e, crv=crv, zip_=i % 2 == 0, plaintext=b"to several %d" % i,
                           aad=b"a" if i % 3 == 0 else None)
        j2r(spec, "multi:" + "+".join(algs))
        r2j("general", e, algs, "multi:" + "+".join(algs), crv=crv, zip_=i % 2 == 1, aad=b"b" if i % 3 == 1 else None,
            spell=sp[i % len(sp)])

    # ------------------------------------------------------------- direct-mode algorithms among several recipients
    # every order and mix with a direct-mode algorithm in any position: joserfc must REFUSE at encryption time, or else
    # the token it emits must decrypt under the reference with EACH recipient's key (wire-level twin of C04's refusal oracle)
    partners = ["A128KW", "RSA-OAEP", "ECDH-ES+A128KW", "A256GCMKW", "PBES2-HS256+A128KW", "ECDH-1PU+A128KW"]
    if ctx.quick:
        partners = partners[:4]
    for dalg in J.DIRECT_ALGS:
        for x in partners + J.DIRECT_ALGS:
            for order in ([x, dalg], [dalg, x], [x, dalg, x], [x, x, dalg]):
                if ctx.quick and len(order) == 3 and x not in ("A128KW", dalg):
                    continue
                if x in J.DIRECT_ALGS and order.count(x) + order.count(dalg) != len(order):
                    continue
                algs = [a if not (a in J.RSA_ALGS and j > 0 and order[0] in J.RSA_ALGS) else "A256KW" for j, a in enumerate(order)]
                for crv in (["P-256", "X25519"] if dalg != "dir" else ["P-256"]):
                    enc = "A128CBC-HS256"
                    spec = J.make_spec(K, rng, "general", algs, enc, crv=crv, plaintext=b"for every recipient")
                    j2r(spec, "direct-among-several:%s/%s" % ("+".join(algs), crv), may_refuse=True)
                    bump("direct-among-several")

    # ------------------------------------------------------------- falsy-but-valid optional inputs, strict reference
    J.falsy_checks(ctx, K, rng, cases, meta, bump, ref_decrypt=decrypt, coq_cases=False)    # C04 replays these in the model

    # ------------------------------------------------------------- operation sequences on message objects
    # decrypt a reference-built token with a foreign header spelling and re-encrypt the returned object (same and new
    # keys); encrypt one object several times with header edits in between: every result goes through the strict reference
    J.sequence_checks(ctx, K, rng, cases, meta, bump, ref_decrypt=decrypt, ref_encrypt=encrypt, pid="C08")

    # ------------------------------------------------------------- published vectors
    def vector(name, token, key_jwk, sender_jwk, payload, ser="compact"):
        try:
            ref_out = decrypt(token, key_jwk, sender_jwk)      # AEAD-authenticated under the published key
            authentic = (not payload) or ref_out == payload
            payload = ref_out
        except Exception:
            authentic = False
        if not authentic:
            dist["vector-not-authenticated-by-reference"] = dist.get("vector-not-authenticated-by-reference", 0) + 1
            return
        ctx.note_case(("vector", name))
        bump("vector")
        k = JWKRegistry.import_key(dict(key_jwk))
        if k.get("use") or k.get("key_ops"):
            d = {x: y for x, y in key_jwk.items() if x not in ("use", "key_ops", "alg")}
            k = JWKRegistry.import_key(d)
        snd = JWKRegistry.import_key(dict(sender_jwk)) if sender_jwk else None
        obs, (dlog, nondet) = J.do_decrypt(ser, token, [k], sender=snd)
        if J.table_chars(dlog) < 40000:
            cases.append(J.case_dec(ser, token, [k], snd, True, obs, dlog)); meta.append(("vector", name))
        if obs[0] != "ok" or obs[1] != payload:
            ctx.violation({"kind": "published-vector", "vector": name},
                          "joserfc does not decrypt the published vector %s: %s" % (name, obs[1] if obs[0] == "err" else "other plaintext"),
                          {"token": token, "keys": [key_jwk], "sender": sender_jwk, "ser": ser,
                           "plaintext_hex": payload.hex(), "direction": "r2j"})

    vector("RFC7516-A.3", RFC7516_A3["token"], RFC7516_A3["key"], None, RFC7516_A3["plaintext"])
    tdir = os.path.join(lib.REPO, "tests")
    for nm, v in (("RFC7516-A.1", RFC7516_A1), ("RFC7516-A.2", RFC7516_A2)):
        try:
            vkey = json.load(open(os.path.join(tdir, "keys", v["keyfile"])))
        except FileNotFoundError:
            dist["fixtures-missing"] = dist.get("fixtures-missing", 0) + 1
            continue
        vector(nm, v["token"], vkey, None, v["plaintext"])
    try:
        fx = json.load(open(os.path.join(tdir, "fixtures", "jwe_rfc7520.json")))
        payload20 = fx.get("payload", "").encode("utf-8")
        for t in fx["tests"]:
            key_jwk = json.load(open(os.path.join(tdir, "keys", t["key"])))
            pl = t.get("payload", fx.get("payload", "")).encode("utf-8")
            if "compact" in t:
                vector("RFC7520:" + t["name"] + ":compact", t["compact"], key_jwk, None, pl)
            if "flattened_json" in t:
                vector("RFC7520:" + t["name"] + ":flattened", t["flattened_json"], key_jwk, None, pl, ser="json")
            if "general_json" in t:
                vector("RFC7520:" + t["name"] + ":general", t["general_json"], key_jwk, None, pl, ser="json")
        fx = json.load(open(os.path.join(tdir, "fixtures", "jwe_compact_ecdh_1pu.json")))
        alice = json.load(open(os.path.join(tdir, "keys", "ec-p256-alice.json")))
        bob = json.load(open(os.path.join(tdir, "keys", "ec-p256-bob.json")))
        for t in fx["tests"]:
            vector("ECDH-1PU-draft:" + t["name"], t["value"], bob, alice, fx["payload"].encode("utf-8"))
    except FileNotFoundError:
        dist["fixtures-missing"] = 1
    # RFC 7518 appendix B.1-B.3: AES_CBC_HMAC_SHA2 test cases (K = 00 01 02 ..., P, IV, A of the RFC; expected T)
    P = (b"A cipher system must not be required to be secret, and it must be able to fall into the hands of the enemy "
         b"without inconvenience")
    IV = bytes.fromhex("1af38c2dc2b96ffdd86694092341bc04")
    A = b"The second principle of Auguste Kerckhoffs"
    from joserfc.jwe import JWERegistry as _R
    for enc_name, klen, t_hex in (("A128CBC-HS256", 32, "652c3fa36b0a7c5b3219fab3a30bc1c4"),
                                  ("A192CBC-HS384", 48, "8490ac0e58949bfe51875d733f93ac2075168039ccc733d7"),
                                  ("A256CBC-HS512", 64, "4dd3b4c088a7f45c216839645b2012bf2e6269a8c56a816dbc1b267761955bc5")):
        Kk = bytes(range(klen))
        e_ref, t_ref = aead_encrypt(enc_name, Kk, IV, A, P)
        if t_ref.hex() != t_hex:
            dist["vector-not-authenticated-by-reference"] = dist.get("vector-not-authenticated-by-reference", 0) + 1
            continue
        ctx.note_case(("vector", "RFC7518-B", enc_name))
        bump("vector")
        model = _R.algorithms["enc"][enc_name]
        try:
            e_j, t_j = model.encrypt(P, Kk, IV, A)
            back = model.decrypt(e_ref, bytes.fromhex(t_hex), Kk, IV, A)
            good, why = (e_j == e_ref and t_j.hex() == t_hex and back == P), "E/T differ: T=%s" % t_j.hex()
        except Exception as ex:  # noqa
            good, why = False, repr(ex)
        if not good:
            ctx.violation({"kind": "published-vector", "vector": "RFC7518-B:" + enc_name},
                          "%s does not reproduce the RFC 7518 appendix B test case: %s" % (enc_name, why),
                          {"vector": "RFC7518-B", "enc": enc_name})

    # RFC 7518 appendix C: the Concat KDF output (checked on joserfc's own function, if the reference reproduces the RFC value)
    c = RFC7518_C
    z = dh(c["alice"], c["bob"])
    if b64u(concat_kdf(z, 128, otherinfo(c["enc"], unb64u(c["apu"]), unb64u(c["apv"]), 128))) == c["derived"]:
        from joserfc.rfc7518.derive_key import derive_key_for_concat_kdf
        ctx.note_case(("vector", "RFC7518-C"))
        bump("vector")
        got = b64u(derive_key_for_concat_kdf(z, {"alg": "ECDH-ES", "enc": c["enc"], "apu": c["apu"], "apv": c["apv"]}, 128, None))
        if got != c["derived"]:
            ctx.violation({"kind": "published-vector", "vector": "RFC7518-C"},
                          "derive_key_for_concat_kdf gives %s for the RFC 7518 appendix C example, expected %s" % (got, c["derived"]),
                          {"vector": "RFC7518-C", "got": got})
    else:
        dist["vector-not-authenticated-by-reference"] = dist.get("vector-not-authenticated-by-reference", 0) + 1

    # ---- the zlib contract of c08_deflate_raw, validated against real zlib on every intercepted zlib.compress call:
    #      output = 2-octet zlib header ++ COMPLETE raw RFC 1951 stream of the input ++ Adler-32(input)
    bad_contract = 0
    for (zs, zout, zextra) in J.ZLIB_CALLS:
        ctx.note_case(("zlib-contract", len(zs), zs[:8]))
        # RFC 1950: CM = 8 (deflate), CINFO <= 7, FCHECK makes CMF*256+FLG a multiple of 31, no preset dictionary
        okc = (len(zout) >= 6 and zout[0] & 0x0F == 8 and zout[0] >> 4 <= 7 and (zout[0] * 256 + zout[1]) % 31 == 0
               and not zout[1] & 0x20 and zout[-4:] == struct.pack(">I", zlib.adler32(zs)))
        if okc:
            dd = zlib.decompressobj(-15)
            try:
                back = dd.decompress(zout[2:-4]) + dd.flush()
                okc = back == zs and dd.eof and dd.unused_data == b""
            except zlib.error:
                okc = False
        if not okc:
            bad_contract += 1
            if bad_contract <= 3:
                ctx.violation({"kind": "zlib-contract"},
                              "zlib.compress as called by DeflateZipModel.compress does not satisfy the contract assumed by c08_deflate_raw "
                              "(2-octet zlib header ++ complete raw stream ++ Adler-32) for an input of %d octets" % len(zs),
                              {"input_hex": zs[:64].hex(), "output_hex": zout[:64].hex(), "no_failing_input_found": True,
                               "broken": "oracle contract zlib_contract"})
    dist["zlib-contract-calls"] = len(J.ZLIB_CALLS)

    ctx.coverage["input_distribution"] = dist
    ctx.coverage["rule"] = ("reference(decrypt)(joserfc token) = plaintext for every recipient; joserfc(decrypt)(reference token, any protected-header "
                            "spelling) = plaintext; published vectors the reference authenticates decrypt in joserfc; every run replayed in the model")
    if cases:
        ctx.sample({"coq_case": cases[0][:300]})
    res = J.coq_eval(cases, jobs=10 if ctx.quick else 14)
    ctx.coverage["traces_validated_against_impl"] = res["evaluated"]
    ctx.coverage["disagreements_checked"] = len(res["failing"])
    direct = len(ctx.violations)
    for i in res["failing"][:20]:
        ctx.violation({"kind": "correspondence", "what": meta[i][0]},
                      "model and implementation disagree on %r" % (meta[i],),
                      {"case": cases[i][:20000], "no_failing_input_found": direct == 0,
                       "broken": "correspondence model/JweCases.v:jwe_check vs joserfc.jwe"})
    for si, e in res["errors"][:5]:
        ctx.violation({"kind": "correspondence-error"}, "coqc failed on a generated case file",
                      {"output": e, "no_failing_input_found": True, "broken": "case evaluation"})
    if not ok:
        ctx.violation({"kind": "proof-broken"}, "props/C08.v or its closure no longer compiles",
                      {"log": log[-3000:], "no_failing_input_found": direct == 0 and not res["failing"],
                       "broken": "theorems of props/C08.v"})
    ctx.assumptions += [
        "the reference implementation (top of harness/props/c08.py) is written from RFC 7516/7518, RFC 3394, draft-madden-jose-ecdh-1pu-04 "
        "and draft-amringer-jose-chacha-02 over raw primitives of pyca/hashlib/hmac (AES-ECB/CBC, AESGCM, ChaCha20Poly1305, HChaCha20 by hand)",
        "published vectors are used only when the reference authenticates them (a mistyped literal is dropped, never reported)",
        "Spec (coq/model/C08Spec.v) is a transcription of the RFC text; Impl = Spec theorems are about the Gallina model, tied to /repo by the differential run",
    ]
    if not ctx.quick:
        ctx.coqchk()


def replay(path):
    J.install()
    from joserfc.jwk import JWKRegistry
    r = json.load(open(path))["replay"]
    print("replay:", {k: str(v)[:160] for k, v in r.items()})
    if r.get("direction") == "j2r":
        try:
            m = decrypt(r["token"], r["key"], r["sender"], index=r["index"])
            print("reference:", m[:40])
            return 0 if m.hex() == r["plaintext_hex"] else 1
        except Exception as e:  # noqa
            print("reference raised", repr(e))
            return 1
    if r.get("direction") == "r2j":
        keys = [JWKRegistry.import_key({k: v for k, v in d.items() if k not in ("use", "key_ops", "alg")}) for d in r["keys"]]
        snd = JWKRegistry.import_key(r["sender"]) if r["sender"] else None
        obs, _ = J.do_decrypt(J.dec_ser(r["ser"]) if r["ser"] in ("compact", "flat", "general") else r["ser"], r["token"], keys, sender=snd)
        print("joserfc:", obs[:2])
        return 0 if (obs[0] == "ok" and obs[1].hex() == r["plaintext_hex"]) else 1
    print("no direct input in this replay; see the file")
    return 1
