"""Independent JWS reference (RFC 7515 / 7518 / 8037 / 8812 / 7797), written from the RFC texts.

Uses only hashlib, hmac, json.loads (verifier side) and pyca/cryptography primitives.
Never imports joserfc.  Keys are plain JWK dicts (RFC 7517 / 7518 section 6 / 8037 section 2).
"""
import hashlib
import hmac
import json

from cryptography.exceptions import InvalidSignature
from cryptography.hazmat.primitives import hashes
from cryptography.hazmat.primitives.asymmetric import ec, ed448, ed25519, padding, rsa
from cryptography.hazmat.primitives.asymmetric.utils import decode_dss_signature, encode_dss_signature


class RefBadSignature(Exception):
    """The signature / MAC does not validate (RFC 7515 section 5.2 step 8)."""


# ---------------------------------------------------------------- base64url (RFC 7515 section 2, appendix C)
_B64 = "ABCDEFGHIJKLMNOPQRSTUVWXYZabcdefghijklmnopqrstuvwxyz0123456789-_"
_B64I = {c: i for i, c in enumerate(_B64)}


def b64u_enc(b: bytes) -> str:
    out = []
    for i in range(0, len(b), 3):
        c = b[i:i + 3]
        n = int.from_bytes(c + b"\0" * (3 - len(c)), "big")
        out.append("".join(_B64[(n >> s) & 63] for s in (18, 12, 6, 0))[:len(c) + 1])
    return "".join(out)


def b64u_dec(s: str, canonical: bool = False) -> bytes:
    """Strict: no '=', only A-Za-z0-9-_, length mod 4 != 1.  canonical=True additionally rejects
    non-zero trailing pad bits (RFC 4648 section 3.5 lets a decoder choose: MAY reject)."""
    if not isinstance(s, str):
        raise ValueError("base64url: text expected")
    if len(s) % 4 == 1:
        raise ValueError("base64url: impossible length")
    out = bytearray()
    for i in range(0, len(s), 4):
        q = s[i:i + 4]
        n = 0
        for ch in q:
            if ch not in _B64I:
                raise ValueError("base64url: bad character %r" % ch)
            n = (n << 6) | _B64I[ch]
        n <<= 6 * (4 - len(q))
        if canonical and n & ((1 << (8 * (4 - len(q)))) - 1):
            raise ValueError("base64url: non-zero trailing bits")
        out += n.to_bytes(3, "big")[:len(q) - 1]
    return bytes(out)


def _int(jwk, name):  # Base64urlUInt, RFC 7518 section 2
    return int.from_bytes(b64u_dec(jwk[name]), "big")


def _uint_b64(n, length=None):
    return b64u_enc(n.to_bytes(length or max(1, (n.bit_length() + 7) // 8), "big"))


# ---------------------------------------------------------------- algorithms (RFC 7518 section 3.1, RFC 8037 3.1, RFC 8812 3.2)
ALG_PARAMS = {
    "HS256": {"kind": "HMAC", "hash": "sha256"},   # RFC 7518 3.2
    "HS384": {"kind": "HMAC", "hash": "sha384"},
    "HS512": {"kind": "HMAC", "hash": "sha512"},
    "RS256": {"kind": "RSA-PKCS1v15", "hash": "sha256"},   # RFC 7518 3.3
    "RS384": {"kind": "RSA-PKCS1v15", "hash": "sha384"},
    "RS512": {"kind": "RSA-PKCS1v15", "hash": "sha512"},
    "ES256": {"kind": "ECDSA", "hash": "sha256", "crv": "P-256", "L": 32},   # RFC 7518 3.4
    "ES384": {"kind": "ECDSA", "hash": "sha384", "crv": "P-384", "L": 48},
    "ES512": {"kind": "ECDSA", "hash": "sha512", "crv": "P-521", "L": 66},
    "ES256K": {"kind": "ECDSA", "hash": "sha256", "crv": "secp256k1", "L": 32},   # RFC 8812 3.2
    "PS256": {"kind": "RSA-PSS", "hash": "sha256", "mgf1": "sha256", "salt": 32},   # RFC 7518 3.5
    "PS384": {"kind": "RSA-PSS", "hash": "sha384", "mgf1": "sha384", "salt": 48},
    "PS512": {"kind": "RSA-PSS", "hash": "sha512", "mgf1": "sha512", "salt": 64},
    "EdDSA": {"kind": "EdDSA"},   # RFC 8037 3.1, curve taken from the key
}
_HASH = {"sha256": hashes.SHA256, "sha384": hashes.SHA384, "sha512": hashes.SHA512}
_CURVE = {"P-256": ec.SECP256R1, "P-384": ec.SECP384R1, "P-521": ec.SECP521R1, "secp256k1": ec.SECP256K1}
_ED = {"Ed25519": (ed25519.Ed25519PublicKey, ed25519.Ed25519PrivateKey),
       "Ed448": (ed448.Ed448PublicKey, ed448.Ed448PrivateKey)}


def load_public(jwk: dict):
    kty = jwk.get("kty")
    if kty == "oct":   # RFC 7518 6.4
        return b64u_dec(jwk["k"])
    if kty == "RSA":   # RFC 7518 6.3.1
        return rsa.RSAPublicNumbers(_int(jwk, "e"), _int(jwk, "n")).public_key()
    if kty == "EC":    # RFC 7518 6.2.1
        if jwk.get("crv") not in _CURVE:
            raise ValueError("unknown EC curve")
        return ec.EllipticCurvePublicNumbers(_int(jwk, "x"), _int(jwk, "y"), _CURVE[jwk["crv"]]()).public_key()
    if kty == "OKP":   # RFC 8037 section 2
        if jwk.get("crv") not in _ED:
            raise ValueError("OKP curve is not a signature curve")
        return _ED[jwk["crv"]][0].from_public_bytes(b64u_dec(jwk["x"]))
    raise ValueError("unknown kty")


def load_private(jwk: dict):
    kty = jwk.get("kty")
    if kty == "oct":
        return b64u_dec(jwk["k"])
    if kty == "RSA":   # RFC 7518 6.3.2
        n, e, d = _int(jwk, "n"), _int(jwk, "e"), _int(jwk, "d")
        if "p" in jwk:
            p, q = _int(jwk, "p"), _int(jwk, "q")
            dp, dq, qi = _int(jwk, "dp"), _int(jwk, "dq"), _int(jwk, "qi")
        else:   # only d given: the CRT values are optional (6.3.2)
            p, q = rsa.rsa_recover_prime_factors(n, e, d)
            dp, dq, qi = rsa.rsa_crt_dmp1(d, p), rsa.rsa_crt_dmq1(d, q), rsa.rsa_crt_iqmp(p, q)
        return rsa.RSAPrivateNumbers(p, q, d, dp, dq, qi, rsa.RSAPublicNumbers(e, n)).private_key()
    if kty == "EC":    # RFC 7518 6.2.2
        if jwk.get("crv") not in _CURVE:
            raise ValueError("unknown EC curve")
        pub = ec.EllipticCurvePublicNumbers(_int(jwk, "x"), _int(jwk, "y"), _CURVE[jwk["crv"]]())
        return ec.EllipticCurvePrivateNumbers(_int(jwk, "d"), pub).private_key()
    if kty == "OKP":
        if jwk.get("crv") not in _ED:
            raise ValueError("OKP curve is not a signature curve")
        return _ED[jwk["crv"]][1].from_private_bytes(b64u_dec(jwk["d"]))
    raise ValueError("unknown kty")


def _params(alg, jwk):
    """Algorithm parameters; ValueError when the key does not suit the algorithm."""
    if not isinstance(alg, str) or alg not in ALG_PARAMS:
        raise ValueError("unsupported alg %r" % (alg,))
    p = ALG_PARAMS[alg]
    want = {"HMAC": "oct", "RSA-PKCS1v15": "RSA", "RSA-PSS": "RSA", "ECDSA": "EC", "EdDSA": "OKP"}[p["kind"]]
    if not isinstance(jwk, dict) or jwk.get("kty") != want:
        raise ValueError("key type does not suit %s" % alg)
    if p["kind"] == "ECDSA" and jwk.get("crv") != p["crv"]:
        raise ValueError("curve does not suit %s" % alg)
    if p["kind"] == "EdDSA" and jwk.get("crv") not in _ED:
        raise ValueError("curve does not suit EdDSA")
    return p


def raw_sign(alg, private_jwk, msg: bytes) -> bytes:
    p = _params(alg, private_jwk)
    key = load_private(private_jwk)
    kind = p["kind"]
    if kind == "HMAC":
        return hmac.new(key, msg, getattr(hashlib, p["hash"])).digest()
    if kind == "EdDSA":
        return key.sign(msg)
    h = _HASH[p["hash"]]()
    if kind == "RSA-PKCS1v15":
        return key.sign(msg, padding.PKCS1v15(), h)
    if kind == "RSA-PSS":   # salt length = hash output size, MGF1 with the same hash
        return key.sign(msg, padding.PSS(mgf=padding.MGF1(_HASH[p["mgf1"]]()), salt_length=p["salt"]), h)
    r, s = decode_dss_signature(key.sign(msg, ec.ECDSA(h)))
    return r.to_bytes(p["L"], "big") + s.to_bytes(p["L"], "big")   # R || S, RFC 7518 3.4


def raw_verify(alg, public_jwk, msg: bytes, sig: bytes) -> bool:
    p = _params(alg, public_jwk)
    kind = p["kind"]
    if kind == "ECDSA" and len(sig) != 2 * p["L"]:   # RFC 7518 3.4: exactly 2L octets
        return False
    key = load_public(public_jwk)
    if kind == "HMAC":
        return hmac.compare_digest(hmac.new(key, msg, getattr(hashlib, p["hash"])).digest(), bytes(sig))
    try:
        if kind == "EdDSA":
            key.verify(sig, msg)
        elif kind == "RSA-PKCS1v15":
            key.verify(sig, msg, padding.PKCS1v15(), _HASH[p["hash"]]())
        elif kind == "RSA-PSS":
            h = _HASH[p["hash"]]()
            key.verify(sig, msg, padding.PSS(mgf=padding.MGF1(_HASH[p["mgf1"]]()), salt_length=h.digest_size), h)
        else:
            L = p["L"]
            der = encode_dss_signature(int.from_bytes(sig[:L], "big"), int.from_bytes(sig[L:], "big"))
            key.verify(der, msg, ec.ECDSA(_HASH[p["hash"]]()))
    except InvalidSignature:
        return False
    return True


# ---------------------------------------------------------------- JSON header spellings (own serializer, RFC 8259)
_SHORT = {'"': '\\"', "\\": "\\\\", "\n": "\\n", "\r": "\\r", "\t": "\\t", "\b": "\\b", "\f": "\\f"}


def _u(ch):   # \uXXXX, surrogate pair for non-BMP (RFC 8259 section 7)
    c = ord(ch)
    if c < 0x10000:
        return "\\u%04x" % c
    c -= 0x10000
    return "\\u%04x\\u%04x" % (0xD800 + (c >> 10), 0xDC00 + (c & 0x3FF))


def _ser_char(ch, mode, rng):
    if mode == "mix":
        mode = rng.choice(["ascii", "u", "slash", "raw"])
    if mode == "u":
        return _u(ch)
    if ch in _SHORT:
        return _SHORT[ch]
    if ch == "/" and mode == "slash":
        return "\\/"
    c = ord(ch)
    if c < 0x20 or 0xD800 <= c <= 0xDFFF or (c > 0x7E and mode != "raw"):
        return _u(ch)
    return ch


def _ser(v, mode="ascii", ws=None, shuffle=False, rng=None):
    """mode: ascii (like a default compact dump) | u | slash | raw | mix; ws() yields whitespace."""
    w = ws or (lambda: "")
    rec = lambda x: _ser(x, mode, ws, shuffle, rng)
    if v is None or v is True or v is False:
        return {None: "null", True: "true", False: "false"}[v]
    if isinstance(v, int):
        return str(v)
    if isinstance(v, str):
        return '"' + "".join(_ser_char(ch, mode, rng) for ch in v) + '"'
    if isinstance(v, (list, tuple)):
        return "[" + w() + ("," + w()).join(rec(x) + w() for x in v) + "]"
    if isinstance(v, dict):
        items = list(v.items())
        if shuffle:
            rng.shuffle(items)
        return "{" + w() + ("," + w()).join(rec(k) + w() + ":" + w() + rec(x) + w() for k, x in items) + "}"
    raise TypeError("unsupported JSON value %r" % (v,))


def header_spellings(header: dict, rng) -> list:
    ws = lambda: "".join(rng.choice(" \n\t\r") for _ in range(rng.randrange(3)))
    texts = [
        _ser(header),                                   # (a) compact, ASCII only
        ws() + _ser(header, ws=ws) + ws(),              # (b) whitespace around tokens
        _ser(header, shuffle=True, rng=rng),            # (c) shuffled member order
        _ser(header, mode="u"),                         # (d) every character as \uXXXX
        _ser(header, mode="slash"),                     # (e) \/ for '/'
        _ser(header, mode="raw"),                       # (f) raw UTF-8 for non-ASCII
        ws() + _ser(header, "mix", ws, True, rng) + ws(),   # (g) mix
    ]
    for t in texts:
        assert json.loads(t) == header, t
        assert json.loads(t.encode("utf-8")) == header, t
    return [t.encode("utf-8") for t in texts]


# ---------------------------------------------------------------- compact serialization (RFC 7515 sections 5.1, 5.2, 7.1)
def signing_input(header_octets: bytes, payload: bytes, b64: bool = True) -> bytes:
    """ASCII(BASE64URL(UTF8(protected header)) || '.' || BASE64URL(payload)); RFC 7797 section 3 when b64 is false."""
    return b64u_enc(header_octets).encode("ascii") + b"." + (b64u_enc(payload).encode("ascii") if b64 else bytes(payload))


def sign_compact(alg, private_jwk, header_octets: bytes, payload: bytes, b64: bool = True, detached: bool = False) -> str:
    sig = raw_sign(alg, private_jwk, signing_input(header_octets, payload, b64))
    mid = "" if detached else (b64u_enc(payload) if b64 else payload.decode("utf-8"))
    return b64u_enc(header_octets) + "." + mid + "." + b64u_enc(sig)


def _nan(name):
    raise ValueError("not JSON: " + name)


def _parse_header(octets: bytes) -> dict:
    obj = json.loads(octets.decode("utf-8"), parse_constant=_nan)   # UTF-8 only (RFC 7515 5.2 step 3)
    if not isinstance(obj, dict):
        raise ValueError("header is not a JSON object")
    return obj


def _check_crit_b64(protected: dict, understood=("b64",)) -> bool:
    """RFC 7515 4.1.11 and RFC 7797 sections 3, 6.  Returns the effective b64 value."""
    if "crit" in protected:
        crit = protected["crit"]
        if not isinstance(crit, list) or not crit or not all(isinstance(x, str) for x in crit):
            raise ValueError("crit must be a non-empty array of names")
        for name in crit:
            if name not in understood or name not in protected:
                raise ValueError("critical header %r not understood or absent" % name)
    b64 = protected.get("b64", True)
    if not isinstance(b64, bool):
        raise ValueError("b64 must be a JSON boolean")
    if b64 is False and "b64" not in protected.get("crit", []):
        raise ValueError("b64=false without crit")
    return b64


def verify_compact(token: str, public_jwk, detached_payload=None, crit_understood=("b64",)):
    if isinstance(token, bytes):
        token = token.decode("utf-8")
    parts = token.split(".")
    if len(parts) != 3:
        raise ValueError("compact JWS needs exactly 3 segments")
    header = _parse_header(b64u_dec(parts[0]))
    alg = header.get("alg")   # RFC 7515 4.1.1: MUST be present
    if not isinstance(alg, str) or alg not in ALG_PARAMS:
        raise ValueError("missing or unsupported alg")
    b64 = _check_crit_b64(header, crit_understood)
    sig = b64u_dec(parts[2])
    if detached_payload is not None:   # RFC 7515 appendix F
        if parts[1] != "":
            raise ValueError("payload segment present with detached content")
        payload = bytes(detached_payload)
        msg = parts[0].encode("ascii") + b"." + (b64u_enc(payload).encode("ascii") if b64 else payload)
    else:
        payload = b64u_dec(parts[1]) if b64 else parts[1].encode("utf-8")
        msg = (parts[0] + "." + parts[1]).encode("utf-8")
    if not raw_verify(alg, public_jwk, msg, sig):
        raise RefBadSignature(alg)
    return header, payload


# ---------------------------------------------------------------- JSON serializations (RFC 7515 sections 7.2.1, 7.2.2)
def _sign_member(alg, private_jwk, protected_octets, unprotected, payload, b64):
    seg = b64u_enc(protected_octets) if protected_octets is not None else ""
    body = b64u_enc(payload).encode("ascii") if b64 else bytes(payload)
    out = {}
    if protected_octets is not None:
        out["protected"] = seg
    if unprotected:
        out["header"] = dict(unprotected)
    out["signature"] = b64u_enc(raw_sign(alg, private_jwk, seg.encode("ascii") + b"." + body))
    return out


def _payload_text(payload, b64):
    return b64u_enc(payload) if b64 else payload.decode("utf-8")


def sign_flattened(alg, private_jwk, protected_octets, unprotected, payload: bytes, b64: bool = True) -> dict:
    out = {"payload": _payload_text(payload, b64)}
    out.update(_sign_member(alg, private_jwk, protected_octets, unprotected, payload, b64))
    return out


def sign_general(members, payload: bytes, b64: bool = True) -> dict:
    """members: list of (alg, private_jwk, protected_octets | None, unprotected | None)."""
    return {"payload": _payload_text(payload, b64),
            "signatures": [_sign_member(a, k, po, un, payload, b64) for (a, k, po, un) in members]}


def verify_json(value: dict, public_jwk_for, detached_payload=None, crit_understood=("b64",)):
    if not isinstance(value, dict):
        raise ValueError("JWS JSON serialization must be an object")
    if "signatures" in value:   # general syntax
        sigs = value["signatures"]
        if not isinstance(sigs, list) or not sigs:
            raise ValueError("signatures must be a non-empty array")
        if any(k in value for k in ("protected", "header", "signature")):
            raise ValueError("flattened members mixed with signatures")   # 7.2.2
    else:
        sigs = [{k: value[k] for k in ("protected", "header", "signature") if k in value}]
    if detached_payload is None:
        if not isinstance(value.get("payload"), str):
            raise ValueError("payload member missing or not a string")
        ptext = value["payload"]
    elif "payload" in value:
        raise ValueError("payload member present with detached content")
    parsed = []
    for m in sigs:
        if not isinstance(m, dict) or not isinstance(m.get("signature"), str):
            raise ValueError("signature member missing")
        if "protected" not in m and "header" not in m:
            raise ValueError("one of protected/header must be present")   # 7.2.1
        pseg = m.get("protected", "")
        if not isinstance(pseg, str) or ("protected" in m and pseg == ""):
            raise ValueError("bad protected member")
        protected = _parse_header(b64u_dec(pseg)) if "protected" in m else {}
        unprot = m.get("header", {})
        if not isinstance(unprot, dict):
            raise ValueError("header member must be an object")
        if set(protected) & set(unprot):
            raise ValueError("header parameter names must be disjoint")   # 7.2.1
        if "b64" in unprot or "crit" in unprot:
            raise ValueError("b64/crit must be integrity protected")   # RFC 7797 3, RFC 7515 4.1.11
        b64 = _check_crit_b64(protected, crit_understood)
        merged = dict(protected)
        merged.update(unprot)
        alg = merged.get("alg")
        if not isinstance(alg, str) or alg not in ALG_PARAMS:
            raise ValueError("missing or unsupported alg")
        parsed.append((pseg, merged, alg, b64, b64u_dec(m["signature"])))
    if len({p[3] for p in parsed}) != 1:
        raise ValueError("b64 must be the same for all signatures")   # RFC 7797 section 3
    b64 = parsed[0][3]
    if detached_payload is not None:
        payload = bytes(detached_payload)
        body = b64u_enc(payload).encode("ascii") if b64 else payload
    else:
        payload = b64u_dec(ptext) if b64 else ptext.encode("utf-8")
        body = ptext.encode("utf-8")
    for i, (pseg, merged, alg, _, sig) in enumerate(parsed):   # every signature must validate
        if not raw_verify(alg, public_jwk_for(i, merged), pseg.encode("ascii") + b"." + body, sig):
            raise RefBadSignature("signature %d (%s)" % (i, alg))
    return [p[1] for p in parsed], payload


# ---------------------------------------------------------------- published vectors
# Sources: [F1] /repo/tests/fixtures/jws_rfc7520.json + /repo/tests/keys/RFC7520-*.json, [F2] /repo/tests/rfc7520/test_jws.py,
# [F3] /repo/tests/fixtures/jws_rfc7797.json + key in /repo/tests/jws/test_rfc7797.py, [M] typed from the RFC text
# (RFC 7515 appendix A, RFC 8037 A.4); the [M] literals are accepted only because they validate cryptographically.
_K_A1 = {"kty": "oct", "k": "AyM1SysPpbyDfgZld3umj1qzKObwVMkoqQ-EstJQLr_T-1qS0gZH75aKtMN3Yj0iPS4hcgUuTwjAzZr1Z9CAow"}
_K_A2 = {"kty": "RSA", "e": "AQAB", "n": (
    "ofgWCuLjybRlzo0tZWJjNiuSfb4p4fAkd_wWJcyQoTbji9k0l8W26mPddxHmfHQp-Vaw-4qPCJrcS2mJPMEzP1Pt0Bm4d4QlL-yRT-SFd2lZS-pCgNMs"
    "D1W_YpRPEwOWvG6b32690r2jZ47soMZo9wGzjb_7OMg0LOL-bSf63kpaSHSXndS5z5rexMdbBYUsLA9e-KXBdQOS-UTo7WTBEMa2R2CapHg665xsmtdV"
    "MTBQY4uDZlxvb3qCo5ZwKh9kG4LT6_I5IhlJH7aGhyxXFvUK-DWNmoudF8NAco9_h9iaGNj8q2ethFkMLs91kzk2PAcDTW9gb54h4FRWyuXpoQ")}
_K_A3 = {"kty": "EC", "crv": "P-256", "x": "f83OJ3D2xF1Bg8vub9tLe1gHMzV76e8Tus9uPHvRVEU",
         "y": "x_FEzRu9m36HLN_tue659LNpXW6pCyStikYjKIWI5a0"}
_K_A4 = {"kty": "EC", "crv": "P-521",
         "x": "AekpBQ8ST8a8VcfVOTNl353vSrDCLLJXmPk06wTjxrrjcBpXp5EOnYG_NjFZ6OvLFV1jSfS9tsz4qUxcWceqwQGk",
         "y": "ADSmRA43Z1DSNx_RvcLI87cdL07l6jQyyBXMoxVg_l2Th-x3S1WDhjDly79ajL4Kkd0AZMaZmh9ubmf63e3kyMj2"}
_K_ED = {"kty": "OKP", "crv": "Ed25519", "x": "11qYAYKxCrfVS_7TyWQHOg7hcvPapiMlrwIaaPcHURo"}
_K_RSA = {"kty": "RSA", "kid": "bilbo.baggins@hobbiton.example", "use": "sig", "e": "AQAB", "n": (
    "n4EPtAOCc9AlkeQHPzHStgAbgs7bTZLwUBZdR8_KuKPEHLd4rHVTeT-O-XV2jRojdNhxJWTDvNd7nqQ0VEiZQHz_AJmSCpMaJMRBSFKrKb2wqVwGU_Ns"
    "YOYL-QtiWN2lbzcEe6XC0dApr5ydQLrHqkHHig3RBordaZ6Aj-oBHqFEHYpPe7Tpe-OfVfHd1E6cS6M1FZcD1NNLYD5lFHpPI9bTwJlsde3uhGqC0ZCu"
    "EHg8lhzwOHrtIQbS0FVbb9k3-tVTU4fg_3L_vniUFAKwuCLqKnS2BYwdq_mzSnbLY7h_qixoR7jig3__kRhuaxwUkRz5iaiQkqgc5gHdrNP5zw")}
_K_EC = {"kty": "EC", "kid": "bilbo.baggins@hobbiton.example", "use": "sig", "crv": "P-521",
         "x": "AHKZLLOsCOzz5cY97ewNUajB957y-C-U88c3v13nmGZx6sYl_oJXu9A5RkTKqjqvjyekWF-7ytDyRXYgCF5cj0Kt",
         "y": "AdymlHvOiLxXkEhayXQnNCvDX4h9htZaCJN34kfmC6pV5OhQHiraVySsUdaQkAgDPrwQrJmbnX9cwlGfP-HqHZR1"}
_K_OCT = {"kty": "oct", "kid": "018c0ae5-4d9b-471b-bfd6-eef314bc7037", "use": "sig", "alg": "HS256",
          "k": "hJtXIZ2uSN5kbQfbtTNWbpdmhkV8FJG-Onbc6mxCcYg"}
_P_7515 = b'{"iss":"joe",\r\n "exp":1300819380,\r\n "http://example.com/is_root":true}'
_P_7515_B64 = "eyJpc3MiOiJqb2UiLA0KICJleHAiOjEzMDA4MTkzODAsDQogImh0dHA6Ly9leGFtcGxlLmNvbS9pc19yb290Ijp0cnVlfQ"
_P_7520 = (b"It\xe2\x80\x99s a dangerous business, Frodo, going out your door. You step onto the road, and if you don't "
           b"keep your feet, there\xe2\x80\x99s no knowing where you might be swept off to.")
_P_7520_B64 = ("SXTigJlzIGEgZGFuZ2Vyb3VzIGJ1c2luZXNzLCBGcm9kbywgZ29pbmcgb3V0IHlvdXIgZG9vci4gWW91IHN0ZXAgb250byB0aGUgcm9hZCwgYW5k"
               "IGlmIHlvdSBkb24ndCBrZWVwIHlvdXIgZmVldCwgdGhlcmXigJlzIG5vIGtub3dpbmcgd2hlcmUgeW91IG1pZ2h0IGJlIHN3ZXB0IG9mZiB0by4")
_H_KID_RS = "eyJhbGciOiJSUzI1NiIsImtpZCI6ImJpbGJvLmJhZ2dpbnNAaG9iYml0b24uZXhhbXBsZSJ9"
_H_KID_PS = "eyJhbGciOiJQUzM4NCIsImtpZCI6ImJpbGJvLmJhZ2dpbnNAaG9iYml0b24uZXhhbXBsZSJ9"
_H_KID_ES = "eyJhbGciOiJFUzUxMiIsImtpZCI6ImJpbGJvLmJhZ2dpbnNAaG9iYml0b24uZXhhbXBsZSJ9"
_H_KID_HS = "eyJhbGciOiJIUzI1NiIsImtpZCI6IjAxOGMwYWU1LTRkOWItNDcxYi1iZmQ2LWVlZjMxNGJjNzAzNyJ9"
_S_41 = ("MRjdkly7_-oTPTS3AXP41iQIGKa80A0ZmTuV5MEaHoxnW2e5CZ5NlKtainoFmKZopdHM1O2U4mwzJdQx996ivp83xuglII7PNDi84wnB-BDkoBwA7818"
         "5hX-Es4JIwmDLJK3lfWRa-XtL0RnltuYv746iYTh_qHRD68BNt1uSNCrUCTJDt5aAE6x8wW1Kt9eRo4QPocSadnHXFxnt8Is9UzpERV0ePPQdLuW3IS_"
         "de3xyIrDaLGdjluPxUAhb6L2aXic1U12podGU0KLUQSE_oI-ZnmKJ3F4uOZDnd6QZWJushZ41Axf_fcIe8u9ipH84ogoree7vjbU5y18kDquDg")
_S_42 = ("cu22eBqkYDKgIlTpzDXGvaFfz6WGoz7fUDcfT0kkOy42miAh2qyBzk1xEsnk2IpN6-tPid6VrklHkqsGqDqHCdP6O8TTB5dDDItllVo6_1OLPpcbUrhi"
         "USMxbbXUvdvWXzg-UD8biiReQFlfz28zGWVsdiNAUf8ZnyPEgVFn442ZdNqiVJRmBqrYRXe8P_ijQ7p8Vdz0TTrxUeT3lm8d9shnr2lfJT8ImUjvAA2X"
         "ez2Mlp8cBE5awDzT0qI0n6uiP1aCN_2_jLAeQTlqRHtfa64QQSUmFAAjVKPbByi7xho0uTOcbH510a6GYmJUAfmWjwZ6oD4ifKo8DYM-X72Eaw")
_S_43 = ("AE_R_YZCChjn4791jSQCrdPZCNYqHXCTZH0-JZGYNlaAjP2kqaluUIIUnC9qvbu9Plon7KRTzoNEuT4Va2cmL1eJAQy3mtPBu_u_sDDyYjnAMDxXPn7X"
         "rT0lw-kvAD890jl8e2puQens_IEKBpHABlsbEPX6sFY8OcGDqoRuBomu9xQ2")
_S_44 = "s0h6KThzkfBBBkLspW1h84VsJZFTsPPqMDA7g1Md7p0"
_S_48_RS = ("MIsjqtVlOpa71KE-Mss8_Nq2YH4FGhiocsqrgi5NvyG53uoimic1tcMdSg-qptrzZc7CG6Svw2Y13TDIqHzTUrL_lR2ZFcryNFiHkSw129EghGpwkpxa"
            "Tn_THJTCglNbADko1MZBCdwzJxwqZc-1RlpO2HibUYyXSwO97BSe0_evZKdjvvKSgsIqjytKSeAMbhMBdMma622_BG5t4sdbuCHtFjp9iJmkio47AIwq"
            "kZV1aIZsv33uPUqBBCXbYoQJwt7mxPftHmNlGoOSMxR_3thmXTCm4US-xiNOyhbm8afKK64jU6_TPtQHiJeQJxz9G3Tx-083B745_AfYOnlC9w")
_S_48_ES = ("ARcVLnaJJaUWG8fG-8t5BREVAuTY8n8YHjwDO1muhcdCoFZFFjfISu0Cdkn9Ybdlmi54ho0x924DUz8sK7ZXkhc7AFM8ObLfTvNCrqcI3Jkl2U5IX3ut"
            "NhODH6v7xgy1Qahsn0fyb4zSAkje8bAWz4vIfj5pCMYxxm4fgV3q7ZYhm5eD")
_H_B64F = "eyJhbGciOiJIUzI1NiIsImI2NCI6ZmFsc2UsImNyaXQiOlsiYjY0Il19"
_KID_OCT = {"kid": "018c0ae5-4d9b-471b-bfd6-eef314bc7037"}


def _v(name, kind, token, jwk, payload, **kw):
    return dict(name=name, kind=kind, token=token, jwk=jwk, payload=payload, **kw)


RFC_VECTORS = [
    _v("RFC7515 A.1 HS256 [M]", "compact", "eyJ0eXAiOiJKV1QiLA0KICJhbGciOiJIUzI1NiJ9." + _P_7515_B64
       + ".dBjftJeZ4CVP-mB92K27uhbUJU1p1r_wW1gFWFOEjXk", _K_A1, _P_7515),
    _v("RFC7515 A.2 RS256 [M]", "compact", "eyJhbGciOiJSUzI1NiJ9." + _P_7515_B64 + "."
       "cC4hiUPoj9Eetdgtv3hF80EGrhuB__dzERat0XF9g2VtQgr9PJbu3XOiZj5RZmh7AAuHIm4Bh-0Qc_lF5YKt_O8W2Fp5jujGbds9uJdbF9CUAr7t1dnZcAcQjb"
       "KBYNX4BAynRFdiuB--f_nZLgrnbyTyWzO75vRK5h6xBArLIARNPvkSjtQBMHlb1L07Qe7K0GarZRmB_eSN9383LcOLn6_dO--xi12jzDwusC-eOkHWEsqtFZES"
       "c6BfI7noOPqvhJ1phCnvWh6IeYI2w9QOYEUipUTI8np6LbgGY9Fs98rqVt5AXLIhWkWywlVmtVrBp0igcN_IoypGlUPQGe77Rw", _K_A2, _P_7515),
    _v("RFC7515 A.3 ES256 [M]", "compact", "eyJhbGciOiJFUzI1NiJ9." + _P_7515_B64
       + ".DtEhU3ljbEg8L38VWAfUAqOyKAM6-Xx-F4GawxaepmXFCgfTjDxw5djxLa8ISlSApmWQxfKTUJqPP3-Kg6NU1Q", _K_A3, _P_7515),
    _v("RFC7515 A.4 ES512 [M]", "compact", "eyJhbGciOiJFUzUxMiJ9.UGF5bG9hZA."
       "AdwMgeerwtHoh-l192l60hp9wAHZFVJbLfD_UxMi70cwnZOYaRI1bKPWROc-mZZqwqT2SI-KGDKB34XO0aw_7XdtAG8GaSwFKdCAPZgoXD2YBJZCPEX3xKpRwc"
       "dOO8KpEHwJjyqOgzDO7iKvU8vcnwNrmxYbSW9ERBXukOXolLzeO_Jn", _K_A4, b"Payload"),
    _v("RFC7520 4.1 RS256 [F1]", "compact", _H_KID_RS + "." + _P_7520_B64 + "." + _S_41, _K_RSA, _P_7520),
    _v("RFC7520 4.2 PS384 [F1]", "compact", _H_KID_PS + "." + _P_7520_B64 + "." + _S_42, _K_RSA, _P_7520),
    _v("RFC7520 4.3 ES512 [F1]", "compact", _H_KID_ES + "." + _P_7520_B64 + "." + _S_43, _K_EC, _P_7520),
    _v("RFC7520 4.4 HS256 [F1]", "compact", _H_KID_HS + "." + _P_7520_B64 + "." + _S_44, _K_OCT, _P_7520),
    _v("RFC7520 4.1 RS256 flattened [F1]", "flattened",
       {"payload": _P_7520_B64, "protected": _H_KID_RS, "signature": _S_41}, _K_RSA, _P_7520),
    _v("RFC7520 4.2 PS384 general [F1]", "general",
       {"payload": _P_7520_B64, "signatures": [{"protected": _H_KID_PS, "signature": _S_42}]}, _K_RSA, _P_7520),
    _v("RFC7520 4.3 ES512 flattened [F1]", "flattened",
       {"payload": _P_7520_B64, "protected": _H_KID_ES, "signature": _S_43}, _K_EC, _P_7520),
    _v("RFC7520 4.4 HS256 general [F1]", "general",
       {"payload": _P_7520_B64, "signatures": [{"protected": _H_KID_HS, "signature": _S_44}]}, _K_OCT, _P_7520),
    _v("RFC7520 4.5 detached compact [F2]", "compact", _H_KID_HS + ".." + _S_44, _K_OCT, _P_7520, detached_payload=_P_7520),
    _v("RFC7520 4.5 detached flattened [F2]", "flattened", {"protected": _H_KID_HS, "signature": _S_44},
       _K_OCT, _P_7520, detached_payload=_P_7520),
    _v("RFC7520 4.6 protected+unprotected flattened [F2]", "flattened",
       {"payload": _P_7520_B64, "protected": "eyJhbGciOiJIUzI1NiJ9", "header": _KID_OCT,
        "signature": "bWUSVaxorn7bEF1djytBd0kHv70Ly5pvbomzMWSOr20"}, _K_OCT, _P_7520),
    _v("RFC7520 4.7 unprotected only general [F2]", "general",
       {"payload": _P_7520_B64, "signatures": [{"header": dict(_KID_OCT, alg="HS256"),
                                                "signature": "xuLifqLGiblpv9zBpuZczWhNj1gARaLV3UxvxhJxZuk"}]}, _K_OCT, _P_7520),
    # "jwk" is a list here: one key per entry of "signatures"
    _v("RFC7520 4.8 multiple signatures [F2]", "general",
       {"payload": _P_7520_B64, "signatures": [
           {"protected": "eyJhbGciOiJSUzI1NiJ9", "header": {"kid": "bilbo.baggins@hobbiton.example"}, "signature": _S_48_RS},
           {"header": {"alg": "ES512", "kid": "bilbo.baggins@hobbiton.example"}, "signature": _S_48_ES},
           {"protected": _H_KID_HS, "signature": _S_44}]}, [_K_RSA, _K_EC, _K_OCT], _P_7520),
    _v("RFC7797 4.1 HS256 [F3]", "compact", "eyJhbGciOiJIUzI1NiJ9.JC4wMg.5mvfOroL-g7HyqJoozehmsaqmvTYGEq5jTI1gVvoEoQ", _K_A1, b"$.02"),
    _v("RFC7797 4.2 HS256 b64=false detached [F3]", "compact-detached-b64false",
       _H_B64F + "..A5dxf2s96_n5FLueVuW1Z_vh161FwXZC4YLPff6dmDY", _K_A1, b"$.02", detached_payload=b"$.02"),
    _v("RFC7797 4.2 HS256 b64=false flattened [F3]", "flattened",
       {"protected": _H_B64F, "payload": "$.02", "signature": "A5dxf2s96_n5FLueVuW1Z_vh161FwXZC4YLPff6dmDY"}, _K_A1, b"$.02"),
    _v("RFC8037 A.4 Ed25519 [M]", "compact", "eyJhbGciOiJFZERTQSJ9.RXhhbXBsZSBvZiBFZDI1NTE5IHNpZ25pbmc."
       "hgyY0il_MGCjP0JzlnLWG1PPOt7-09PGcvMg3AIbQR6dWbhijcNR4ki4iylGjg5BhVsPt9g7sVvpAr_MuM0KAg", _K_ED, b"Example of Ed25519 signing"),
]
_K_ED_PRIV = dict(_K_ED, d="nWGxne_9WmC6hEr0kuwsxERJxWl7MmkZcDusAxyuf2A")   # RFC 8037 A.1


def check_vector(v):
    jwk = v["jwk"]
    if v["kind"] in ("compact", "compact-detached-b64false"):
        _, payload = verify_compact(v["token"], jwk, v.get("detached_payload"))
    else:
        pick = (lambda i, h: jwk[i]) if isinstance(jwk, list) else (lambda i, h: jwk)
        _, payload = verify_json(v["token"], pick, v.get("detached_payload"))
    assert payload == v["payload"], v["name"]


# ---------------------------------------------------------------- self test
def _gen_jwk(alg):
    """Fresh pyca key for alg -> (private JWK, public JWK), converted by this module's own code."""
    import os
    kind = ALG_PARAMS[alg]["kind"]
    if kind == "HMAC":
        k = {"kty": "oct", "k": b64u_enc(os.urandom(64))}
        return k, k
    if kind.startswith("RSA"):
        n = rsa.generate_private_key(65537, 2048).private_numbers()
        pub = {"kty": "RSA", "n": _uint_b64(n.public_numbers.n), "e": _uint_b64(n.public_numbers.e)}
        prv = dict(pub, d=_uint_b64(n.d), p=_uint_b64(n.p), q=_uint_b64(n.q),
                   dp=_uint_b64(n.dmp1), dq=_uint_b64(n.dmq1), qi=_uint_b64(n.iqmp))
        return prv, pub
    if kind == "ECDSA":
        crv = ALG_PARAMS[alg]["crv"]
        n = ec.generate_private_key(_CURVE[crv]()).private_numbers()
        size = (_CURVE[crv]().key_size + 7) // 8   # full-length coordinates, RFC 7518 6.2.1.2
        pub = {"kty": "EC", "crv": crv, "x": _uint_b64(n.public_numbers.x, size), "y": _uint_b64(n.public_numbers.y, size)}
        return dict(pub, d=_uint_b64(n.private_value, size)), pub
    out = []
    for crv in ("Ed25519", "Ed448"):
        key = _ED[crv][1].generate()
        pub = {"kty": "OKP", "crv": crv, "x": b64u_enc(key.public_key().public_bytes_raw())}
        out.append((dict(pub, d=b64u_enc(key.private_bytes_raw())), pub))
    return out


def _expect(exc, fn, *a, **kw):
    try:
        fn(*a, **kw)
    except exc:
        return
    raise AssertionError("expected %s from %s%r" % (exc, fn.__name__, a[:1]))


def self_test():
    import random
    rng = random.Random(7)
    # base64url
    for n in range(0, 40):
        b = bytes(rng.randrange(256) for _ in range(n))
        assert b64u_dec(b64u_enc(b)) == b and b64u_dec(b64u_enc(b), canonical=True) == b
    assert b64u_enc(b"\x03\xec\xff\xe0\xc1") == "A-z_4ME"   # RFC 7515 appendix C
    for bad in ("A", "AAAAA", "AA=", "AA==", "A+AA", "A/AA", "AA A", "AA\n", "éAA"):
        _expect(ValueError, b64u_dec, bad)
    assert b64u_dec("AB") == b"\x00" and b64u_dec("AA", True) == b"\x00"
    _expect(ValueError, b64u_dec, "AB", True)
    # published vectors
    for v in RFC_VECTORS:
        check_vector(v)
    # deterministic algorithms reproduce the published values
    assert sign_compact("HS256", _K_A1, b64u_dec("eyJ0eXAiOiJKV1QiLA0KICJhbGciOiJIUzI1NiJ9"), _P_7515) == RFC_VECTORS[0]["token"]
    assert sign_compact("EdDSA", _K_ED_PRIV, b'{"alg":"EdDSA"}', b"Example of Ed25519 signing") == RFC_VECTORS[-1]["token"]
    assert sign_compact("HS256", _K_A1, b64u_dec(_H_B64F), b"$.02", b64=False, detached=True) == RFC_VECTORS[-3]["token"]
    # header spellings
    hdr = {"alg": "HS256", "kid": "a/b é€\U0001f600\"\\\n", "crit": ["b64"], "b64": True, "n": -12, "z": None,
           "o": {"x": [1, "y/", {"q": False}], "e": {}, "l": []}}
    sp = header_spellings(hdr, rng)
    assert len(sp) == 7 and len(set(sp)) == 7
    assert sp[0] == json.dumps(hdr, separators=(",", ":")).encode()   # check only, never used to produce
    # round trips for all 14 algorithms (EdDSA on both curves), every header spelling, all serializations
    keys = []
    for alg in ALG_PARAMS:
        g = _gen_jwk(alg)
        keys += [(alg, prv, pub) for prv, pub in (g if isinstance(g, list) else [g])]
    assert len(ALG_PARAMS) == 14 and len(keys) == 15
    for alg, prv, pub in keys:
        msg = b"message " + alg.encode()
        sig = raw_sign(alg, prv, msg)
        assert raw_verify(alg, pub, msg, sig)
        step = max(1, len(sig) * 8 // 64)
        for bit in list(range(0, len(sig) * 8, step)) + [len(sig) * 8 - 1]:   # flipped signature bits
            bad = bytearray(sig)
            bad[bit // 8] ^= 1 << (bit % 8)
            assert not raw_verify(alg, pub, msg, bytes(bad)), (alg, bit)
        for bit in range(len(msg) * 8):   # flipped message bits
            bad = bytearray(msg)
            bad[bit // 8] ^= 1 << (bit % 8)
            assert not raw_verify(alg, pub, bytes(bad), sig), (alg, bit)
        assert not raw_verify(alg, pub, msg, sig + b"\0") and not raw_verify(alg, pub, msg, sig[:-1])
        assert not raw_verify(alg, pub, msg, b"")
        for ho in header_spellings({"alg": alg, "kid": "k/1 é"}, rng):
            h, p = verify_compact(sign_compact(alg, prv, ho, msg), pub)
            assert h == {"alg": alg, "kid": "k/1 é"} and p == msg
        ho = header_spellings({"alg": alg, "b64": False, "crit": ["b64"]}, rng)[2]
        assert verify_compact(sign_compact(alg, prv, ho, b"$02 raw", b64=False), pub)[1] == b"$02 raw"
        assert verify_compact(sign_compact(alg, prv, ho, b"a.b", b64=False, detached=True), pub, b"a.b")[1] == b"a.b"
        tok = sign_compact(alg, prv, b'{"alg":"%s"}' % alg.encode(), msg)
        for i in range(0, len(tok), max(1, len(tok) // 40)):   # a changed character anywhere in the token
            if tok[i] != ".":
                hi = chr(ord(tok[i]) ^ 1) if chr(ord(tok[i]) ^ 1) in _B64I else ("B" if tok[i] != "B" else "C")
                bad = tok[:i] + hi + tok[i + 1:]
                if b64u_dec(bad.split(".")[2]) == b64u_dec(tok.split(".")[2]) and bad.split(".")[:2] == tok.split(".")[:2]:
                    continue   # only the unused trailing bits of the last signature character changed
                _expect((RefBadSignature, ValueError), verify_compact, bad, pub)
        fl = sign_flattened(alg, prv, b'{"alg":"%s"}' % alg.encode(), {"kid": "u"}, msg)
        assert verify_json(fl, lambda i, h: pub) == ([{"alg": alg, "kid": "u"}], msg)
        fl = sign_flattened(alg, prv, None, {"alg": alg}, msg)
        assert "protected" not in fl and verify_json(fl, lambda i, h: pub)[1] == msg
        _expect(RefBadSignature, verify_json, dict(fl, payload=b64u_enc(msg + b"!")), lambda i, h: pub)
        fl = sign_flattened(alg, prv, ho, None, b"$.02", b64=False)
        assert fl["payload"] == "$.02" and "header" not in fl and verify_json(fl, lambda i, h: pub)[1] == b"$.02"
    gen = sign_general([(a, prv, b'{"alg":"%s"}' % a.encode(), {"i": i}) for i, (a, prv, _) in enumerate(keys)], b"multi")
    hs, p = verify_json(gen, lambda i, h: keys[h["i"]][2])
    assert p == b"multi" and [h["alg"] for h in hs] == [k[0] for k in keys]
    gen["signatures"][3], gen["signatures"][4] = gen["signatures"][4], gen["signatures"][3]
    assert verify_json(gen, lambda i, h: keys[h["i"]][2])[1] == b"multi"
    _expect(RefBadSignature, verify_json, gen, lambda i, h: keys[i][2])   # every signature must validate
    # ECDSA length strictness (RFC 7518 3.4) and PSS salt strictness (RFC 7518 3.5)
    by = {a: (prv, pub) for a, prv, pub in keys}
    for alg in ("ES256", "ES384", "ES512", "ES256K"):
        prv, pub = by[alg]
        L = ALG_PARAMS[alg]["L"]
        while True:   # find a signature whose r has a leading zero octet
            sig = raw_sign(alg, prv, b"m")
            if sig[0] == 0 or alg != "ES256":
                break
        assert len(sig) == 2 * L and raw_verify(alg, pub, b"m", sig)
        assert not raw_verify(alg, pub, b"m", b"\0" + sig) and not raw_verify(alg, pub, b"m", sig + b"\0")
        assert not raw_verify(alg, pub, b"m", sig[1:])   # stripped leading (zero) octet
        r, s = int.from_bytes(sig[:L], "big"), int.from_bytes(sig[L:], "big")
        assert not raw_verify(alg, pub, b"m", encode_dss_signature(r, s))   # DER is not a JWS signature
        assert not raw_verify(alg, pub, b"m", r.to_bytes(L + 1, "big") + s.to_bytes(L + 1, "big"))
        assert not raw_verify(alg, pub, b"m", bytes(2 * L))
        other = "ES384" if alg != "ES384" else "ES256"
        _expect(ValueError, raw_verify, other, pub, b"m", sig)
        _expect(ValueError, raw_sign, other, prv, b"m")
    for alg in ("PS256", "PS384", "PS512"):
        prv, pub = by[alg]
        h = _HASH[ALG_PARAMS[alg]["hash"]]()
        for salt in (0, padding.PSS.MAX_LENGTH, h.digest_size - 1):
            sig = load_private(prv).sign(b"m", padding.PSS(mgf=padding.MGF1(h), salt_length=salt), h)
            assert not raw_verify(alg, pub, b"m", sig), (alg, salt)
        sig = load_private(prv).sign(b"m", padding.PSS(mgf=padding.MGF1(hashes.SHA1()), salt_length=h.digest_size), h)
        assert not raw_verify(alg, pub, b"m", sig)   # MGF1 hash must equal the message hash
        assert not raw_verify(alg, pub, b"m", raw_sign("RS" + alg[2:], prv, b"m"))
        assert not raw_verify("RS" + alg[2:], pub, b"m", raw_sign(alg, prv, b"m"))
    # key/algorithm mismatch is a ValueError, not a bad signature
    _expect(ValueError, raw_verify, "HS256", by["RS256"][1], b"m", b"x" * 32)
    _expect(ValueError, raw_verify, "RS256", by["HS256"][1], b"m", b"x" * 256)
    _expect(ValueError, raw_verify, "EdDSA", by["ES256"][1], b"m", b"x" * 64)
    _expect(ValueError, raw_verify, "EdDSA", {"kty": "OKP", "crv": "X25519", "x": b64u_enc(bytes(32))}, b"m", b"x" * 64)
    _expect(ValueError, raw_verify, "none", by["HS256"][1], b"m", b"")
    # RSA private key given by d only
    prv, pub = by["RS256"]
    assert raw_verify("RS256", pub, b"m", raw_sign("RS256", {k: prv[k] for k in ("kty", "n", "e", "d")}, b"m"))
    # header processing
    k = _K_A1
    mk = lambda hb, pl=b"p", **kw: sign_compact("HS256", k, hb, pl, **kw)
    _expect(ValueError, verify_compact, mk(b'{"alg":"HS256","b64":false}', b64=False), k)            # b64 without crit
    _expect(ValueError, verify_compact, mk(b'{"alg":"HS256","b64":"false","crit":["b64"]}'), k)     # not a boolean
    _expect(ValueError, verify_compact, mk(b'{"alg":"HS256","crit":["b64"]}'), k)                   # crit name absent
    _expect(ValueError, verify_compact, mk(b'{"alg":"HS256","crit":[]}'), k)
    _expect(ValueError, verify_compact, mk(b'{"alg":"HS256","crit":["exp"],"exp":1}'), k)           # not understood
    _expect(ValueError, verify_compact, mk(b'{"alg":"none"}'), k)
    _expect(ValueError, verify_compact, mk(b'{"kid":"x"}'), k)
    _expect(ValueError, verify_compact, mk(b'["alg","HS256"]'), k)
    _expect(ValueError, verify_compact, mk(b'{"alg":"HS256",}'), k)
    _expect(ValueError, verify_compact, mk(b'{"alg":"HS256","x":NaN}'), k)
    _expect(ValueError, verify_compact, mk(b'{"alg":"HS256","x":"\xff"}'), k)
    _expect(ValueError, verify_compact, mk(b'{"alg":"HS256"}') + ".x", k)
    _expect(ValueError, verify_compact, "a.b", k)
    _expect(ValueError, verify_compact, mk(b'{"alg":"HS256"}'), k, b"p")                            # detached + segment
    assert verify_compact(mk(b'{"alg":"HS256","b64":true,"crit":["b64"]}'), k)[1] == b"p"
    assert verify_compact(mk(b'{"alg":"HS256","b64":true}'), k)[1] == b"p"
    assert verify_compact(mk(b'{"alg":"HS256"}', b""), k)[1] == b""
    _expect(RefBadSignature, verify_compact, mk(b'{"alg":"HS256"}', detached=True), k, b"q")
    _expect(RefBadSignature, verify_compact, mk(b'{"alg":"HS384"}'), k)                             # header alg decides
    one = lambda i, h: k
    fl = sign_flattened("HS256", k, b'{"alg":"HS256"}', {"alg": "HS256"}, b"p")
    _expect(ValueError, verify_json, fl, one)                                                       # not disjoint
    fl = sign_flattened("HS256", k, b'{"alg":"HS256"}', {"b64": False, "crit": ["b64"]}, b"p", b64=False)
    _expect(ValueError, verify_json, fl, one)                                                       # b64 unprotected
    fl = sign_flattened("HS256", k, b'{"alg":"HS256"}', {"b64": True}, b"p")
    _expect(ValueError, verify_json, fl, one)
    fl = sign_flattened("HS256", k, b'{"alg":"HS256"}', None, b"p")
    _expect(ValueError, verify_json, dict(fl, signatures=[]), one)
    _expect(ValueError, verify_json, dict(fl, signatures=[dict(fl)]), one)
    _expect(ValueError, verify_json, {"payload": fl["payload"], "signature": fl["signature"]}, one)
    _expect(ValueError, verify_json, {"payload": fl["payload"], "signatures": "x"}, one)
    _expect(ValueError, verify_json, {k2: v2 for k2, v2 in fl.items() if k2 != "payload"}, one)
    g = sign_general([("HS256", k, b'{"alg":"HS256"}', None)], b"$.02")
    g["signatures"].append(sign_flattened("HS256", k, b64u_dec(_H_B64F), None, b"$.02", b64=False))
    del g["signatures"][1]["payload"]
    _expect(ValueError, verify_json, g, one)                                                        # mixed b64 values
    return True


if __name__ == "__main__":
    self_test()
    print("c07_ref self_test ok: %d vectors, %d algorithms" % (len(RFC_VECTORS), len(ALG_PARAMS)))
