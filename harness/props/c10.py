"""C10 — claims validation accepts exactly the claim sets that satisfy the request.

Correspondence: JWTClaimsRegistry(now=, leeway=, **options).validate(claims) of /repo
against model/C10Claims.v:validate (vm_compute), on an exhaustive small universe
+ boundary sweep + random stream (including malformed requests and NaN/Infinity).
Direct oracle: `spec_accepts` / `spec_classes` below are a Python transcription of
the property statement (NOT of the code); the same cases also carry its verdicts
into Coq where they are compared with Spec `accepts` (model/C10Spec.v)."""
import collections, collections.abc, copy, itertools, json, math, time, types
from fractions import Fraction
import lib
from lib import c_str, c_Z, c_bool, c_list, c_opt, c_pv, c_exn, exn_class

OPT_KEYS = ("essential", "allow_blank", "value", "values")
ABSENT = object()


# --------------------------------------------------------------------------
# the Spec, transcribed from the property text (readings R1..R6 of C10Spec.v)
# --------------------------------------------------------------------------
def is_json(v):
    if v is None or isinstance(v, (bool, int, str)):
        return True
    if isinstance(v, float):
        return math.isfinite(v)
    if isinstance(v, list):
        return all(is_json(x) for x in v)
    if isinstance(v, dict):
        return all(isinstance(k, str) and is_json(x) for k, x in v.items())
    return False


def is_number(v):       # JSON number: true/false are not numbers
    return (isinstance(v, int) and not isinstance(v, bool)) or (isinstance(v, float) and math.isfinite(v))


def is_scalar(v):
    return isinstance(v, (str, bool, int)) or (isinstance(v, float) and math.isfinite(v))


def wf_option(o):
    if not isinstance(o, dict) or any(k not in OPT_KEYS for k in o):
        return False
    for k in ("essential", "allow_blank"):
        if k in o and not (o[k] is None or isinstance(o[k], bool)):
            return False
    if "value" in o and not (o["value"] is None or is_scalar(o["value"])):
        return False
    if "values" in o and not (o["values"] is None or (isinstance(o["values"], list) and all(is_scalar(x) for x in o["values"]))):
        return False
    return True


def same_scalar(r, v):
    """does claim value v equal the requested scalar r (R1: numbers by value, booleans are 0/1)"""
    if isinstance(r, str):
        return isinstance(v, str) and len(r) == len(v) and all(a == b for a, b in zip(r, v))
    if isinstance(v, bool) or is_number(v):
        return Fraction(r) == Fraction(v)
    return False


def blank_scalar(r):
    return r == "" if isinstance(r, str) else Fraction(r) == 0


def violated_clauses(now, lw, opts, claims, strict, builtin=True):
    """list of (clause, class) violated by claims; clause names follow the statement.
    now / leeway may be ints or (finite) floats: compared as exact rationals.
    builtin=False: a registry without built-in rules (ClaimsRegistry used directly): every claim,
    aud / exp / nbf / iat included, is judged by its request only."""
    now, lw = Fraction(now), Fraction(lw)
    out = []
    for name, o in opts.items():
        if o.get("essential") is True and claims.get(name) is None:
            out.append(("essential:" + name, "MissingClaimError"))
    for name, v in claims.items():
        o = opts.get(name)
        req = o if o else None                                   # R2: {} requests nothing
        if builtin and name in ("exp", "nbf", "iat"):
            if not is_number(v):
                out.append(("number:" + name, "InvalidClaimError"))
            else:
                x = Fraction(v)
                if name == "exp":
                    if x < now - lw or (strict and x == now - lw):
                        out.append(("exp-after", "ExpiredTokenError"))
                elif x > now + lw:
                    out.append((name + "-not-after", "InvalidTokenError"))
        if req is None:
            continue
        rv = req.get("value")
        rvs = req.get("values")
        if builtin and name == "aud":
            wanted = rvs if rvs is not None else ([] if rv is None or blank_scalar(rv) else [rv])   # R4
            have = v if isinstance(v, list) else [v]
            if wanted and not any(same_scalar(r, a) for r in wanted for a in have):
                out.append(("aud", "InvalidClaimError"))
            continue
        if rv is not None and not same_scalar(rv, v):
            out.append(("value:" + name, "InvalidClaimError"))
        if rvs is not None and not any(same_scalar(r, v) for r in rvs):
            out.append(("values:" + name, "InvalidClaimError"))
        if isinstance(v, str) and v == "" and req.get("allow_blank") is not True:
            out.append(("blank:" + name, "InvalidClaimError"))
    return out


def spec_accepts(now, lw, opts, claims, strict):
    return not violated_clauses(now, lw, opts, claims, strict)


def spec_classes(now, lw, opts, claims):
    """error classes the statement provides (missing first); exp = now-leeway may be Expired"""
    v = violated_clauses(now, lw, opts, claims, True)
    if any(c == "MissingClaimError" for _, c in v):
        return {"MissingClaimError"}
    return {c for _, c in v}


# --------------------------------------------------------------------------
# running the implementation
# --------------------------------------------------------------------------
def strict_same(a, b):
    if type(a) is not type(b):
        return False
    if isinstance(a, list):
        return len(a) == len(b) and all(strict_same(x, y) for x, y in zip(a, b))
    if isinstance(a, dict):
        return list(a) == list(b) and all(strict_same(a[k], b[k]) for k in a)
    if isinstance(a, float):
        return (math.isnan(a) and math.isnan(b)) or (a == b and math.copysign(1, a) == math.copysign(1, b))
    return a == b


class PlainMapping(collections.abc.Mapping):
    """a Mapping that is not a dict (claims given as any Mapping)"""
    def __init__(self, d):
        self._d = d

    def __getitem__(self, k):
        return self._d[k]

    def __iter__(self):
        return iter(self._d)

    def __len__(self):
        return len(self._d)


def make_registry(now, lw, opts, how="kw", base=False):
    from joserfc.rfc7519.registry import JWTClaimsRegistry, ClaimsRegistry, ClaimsOption
    if base:
        return ClaimsRegistry(**opts)
    if how == "positional":                       # now / leeway positional
        return JWTClaimsRegistry(now, **opts) if lw is None else JWTClaimsRegistry(now, lw, **opts)
    if how == "typed":                            # options built with the exported TypedDict
        opts = {k: ClaimsOption(**o) for k, o in opts.items()}
    if how == "jwt":                              # the name exported by joserfc.jwt
        from joserfc import jwt as _jwt
        cls = _jwt.JWTClaimsRegistry
    else:
        cls = JWTClaimsRegistry
    kw = {} if lw is None else {"leeway": lw}
    return cls(now=now, **kw, **opts)


def run_impl(now, lw, opts, claims, how="kw", wrap=None, base=False):
    """-> ("ok", None) | ("err", exc), plus whether claims/options were left unchanged"""
    c0, o0 = copy.deepcopy(claims), copy.deepcopy(opts)
    try:
        reg = make_registry(now, lw, opts, how, base)
        r = reg.validate(claims if wrap is None else wrap(claims))
        res = ("ok", r) if r is None else ("err", AssertionError("validate returned %r instead of None" % (r,)))
    except BaseException as e:  # noqa
        res = ("err", e)
    pure = strict_same(c0, claims) and strict_same(o0, opts)
    return res, pure


def cls_of(res):
    return None if res[0] == "ok" else exn_class(res[1])


def c_option(o):
    return "(O %s)" % " ".join(c_opt(o[k], c_pv) if k in o and o[k] is not None else ("(Some PNone)" if k in o else "None")
                               for k in OPT_KEYS)


def c_opts(opts):
    return c_list(["(%s, %s)" % (c_str(k), c_option(o)) for k, o in opts.items()])


def c_claims(claims):
    return c_list(["(%s, %s)" % (c_str(k), c_pv(v)) for k, v in claims.items()])


def rep(x):
    return json.dumps(x, default=repr)


# --------------------------------------------------------------------------
# generators
# --------------------------------------------------------------------------
VALUES = [None, True, False, 0, 1, -1, 2, 1.0, 0.0, -0.0, 1.5, 1e300, 2 ** 70, "", "a", "ab", "b", "1",
          [], ["a"], ["a", "b"], ["ab"], ["b", 1], [True], [""], [["a"]], [None], {}, {"a": 1}]
OPT_ESS = [ABSENT, True, False]
OPT_BLANK = [ABSENT, True, False]
OPT_VALUE_Q = [ABSENT, "a", "", 1, True, 0]
OPT_VALUE_T = [ABSENT, None, "a", "", "ab", 1, 0, True, False, 1.0, 1.5, 2]
OPT_VALUES_Q = [ABSENT, [], ["a", "b"], [1, ""]]
OPT_VALUES_T = [ABSENT, None, [], ["a"], ["a", "b"], [""], [1], [True], [0, "ab"], [1.5, "b"], [False, ""]]


def mk_opt(e, b, v, vs):
    o = {}
    for k, x in zip(OPT_KEYS, (e, b, v, vs)):
        if x is not ABSENT:
            o[k] = copy.deepcopy(x)
    return o


def option_shapes(ctx):
    if ctx.quick:
        return [mk_opt(*t) for t in itertools.product(OPT_ESS, OPT_BLANK, OPT_VALUE_Q, OPT_VALUES_Q)]
    return [mk_opt(*t) for t in itertools.product(OPT_ESS + [None], OPT_BLANK + [None], OPT_VALUE_T, OPT_VALUES_T)]


NOWS = [0, 1, 1000, 2 ** 40]
LEEWAYS = [0, 1, 60]
TIME_OPTS = lambda T: [None, {}, {"essential": True}, {"value": T}, {"value": T + 1}, {"values": [T]},   # noqa
                       {"values": [T - 1, float(T)]}, {"allow_blank": False}, {"value": float(T), "essential": False},
                       {"values": []}]


def time_reprs(T):
    """numeric representations of the instant T and its immediate float neighbours"""
    out = [T, float(T), T + 0.5, T - 0.5]
    return out


COLLIDING_NAMES = ["timestamp", "value", "values", "claims", "now", "leeway", "options", "essential_keys", "check_value",
                   "essential", "allow_blank", "_", "", " ", "aud ", " exp", "Exp", "AUD", "__class__", "__init__", "__dict__",
                   "validate", "validate_aud", "self", "numeric_time", "time", "date", "key", "kwargs", "func",
                   "\u00e9t\u00e9", "\u4e2d\u6587", "a b", "exp\u200b", "a.b", "nbf\n", "\U0001f600"]


def failing_units(now, lw):
    """(claim name, value or ABSENT, option or None, clause): one violated clause each"""
    return [
        ("sub", "x", {"value": "y"}, "value"),
        ("iss", "x", {"values": ["y", 0]}, "values"),
        ("jti", "", {"essential": False}, "blank"),
        ("aud", ["x", "z"], {"values": ["y"]}, "aud"),
        ("aud", "x", {"value": "y", "essential": True}, "aud"),
        ("exp", now - lw - 1, None, "expired"),
        ("exp", float(now - lw) - 0.5, {"essential": True}, "expired"),
        ("exp", "soon", None, "number"),
        ("exp", now - lw - 1, {"value": 0}, "expired+value"),
        ("nbf", now + lw + 1, None, "early"),
        ("nbf", True, None, "number"),
        ("nbf", now + lw + 1, {"values": ["q"]}, "early+values"),
        ("iat", now + lw + 1.5, None, "early"),
        ("iat", None, None, "number"),
        ("iat", now + lw + 2, {"value": 3}, "early+value"),
        ("priv", ABSENT, {"essential": True}, "missing"),
        ("priv", None, {"essential": True, "value": "v"}, "missing"),
        ("nonce", "", {"values": ["n"], "allow_blank": True}, "values"),
    ]


def gen_cases(ctx):
    """yields (tag, now, lw, opts, claims)"""
    rng = ctx.rng
    shapes = option_shapes(ctx)
    # 1. one claim x every value x every option shape (time does not matter: fixed now)
    names_full = ["sub", "aud"] if ctx.quick else ["sub", "aud", "priv"]
    for name in names_full:
        for v in VALUES:
            # quick: every shape with at most two members + a random 60 of the others (rotates with the seed)
            sel = shapes if not ctx.quick else ([o for o in shapes if len(o) <= 2] + rng.sample([o for o in shapes if len(o) > 2], 60))
            for o in sel:
                yield ("single", 1000, 0, {name: copy.deepcopy(o)}, {name: copy.deepcopy(v)})
    for name in ["iss", "jti", "priv", "", "validate", "aud "]:
        for v in VALUES:
            for o in rng.sample(shapes, ctx.scale(12, 100)):
                yield ("single", 1000, 0, {name: copy.deepcopy(o)}, {name: copy.deepcopy(v)})
    # the request names a claim that is absent / another claim
    for o in shapes:
        for claims in ({}, {"other": "a"}, {"sub": None, "other": ""}):
            yield ("absent", 1000, 0, {"sub": copy.deepcopy(o)}, copy.deepcopy(claims))
    # 2. time claims: every boundary offset x numeric representation x now x leeway
    for name in ("exp", "nbf", "iat"):
        for now in NOWS:
            for lw in LEEWAYS + [None]:
                L = 0 if lw is None else lw
                for T0 in (now - L - 1, now - L, now - L + 1, now + L - 1, now + L, now + L + 1):
                    for T in time_reprs(T0):
                        tops = TIME_OPTS(T0)
                        if ctx.quick:
                            tops = tops[:2] + rng.sample(tops[2:], 4 if T is T0 else 1)
                        for o in tops:
                            opts = {} if o is None else {name: o}
                            yield ("time", now, lw, opts, {name: T})
        # non-numbers and odd numbers as time claims
        for v in VALUES + [float("inf"), float("-inf"), float("nan"), "1000", 10 ** 30, -10 ** 30, 1e18, -1e300]:
            for o in (None, {}, {"essential": True}, {"value": 1}, {"values": [1, True]}, {"allow_blank": True},
                      {"value": "", "allow_blank": True}, {"value": True}):
                opts = {} if o is None else {name: o}
                yield ("time-type", 1, 1, copy.deepcopy(opts), {name: copy.deepcopy(v)})
    # huge now: float(T) differs from T
    for now in (2 ** 53 + 1, 2 ** 53 - 1, 2 ** 62 + 1, 10 ** 18, -5, -10 ** 18):
        for lw in (0, 1):
            for name in ("exp", "nbf", "iat"):
                for T in (now - lw, now + lw, float(now - lw), float(now + lw), now - lw - 1, now + lw + 1):
                    yield ("time-big", now, lw, {}, {name: T})
    # 2b. malformed requests (outside the Spec's domain: correspondence only): non-list `values`,
    # non-scalar `value`, non-boolean flags -- TypeError / substring / dict-key semantics of `in`
    bad_values = [5, 0, "abc", "", "a", {"a": 1}, {}, True, 1.5, [["a"]], [None, "a"], [[]]]
    bad_value = [["a"], [], {"a": 1}, {}, [1], None]
    bad_flag = [1, 0, "yes", "", [], [0], 1.5, {}]
    mal_values = VALUES if not ctx.quick else VALUES[:1] + VALUES[3:6] + VALUES[13:]
    for name in ("sub", "aud", "exp"):
        for v in mal_values:
            for bv in bad_values:
                yield ("malformed", 1, 1, {name: {"values": copy.deepcopy(bv)}}, {name: copy.deepcopy(v)})
            for bv in bad_value:
                yield ("malformed", 1, 1, {name: {"value": copy.deepcopy(bv)}}, {name: copy.deepcopy(v)})
        for bf in bad_flag:
            for v in ("", "a", None, 1):
                yield ("malformed", 1, 1, {name: {"allow_blank": copy.deepcopy(bf)}}, {name: v})
                yield ("malformed", 1, 1, {name: {"essential": copy.deepcopy(bf)}}, {name: v})
                yield ("malformed", 1, 1, {name: {"essential": copy.deepcopy(bf)}}, {})
    # 2c. claim names that collide with attributes / methods of the registry object or its dispatch:
    # unrequested -> ignored whatever the name; requested -> judged by the request only
    for name in COLLIDING_NAMES:
        for v in ("x", "", 0, None, [], 1.5, True):
            yield ("names", 1000, 5, {}, {name: copy.deepcopy(v)})
            yield ("names", 1000, 5, {"sub": {"essential": True}}, {"sub": "s", name: copy.deepcopy(v), "exp": 2000})
            if name not in ("now", "leeway", "self"):        # these cannot be passed as keyword options
                for o in ({"value": "x"}, {"values": ["x", 0]}, {"essential": True}, {"allow_blank": False}, {}):
                    yield ("names", 1000, 5, {name: copy.deepcopy(o)}, {name: copy.deepcopy(v)})
        if name not in ("now", "leeway", "self"):
            yield ("names", 1000, 5, {name: {"essential": True}}, {})
    # 2d. falsy-but-valid values everywhere: as claim, as `value`, inside `values`
    falsy = [0, 0.0, -0.0, False, "", [], {}]
    for name in ("sub", "aud", "priv"):
        for v in falsy + [None, 1, "a"]:
            for f in falsy:
                for blank in (ABSENT, True, False):
                    for o in ({"value": f}, {"values": [f]}, {"values": [f, "zz"]}, {"value": f, "essential": True},
                              {"value": f, "values": [f]}):
                        o = copy.deepcopy(o)
                        if blank is not ABSENT:
                            o["allow_blank"] = blank
                        if ctx.quick and rng.random() < 0.6:
                            continue
                        yield ("falsy", 0, 0, {name: o}, {name: copy.deepcopy(v)})
    for name in ("exp", "nbf", "iat"):
        for v in (0, 0.0, -0.0, False, ""):
            for o in (None, {"value": 0}, {"values": [0.0]}, {"value": False}, {"essential": True}, {"essential": False}):
                for now, lw in ((0, 0), (0, None), (1, 1)):
                    yield ("falsy", now, lw, {} if o is None else {name: o}, {name: v})
    # 2e. every ordered pair of failing clauses (which error wins), and three at once
    for now, lw in ((1000, 10), (0, 0)):
        units = failing_units(now, lw)
        for (ka, va, oa, _), (kb, vb, ob, _) in itertools.permutations(units, 2):
            if ka == kb:
                continue
            opts, claims = {}, {}
            for k, v, o in ((ka, va, oa), (kb, vb, ob)):
                if o is not None:
                    opts[k] = copy.deepcopy(o)
                if v is not ABSENT:
                    claims[k] = copy.deepcopy(v)
            yield ("pairs", now, lw, opts, claims)
        for _ in range(ctx.scale(150, 3000)):
            tri = rng.sample(units, 3)
            if len({u[0] for u in tri}) < 3:
                continue
            opts = {k: copy.deepcopy(o) for k, v, o, _ in tri if o is not None}
            claims = {k: copy.deepcopy(v) for k, v, o, _ in tri if v is not ABSENT}
            yield ("pairs", now, lw, opts, claims)
    # 3. several claims, several requests, shuffled order (precedence of errors)
    names = ["iss", "sub", "aud", "exp", "nbf", "iat", "jti", "priv"]

    def rnd_value(name, now, lw):
        if name in ("exp", "nbf", "iat") and rng.random() < 0.8:
            T0 = rng.choice([now - lw - 1, now - lw, now - lw + 1, now + lw - 1, now + lw, now + lw + 1, now, now + 500, now - 500])
            return rng.choice([T0, T0, float(T0), T0 + 0.5])
        return copy.deepcopy(rng.choice(VALUES))

    def rnd_opt(wf=True):
        pick = lambda l: rng.choice(l)   # noqa
        o = mk_opt(pick(OPT_ESS + [ABSENT]), pick(OPT_BLANK + [ABSENT, ABSENT]), pick(OPT_VALUE_T + [ABSENT] * 6),
                   pick(OPT_VALUES_T + [ABSENT] * 8))
        if not wf:
            k = rng.choice(OPT_KEYS)
            o[k] = copy.deepcopy(rng.choice(
                [1, 0, "x", "", "ab", [], [1], ["a"], {}, {"a": 1}, 1.5, None, True, [["a"]], [None], "a", 5, 0.0]))
        return o

    for i in range(ctx.scale(4000, 60000)):
        now = rng.choice(NOWS + [rng.randrange(0, 2 ** 33), -7])
        lw = rng.choice(LEEWAYS + [None, rng.randrange(0, 1000), -2])
        L = 0 if lw is None else lw
        cn = rng.sample(names, rng.randrange(0, 6))
        claims = {n: rnd_value(n, now, L) for n in cn}
        on = rng.sample(names, rng.randrange(0, 4))
        wf = rng.random() < 0.8
        opts = {n: rnd_opt(wf or rng.random() < 0.5) for n in on}
        # make satisfied requests frequent: copy claim values into the request
        for n in on:
            if n in claims and is_scalar(claims[n]) and rng.random() < 0.5:
                if rng.random() < 0.5:
                    opts[n]["value"] = claims[n]
                else:
                    opts[n]["values"] = [rng.choice(["zz", 7]), claims[n]]
            if n == "aud" and isinstance(claims.get(n), list) and claims[n] and is_scalar(claims[n][0]) and rng.random() < 0.5:
                opts[n]["values"] = ["zz", claims[n][0]]
        yield ("random" if wf else "random-malformed", now, lw, opts, claims)


# --------------------------------------------------------------------------
def check_one(ctx, tag, now, lw, opts, claims, dist):
    """runs the implementation on one input, applies the direct oracle; returns the Coq case term"""
    L = 0 if lw is None else lw
    o_rep, c_rep = rep(opts), rep(claims)
    res, pure = run_impl(now, lw, opts, claims)
    cls = None if res[0] == "ok" else exn_class(res[1])
    replay = {"now": now, "leeway": lw, "options": o_rep, "claims": c_rep,
              "impl": "returned" if cls is None else cls}
    if not pure:
        ctx.violation({"kind": "claims-modified"},
                      "validate(now=%r, leeway=%r) modified its arguments: options %s -> %s, claims %s -> %s"
                      % (now, lw, o_rep, rep(opts), c_rep, rep(claims)), replay)
        opts, claims = json.loads(o_rep, parse_constant=float), json.loads(c_rep, parse_constant=float)
    dom, acc_s, acc_l = judge(ctx, tag, now, lw, opts, claims, cls, replay)
    variants(ctx, tag, now, lw, opts, claims, cls, replay)
    dist[tag] = dist.get(tag, 0) + 1
    dist["outcome:" + (cls or "ok")] = dist.get("outcome:" + (cls or "ok"), 0) + 1
    ctx.note_case((now, lw, o_rep, c_rep))
    expect = "(Ok tt)" if cls is None else "(Err %s)" % c_exn(cls)
    return cls or "returned", "CVal %s %s %s %s %s %s %s %s" % (c_Z(now), c_opt(lw, c_Z), c_opts(opts), c_claims(claims), expect,
                                                                c_bool(dom), c_bool(acc_s), c_bool(acc_l))


def judge(ctx, tag, now, lw, opts, claims, cls, replay):
    """the direct oracle: the implementation's verdict `cls` (None = returned) against the statement"""
    L = 0 if lw is None else lw
    dom = all(wf_option(o) for o in opts.values()) and all(is_json(v) for v in claims.values())
    acc_s = acc_l = False
    if dom:
        acc_s = spec_accepts(now, L, opts, claims, True)
        acc_l = spec_accepts(now, L, opts, claims, False)
        viol = violated_clauses(now, L, opts, claims, False)
        if cls is None and not acc_l:
            clause = viol[0][0].split(":")[0]
            ctx.violation({"kind": "accepted-but-unsatisfied", "clause": clause},
                          "validate(now=%r, leeway=%r, options=%s) ACCEPTED claims %s although clause %r of the statement is violated"
                          % (now, lw, rep(opts), rep(claims), viol[0][0]), dict(replay, clause=viol[0][0]))
        elif cls is not None and acc_s:
            ctx.violation({"kind": "rejected-but-satisfied", "raised": cls},
                          "validate(now=%r, leeway=%r, options=%s) raised %s on claims %s which satisfy every clause of the statement"
                          % (now, lw, rep(opts), cls, rep(claims)), replay)
        elif cls is not None:
            allowed = spec_classes(now, L, opts, claims)
            if not cls.startswith("EJose ") or cls.split(" ", 1)[1] not in allowed:
                ctx.violation({"kind": "wrong-error-class", "raised": cls, "expected": sorted(allowed)},
                              "validate(now=%r, leeway=%r, options=%s) raised %s on claims %s; the violated clauses call for %s"
                              % (now, lw, rep(opts), cls, rep(claims), sorted(allowed)), replay)
        # unrequested claims without a built-in rule are ignored
        extra = {k: v for k, v in claims.items() if k not in ("aud", "exp", "nbf", "iat") and k not in opts}
        if extra or tag == "single":
            if extra:
                c2 = {k: copy.deepcopy(v) for k, v in claims.items() if k not in extra}
            else:
                c2 = dict(copy.deepcopy(claims)); c2["unrequested"] = ""; c2 = dict(reversed(list(c2.items())))
            r2, _ = run_impl(now, lw, opts, c2)
            cls2 = None if r2[0] == "ok" else exn_class(r2[1])
            if cls2 != cls:
                ctx.violation({"kind": "unrequested-claim-matters"},
                              "claims without request or built-in rule changed the verdict: %s -> %s, %s -> %s (options %s)"
                              % (rep(claims), cls or "returned", rep(c2), cls2 or "returned", rep(opts)),
                              dict(replay, claims2=rep(c2)))
    return dom, acc_s, acc_l


VARIANT_COUNT = {}


def variants(ctx, tag, now, lw, opts, claims, cls, replay):
    """the other public ways to reach the same validation must give the same verdict:
    positional now/leeway, options built with ClaimsOption, joserfc.jwt.JWTClaimsRegistry,
    claims given as OrderedDict / read-only mappingproxy / a Mapping that is not a dict"""
    ways = [("positional", "positional", None), ("ClaimsOption", "typed", None), ("jwt.JWTClaimsRegistry", "jwt", None),
            ("OrderedDict", "kw", collections.OrderedDict), ("mappingproxy", "kw", types.MappingProxyType),
            ("Mapping", "kw", PlainMapping)]
    # all of them on the directed streams, a rotating one elsewhere
    if tag in ("single", "time", "absent", "malformed", "random-malformed"):
        n = VARIANT_COUNT["_rot"] = VARIANT_COUNT.get("_rot", 0) + 1
        ways = [ways[n % len(ways)]]
    for label, how, wrap in ways:
        if how == "typed" and not all(isinstance(o, dict) for o in opts.values()):
            continue
        r2, pure2 = run_impl(now, lw, opts, claims, how=how, wrap=wrap)
        VARIANT_COUNT[label] = VARIANT_COUNT.get(label, 0) + 1
        if cls_of(r2) != cls or not pure2:
            ctx.violation({"kind": "entry-point-differs", "entry": label},
                          "validation reached through %s gives %s, through JWTClaimsRegistry(now=, leeway=, **options).validate(dict) %s "
                          "(now=%r leeway=%r options=%s claims=%s)%s"
                          % (label, cls_of(r2) or "returned", cls or "returned", now, lw, replay["options"], replay["claims"],
                             "" if pure2 else " and modifies its arguments"),
                          dict(replay, entry=label, impl_entry=cls_of(r2) or "returned"))


def check_one_base(ctx, opts, claims, dist):
    """ClaimsRegistry(**opts).validate(claims): no built-in rule at all"""
    o_rep, c_rep = rep(opts), rep(claims)
    res, pure = run_impl(None, None, opts, claims, base=True)
    cls = cls_of(res)
    replay = {"entry": "ClaimsRegistry", "now": 0, "leeway": 0, "options": o_rep, "claims": c_rep, "impl": cls or "returned"}
    if not pure:
        ctx.violation({"kind": "claims-modified", "entry": "ClaimsRegistry"},
                      "ClaimsRegistry(**%s).validate modified its arguments: claims %s -> %s" % (o_rep, c_rep, rep(claims)), replay)
        opts, claims = json.loads(o_rep, parse_constant=float), json.loads(c_rep, parse_constant=float)
    dom = all(wf_option(o) for o in opts.values()) and all(is_json(v) for v in claims.values())
    acc = False
    if dom:
        viol = violated_clauses(0, 0, opts, claims, False, builtin=False)
        acc = not viol
        allowed = {"MissingClaimError"} if any(c == "MissingClaimError" for _, c in viol) else {c for _, c in viol}
        if (cls is None) != acc or (cls is not None and (not cls.startswith("EJose ") or cls.split(" ", 1)[1] not in allowed)):
            ctx.violation({"kind": "base-registry-verdict", "raised": cls or "returned"},
                          "ClaimsRegistry(**%s).validate(%s): %s; the requests alone (no built-in rule) call for %s"
                          % (o_rep, c_rep, cls or "returned", "acceptance" if acc else sorted(allowed)), replay)
    dist["base"] = dist.get("base", 0) + 1
    ctx.note_case(("base", o_rep, c_rep))
    expect = "(Ok tt)" if cls is None else "(Err %s)" % c_exn(cls)
    return cls or "returned", "CBase %s %s %s %s %s" % (c_opts(opts), c_claims(claims), expect, c_bool(dom), c_bool(acc))


def gen_base(ctx):
    rng = ctx.rng
    shapes = option_shapes(ctx)
    for name in ("sub", "aud", "exp", "iat", "now", "leeway", "options", "validate"):
        for v in VALUES:
            for o in rng.sample(shapes, ctx.scale(6, 60)):
                yield {name: copy.deepcopy(o)}, {name: copy.deepcopy(v)}
        yield {name: {"essential": True}}, {}
        yield {name: {"essential": True}}, {name: None}
        yield {}, {name: "x"}
    names = ["aud", "exp", "nbf", "iat", "sub", "now", "leeway", "timestamp"]
    for _ in range(ctx.scale(400, 8000)):
        cn = rng.sample(names, rng.randrange(0, 5))
        claims = {n: copy.deepcopy(rng.choice(VALUES)) for n in cn}
        opts = {n: copy.deepcopy(rng.choice(shapes)) for n in rng.sample(names, rng.randrange(0, 4))}
        for n in opts:
            if n in claims and is_scalar(claims[n]) and rng.random() < 0.5:
                opts[n]["value"] = claims[n]
        yield opts, claims


def check_histories(ctx, pool, dist):
    """one registry object validating several claims sets in sequence: each verdict is that of a
    fresh registry, whatever was validated before; two registries built with different options
    do not influence each other; no default-argument / class-level aliasing.  -> CSeq terms"""
    from joserfc.rfc7519.registry import JWTClaimsRegistry
    rng = ctx.rng
    terms, metas = [], []
    seqs = []
    # directed: a claims set failing one clause, then sets lying exactly on every boundary of the
    # same registry (any now / leeway / option remembered or altered by the failure shows), then the failing set again
    for now, lw in ((1000, 10), (0, 0), (5, 60)):
        for k, v, o, _ in failing_units(now, lw):
            opts = {} if o is None else {k: copy.deepcopy(o)}
            bad = {} if v is ABSENT else {k: copy.deepcopy(v)}
            edge = [{"exp": now - lw}, {"nbf": now + lw}, {"iat": now + lw}, {"exp": now - lw - 1}, {"nbf": now + lw + 1},
                    {"exp": now - lw, "nbf": now + lw, "iat": float(now + lw), "sub": "y", "aud": "y", "priv": "v"}, {}]
            seqs.append((now, lw, opts, [bad] + edge + [copy.deepcopy(bad)] + [dict(e) for e in edge[:3]]))
    for _ in range(ctx.scale(150, 3000)):
        now, lw, opts, _c = rng.choice(pool)
        lw = 0 if lw is None else lw
        h = [copy.deepcopy(_c)] + [copy.deepcopy(rng.choice(pool)[3]) for _ in range(rng.randrange(1, 6))]
        rng.shuffle(h)
        seqs.append((now, lw, opts, h))
    for now, lw, opts, h in seqs:
        fresh = [cls_of(run_impl(now, lw, copy.deepcopy(opts), copy.deepcopy(c))[0]) for c in h]
        o_rep = rep(opts)
        try:
            reg = JWTClaimsRegistry(now=now, leeway=lw, **opts)
            # another registry with other options is built and used in between
            now2, lw2, opts2, c2 = rng.choice(pool)
            other = JWTClaimsRegistry(now=now2, leeway=lw2 or 0, **copy.deepcopy(opts2))
        except BaseException:  # noqa  (malformed options rejected by the constructor: nothing to sequence)
            continue
        state0 = (reg.now, reg.leeway, rep(reg.options), sorted(reg.essential_keys))
        got = []
        for c in h:
            try:
                other.validate(copy.deepcopy(c2))
            except BaseException:  # noqa
                pass
            try:
                r = reg.validate(c); got.append(None if r is None else "EAssert")
            except BaseException as e:  # noqa
                got.append(exn_class(e))
        back = []
        for c in reversed(h):
            try:
                r = reg.validate(c); back.append(None if r is None else "EAssert")
            except BaseException as e:  # noqa
                back.append(exn_class(e))
        back.reverse()
        state1 = (reg.now, reg.leeway, rep(reg.options), sorted(reg.essential_keys))
        ctx.note_case(("history", now, lw, o_rep, rep(h)))
        dist["history"] = dist.get("history", 0) + 1
        if got != fresh or back != fresh or state0 != state1 or rep(opts) != o_rep:
            ctx.violation({"kind": "validation-keeps-state"},
                          "one JWTClaimsRegistry(now=%r, leeway=%r, **%s) validating %s in sequence gave %s, in reverse order %s, "
                          "fresh registries give %s; registry state %s -> %s"
                          % (now, lw, o_rep, rep(h), got, back, fresh, state0, state1),
                          {"now": now, "leeway": lw, "options": o_rep, "claims": rep(h[0]), "history": rep(h),
                           "impl": str(got), "fresh": str(fresh)})
        terms.append("CSeq %s %s %s %s %s" % (c_Z(now), c_Z(lw), c_opts(opts), c_list([c_claims(c) for c in h]),
                                              c_list(["(Ok tt)" if g is None else "(Err %s)" % c_exn(g) for g in got])))
        metas.append(("history", now, lw, o_rep, rep(h), str(got)))
    # aliasing of defaults / class-level state
    a = JWTClaimsRegistry(now=5)
    b = JWTClaimsRegistry(now=5, sub={"essential": True}, iss={"value": "i"})
    c = JWTClaimsRegistry(now=5)
    probs = []
    if a.options is b.options or a.options is c.options or a.essential_keys is b.essential_keys or a.essential_keys is c.essential_keys:
        probs.append("options / essential_keys objects shared between registries")
    if a.options != {} or c.options != {} or set(a.essential_keys) or set(c.essential_keys):
        probs.append("a registry built without options has options %r / essential keys %r" % (c.options, c.essential_keys))
    for r in (a, c):
        try:
            r.validate({"iss": "other"})
        except BaseException as e:  # noqa
            probs.append("a registry built without options raised %s on {'iss': 'other'} after another registry was built" % exn_class(e))
    ctx.note_case(("aliasing",))
    for pr in probs:
        ctx.violation({"kind": "registries-share-state"}, pr,
                      {"now": 5, "leeway": None, "options": "{}", "claims": rep({"iss": "other"}), "impl": pr})
    return terms, metas


def check_methods(ctx, pool, dist):
    """the public methods called directly: reg.validate_<k>(v) and reg.check_value(k, v) -> CMethod / CCheckValue terms"""
    from joserfc.rfc7519.registry import JWTClaimsRegistry
    rng = ctx.rng
    terms, metas = [], []
    singles = [t for t in pool if len(t[3]) == 1]
    for now, lw, opts, claims in rng.sample(singles, min(len(singles), ctx.scale(2500, 40000))):
        (k, v), = claims.items()
        lw = 0 if lw is None else lw
        try:
            reg = JWTClaimsRegistry(now=now, leeway=lw, **copy.deepcopy(opts))
        except BaseException:  # noqa
            continue
        v2 = copy.deepcopy(v)
        builtin = k in ("aud", "exp", "nbf", "iat")
        try:
            r = getattr(reg, "validate_" + k)(v2) if builtin else reg.check_value(k, v2)
            got = None if r is None else "EAssert"
        except BaseException as e:  # noqa
            got = exn_class(e)
        # direct oracle: with nothing essential missing, validate({k: v}) is this very call
        whole = cls_of(run_impl(now, lw, copy.deepcopy(opts), {k: copy.deepcopy(v)})[0])
        o_rep, c_rep = rep(opts), rep(claims)
        ctx.note_case(("method", now, lw, o_rep, c_rep))
        dist["method"] = dist.get("method", 0) + 1
        if whole != "EJose MissingClaimError" and whole != got:
            ctx.violation({"kind": "method-differs", "method": ("validate_" + k) if builtin else "check_value"},
                          "reg.%s(%s) gives %s but reg.validate(%s) gives %s (now=%r leeway=%r options=%s)"
                          % (("validate_%s" % k) if builtin else "check_value(%r, .)" % k, rep(v), got or "returned", c_rep,
                             whole or "returned", now, lw, o_rep),
                          {"now": now, "leeway": lw, "options": o_rep, "claims": c_rep, "impl": whole or "returned"})
        expect = "(Ok tt)" if got is None else "(Err %s)" % c_exn(got)
        if builtin:
            terms.append("CMethod %s %s %s %s %s %s" % (c_Z(now), c_Z(lw), c_opts(opts), c_str(k), c_pv(v), expect))
        else:
            terms.append("CCheckValue %s %s %s %s" % (c_opts(opts), c_str(k), c_pv(v), expect))
        metas.append(("method", now, lw, o_rep, c_rep, got or "returned"))
    return terms, metas


def check_subclasses(ctx, pool, dist):
    """ClaimsRegistry / JWTClaimsRegistry subclassed with an extra validate_<name> method: the method is
    called exactly once with the claim's value, in the claim's turn; everything else is unchanged"""
    from joserfc.rfc7519.registry import JWTClaimsRegistry, ClaimsRegistry
    from joserfc.errors import InvalidClaimError
    rng = ctx.rng
    calls = []

    def hook(self, value):
        calls.append(value)
        if value != "t1":
            raise InvalidClaimError("tenant")

    SubJ = type("SubJ", (JWTClaimsRegistry,), {"validate_tenant": hook})
    SubB = type("SubB", (ClaimsRegistry,), {"validate_tenant": hook})

    def no_essential(opts):
        return {k: ({**o, "essential": False} if o.get("essential") else dict(o)) for k, o in opts.items()}

    cand = [t for t in pool if all(isinstance(o, dict) for o in t[2].values()) and "tenant" not in t[3]]
    for now, lw, opts, claims in rng.sample(cand, min(len(cand), ctx.scale(600, 10000))):
        lw = 0 if lw is None else lw
        for base in (False, True):
            if base and ("now" in opts or "leeway" in opts):
                continue
            items = list(copy.deepcopy(claims).items())
            pos = rng.randrange(0, len(items) + 1)
            tv = rng.choice(["t1", "t1", "t2", 0, None, ["t1"]])
            full = dict(items[:pos] + [("tenant", tv)] + items[pos:])
            o2 = copy.deepcopy(opts)
            if rng.random() < 0.3:
                o2["tenant"] = rng.choice([{"value": "zz"}, {"essential": True}, {"allow_blank": False, "values": []}])
            # expectation, composed from the parent class on the other claims
            def parent(c, o):
                return cls_of(run_impl(now, lw, copy.deepcopy(o), copy.deepcopy(c), base=base)[0])
            missing = parent(dict(items), opts) == "EJose MissingClaimError" or                 (o2.get("tenant", {}).get("essential") is True and tv is None)
            if missing:
                want, want_calls = "EJose MissingClaimError", []
            else:
                ne = no_essential(opts)
                pre = parent(dict(items[:pos]), ne)
                if pre is not None:
                    want, want_calls = pre, []
                elif tv != "t1":
                    want, want_calls = "EJose InvalidClaimError", [tv]
                else:
                    want, want_calls = parent(dict(items[pos:]), ne), [tv]
            del calls[:]
            try:
                reg = SubB(**o2) if base else SubJ(now=now, leeway=lw, **o2)
                r = reg.validate(full); got = None if r is None else "EAssert"
            except BaseException as e:  # noqa
                got = exn_class(e)
            ctx.note_case(("subclass", base, now, lw, rep(o2), rep(full)))
            dist["subclass"] = dist.get("subclass", 0) + 1
            if got != want or [rep(x) for x in calls] != [rep(x) for x in want_calls]:
                ctx.violation({"kind": "subclass-dispatch", "base": "ClaimsRegistry" if base else "JWTClaimsRegistry"},
                              "a subclass of %s with a validate_tenant method, options %s, claims %s: verdict %s, validate_tenant called with %s; "
                              "expected %s and calls %s" % ("ClaimsRegistry" if base else "JWTClaimsRegistry(now=%r, leeway=%r)" % (now, lw),
                                                           rep(o2), rep(full), got or "returned", rep(calls), want or "returned", rep(want_calls)),
                              {"now": now, "leeway": lw, "options": rep(opts), "claims": rep(dict(items)), "subclass_claims": rep(full),
                               "impl": got or "returned"})


def check_via_token(ctx, pool, dist):
    """jwt.decode(...) followed by claims_requests.validate(token.claims): same verdict as on the claims themselves"""
    from joserfc import jwt
    from joserfc.jwk import OctKey
    rng = ctx.rng
    key = OctKey.import_key("c10-secret-c10-secret-c10-secret-0123456789")
    cand = [t for t in pool if all(is_json(v) for v in t[3].values())]
    unavailable = 0
    for now, lw, opts, claims in rng.sample(cand, min(len(cand), ctx.scale(300, 5000))):
        direct = cls_of(run_impl(now, lw, copy.deepcopy(opts), copy.deepcopy(claims))[0])
        try:
            tok = jwt.encode({"alg": "HS256"}, copy.deepcopy(claims), key)
            token = jwt.decode(tok, key)
        except BaseException:  # noqa  -- the token layer is other properties' subject (C09): counted, not judged here
            unavailable += 1
            continue
        try:
            reg = jwt.JWTClaimsRegistry(now=now, **({} if lw is None else {"leeway": lw}), **copy.deepcopy(opts))
            r = reg.validate(token.claims); got = None if r is None else "EAssert"
        except BaseException as e:  # noqa
            got = exn_class(e)
        ctx.note_case(("via-token", now, lw, rep(opts), rep(claims)))
        dist["via-token"] = dist.get("via-token", 0) + 1
        if got != direct and strict_same(token.claims, claims):
            ctx.violation({"kind": "entry-point-differs", "entry": "jwt.decode + validate(token.claims)"},
                          "validate(token.claims) after jwt.decode gives %s, validate(claims) %s (now=%r leeway=%r options=%s claims=%s)"
                          % (got or "returned", direct or "returned", now, lw, rep(opts), rep(claims)),
                          {"now": now, "leeway": lw, "options": rep(opts), "claims": rep(claims), "impl": direct or "returned"})
    dist["via-token-unavailable"] = unavailable


def check_float_clock(ctx, dist):
    """now / leeway given as floats (and 0.0, negative): the statement with exact rational arithmetic
    (implementation only; every number used is a multiple of 1/4, so now-leeway is exact)"""
    for now in (0.0, 1000.0, 1000.5, -3.25, 0, 1000):
        for lw in (0, 0.0, 0.5, 1.5, 60, -1, None):
            if isinstance(now, int) and (lw is None or isinstance(lw, int)):
                continue
            L = 0 if lw is None else lw
            for name in ("exp", "nbf", "iat"):
                for base in (now - L, now + L):
                    for d in (-1, -0.25, 0, 0.25, 1):
                        for T in [base + d] + ([int(base + d)] if float(base + d).is_integer() and not isinstance(base + d, int) else []):
                            for o in (None, {"value": T}, {"essential": True, "values": [0]}):
                                opts = {} if o is None else {name: o}
                                claims = {name: T}
                                res, pure = run_impl(now, lw, opts, claims)
                                cls = cls_of(res)
                                replay = {"now": now, "leeway": lw, "options": rep(opts), "claims": rep(claims), "impl": cls or "returned"}
                                judge(ctx, "float-clock", now, lw, opts, claims, cls, replay)
                                ctx.note_case(("float-clock", now, lw, rep(opts), rep(claims)))
                                dist["float-clock"] = dist.get("float-clock", 0) + 1


KNOWN_CLASSES = {"ClaimsRegistry", "JWTClaimsRegistry"}
KNOWN_METHODS = {"validate", "check_value", "validate_aud", "validate_exp", "validate_nbf", "validate_iat"}
KNOWN_OTHER = {"check_sensitive_data",        # InsecureClaimError screening before encoding: not validation against a request
               "convert_claims", "encode", "decode", "Token", "Claims", "ClaimsOption"}


def scan_entry_points(ctx):
    """fail closed on public validating entries this check does not know"""
    import inspect
    from joserfc import jwt
    from joserfc.rfc7519 import registry as reg_mod, claims as claims_mod
    import joserfc.rfc7519 as pkg
    seen, unknown = [], []
    names = [(jwt, n) for n in jwt.__all__]
    for mod in (reg_mod, claims_mod, pkg):
        for n in getattr(mod, "__all__", None) or [n for n in vars(mod) if not n.startswith("_")]:
            obj = getattr(mod, n, None)
            if getattr(obj, "__module__", "").startswith("joserfc.rfc7519"):
                names.append((mod, n))
    for mod, n in names:
        obj = getattr(mod, n)
        if inspect.isclass(obj) and (callable(getattr(obj, "validate", None)) or any(a.startswith("validate_") for a in dir(obj))):
            seen.append("%s.%s" % (mod.__name__, n))
            if obj.__name__ not in KNOWN_CLASSES:
                unknown.append("%s.%s (class with validate)" % (mod.__name__, n))
            for a in dir(obj):
                if not a.startswith("_") and callable(getattr(obj, a)) and a not in KNOWN_METHODS:
                    unknown.append("%s.%s.%s (public method)" % (mod.__name__, n, a))
        elif inspect.isfunction(obj) and any(w in n.lower() for w in ("valid", "check", "verify", "claim")):
            seen.append("%s.%s" % (mod.__name__, n))
            if n not in KNOWN_OTHER:
                unknown.append("%s.%s (function)" % (mod.__name__, n))
        elif n not in KNOWN_OTHER and n not in KNOWN_CLASSES and not n.isupper() and not inspect.ismodule(obj) \
                and getattr(obj, "__module__", "").startswith("joserfc.rfc7519"):
            unknown.append("%s.%s (public name of rfc7519)" % (mod.__name__, n))
    ctx.coverage["entry_points"] = {"validating_entries_seen": sorted(set(seen)), "unknown": sorted(set(unknown)),
                                    "exercised": ["JWTClaimsRegistry(now=, leeway=, **opts).validate(dict)", "positional now/leeway",
                                                  "ClaimsOption-built options", "joserfc.jwt.JWTClaimsRegistry", "OrderedDict / mappingproxy / Mapping claims",
                                                  "ClaimsRegistry(**opts).validate", "subclasses with an extra validate_<name>",
                                                  "reg.validate_aud/exp/nbf/iat(v) and reg.check_value(k, v) directly",
                                                  "jwt.decode + validate(token.claims)", "now omitted / None (clock)", "float now / leeway"]}
    for u in sorted(set(unknown)):
        ctx.violation({"kind": "unknown-entry-point", "entry": u},
                      "public entry %s is not in the table of claims-validation entries this check exercises" % u,
                      {"entry": u, "no_failing_input_found": True, "broken": "entry-point table of harness/props/c10.py"})


def check_time_numbers(ctx, now, lw, name, T):
    """never-accept laws stated directly: exp < now-leeway, nbf/iat > now+leeway, any numeric representation"""
    res, _ = run_impl(now, lw, {}, {name: T})
    bad = (name == "exp" and Fraction(T) < now - lw) or (name != "exp" and Fraction(T) > now + lw)
    if bad and res[0] == "ok":
        ctx.violation({"kind": "stale-token-accepted", "claim": name},
                      "%s=%r accepted at now=%r leeway=%r" % (name, T, now, lw),
                      {"now": now, "leeway": lw, "options": "{}", "claims": rep({name: T}), "impl": "returned"})


def check_current_time(ctx):
    """with no explicit now the current time is used (implementation only): the instant taken is
    bracketed exactly by two clock readings, the probes lie 300 s outside the bracket"""
    from joserfc.rfc7519.registry import JWTClaimsRegistry
    from joserfc import errors
    for leeway in (None, 10):
        for explicit_none in (False, True):
            kw = {} if leeway is None else {"leeway": leeway}
            t0 = int(time.time())
            reg = JWTClaimsRegistry(now=None, **kw) if explicit_none else JWTClaimsRegistry(**kw)
            t1 = int(time.time())
            ok_now = isinstance(reg.now, int) and not isinstance(reg.now, bool) and t0 <= reg.now <= t1
            probes = [({"exp": t0 - 300}, errors.ExpiredTokenError), ({"exp": t1 + 300}, None),
                      ({"nbf": t1 + 300}, errors.InvalidTokenError), ({"nbf": t0 - 300}, None),
                      ({"iat": t1 + 300}, errors.InvalidTokenError), ({"iat": t0 - 300}, None)]
            for claims, want in probes:
                try:
                    reg.validate(dict(claims)); got = None
                except Exception as e:  # noqa
                    got = type(e)
                ctx.note_case(("now=None", leeway, sorted(claims), explicit_none, want and want.__name__))
                if not ok_now or got is not want:
                    ctx.violation({"kind": "current-time-not-used"},
                                  "JWTClaimsRegistry(now omitted/None, leeway=%r): now=%r, clock %d..%d; claims %s -> %s, expected %s"
                                  % (leeway, reg.now, t0, t1, rep(claims), got and got.__name__, want and want.__name__),
                                  {"now": None, "leeway": leeway, "options": "{}", "claims": rep(claims),
                                   "offset_from_current_time": {k: v - t0 for k, v in claims.items()},
                                   "impl": got.__name__ if got else "returned"})


def check_patched_clock(ctx, dist):
    """now omitted with the module's clock patched to a fixed instant: the instant used is its integer part,
    and every time boundary is judged against it (exact, no slack)"""
    from joserfc.rfc7519 import registry as reg_mod
    from joserfc.rfc7519.registry import JWTClaimsRegistry
    real = getattr(reg_mod, "time", None)
    if real is None or not hasattr(real, "time"):
        ctx.notes.append("patched-clock probe skipped: joserfc.rfc7519.registry has no module-level `time`")
        return

    class Clock:
        def __init__(self, t):
            self.t = t

        def time(self):
            return self.t

        def __getattr__(self, n):
            return getattr(real, n)
    for t in (1234567.9, 1234567.0, 0.4, 86400.999):
        T = int(t)
        for lw in (None, 0, 7):
            L = lw or 0
            reg_mod.time = Clock(t)
            try:
                regs = [JWTClaimsRegistry(**({} if lw is None else {"leeway": lw})),
                        JWTClaimsRegistry(None, **({} if lw is None else {"leeway": lw}))]
            finally:
                reg_mod.time = real
            for reg in regs:
                probes = [({"exp": T - L - 1}, "EJose ExpiredTokenError"), ({"exp": T - L + 1}, None), ({"exp": T - L + 0.5}, None),
                          ({"nbf": T + L}, None), ({"nbf": T + L + 1}, "EJose InvalidTokenError"), ({"nbf": T + L + 0.5}, "EJose InvalidTokenError"),
                          ({"iat": T + L}, None), ({"iat": T + L + 1}, "EJose InvalidTokenError"), ({"iat": T + L - 0.5}, None)]
                for claims, want in probes:
                    try:
                        r = reg.validate(dict(claims)); got = None if r is None else "EAssert"
                    except BaseException as e:  # noqa
                        got = exn_class(e)
                    ctx.note_case(("patched-clock", t, lw, rep(claims)))
                    dist["patched-clock"] = dist.get("patched-clock", 0) + 1
                    if got != want or reg.now != T or isinstance(reg.now, bool) or not isinstance(reg.now, int):
                        ctx.violation({"kind": "current-time-not-used"},
                                      "with the clock at %r and now omitted (leeway=%r) the registry uses now=%r; claims %s -> %s, expected %s"
                                      % (t, lw, reg.now, rep(claims), got or "returned", want or "returned"),
                                      {"now": None, "clock": t, "leeway": lw, "options": "{}", "claims": rep(claims),
                                       "offset_from_current_time": {k: v - T for k, v in claims.items()}, "impl": got or "returned"})


def run(ctx):
    ok, log = ctx.prove(extra_targets=["model/C10Cases.vo"])
    cases, meta = [], []
    dist = {}
    pool = []
    for tag, now, lw, opts, claims in gen_cases(ctx):
        o_rep, c_rep = rep(opts), rep(claims)
        pool.append((now, lw, copy.deepcopy(opts), copy.deepcopy(claims)))
        impl, term = check_one(ctx, tag, now, lw, opts, claims, dist)
        cases.append(term)
        meta.append((tag, now, lw, o_rep, c_rep, impl))
    for opts, claims in gen_base(ctx):
        o_rep, c_rep = rep(opts), rep(claims)
        impl, term = check_one_base(ctx, opts, claims, dist)
        cases.append(term)
        meta.append(("base", None, None, o_rep, c_rep, impl))
    for fn in (check_histories, check_methods):
        terms, metas = fn(ctx, pool, dist)
        cases += terms
        meta += metas
    check_subclasses(ctx, pool, dist)
    check_via_token(ctx, pool, dist)
    check_float_clock(ctx, dist)
    scan_entry_points(ctx)
    dist["entry-variants"] = {k: v for k, v in VARIANT_COUNT.items() if not k.startswith("_")}
    # directed sweep of the never-accept laws on numeric representations
    n_sweep = 0
    for now in NOWS + [2 ** 53 + 1, ctx.rng.randrange(2, 2 ** 34)]:
        for lw in LEEWAYS + [ctx.rng.randrange(2, 5000)]:
            for name in ("exp", "nbf", "iat"):
                base = now - lw if name == "exp" else now + lw
                for d in (-2, -1, 0, 1, 2):
                    for T in (base + d, float(base + d), base + d + 0.25, base + d - 0.25, (base + d) * 1.0000001):
                        check_time_numbers(ctx, now, lw, name, T)
                        n_sweep += 1
    dist["never-accept-sweep"] = n_sweep
    check_current_time(ctx)
    check_patched_clock(ctx, dist)

    ctx.coverage["rule"] = ("[also: ClaimsRegistry used directly vs validate_base / accepts_base; one registry object over a history "
                            "of claims sets vs run_history; validate_<k>/check_value called directly vs check_claim/check_value; entry-point "
                            "variants, subclasses with extra validate_<name>, jwt.decode + validate, float clock: same verdict / statement] "
                            "impl verdict (return / exception class) == model validate (vm_compute); in-domain: impl Ok => Spec accepts "
                            "(lenient at exp=now-leeway), Spec accepts (strict) => impl Ok, exception class in the classes of the violated "
                            "clauses with Missing first; arguments unchanged; unrequested private claims do not change the verdict; "
                            "Coq Spec accepts == its Python transcription on every in-domain case")
    ctx.coverage["input_distribution"] = dist
    for i in (0, len(cases) // 3, len(cases) // 2, len(cases) - 1):
        ctx.sample({"input": meta[i], "coq_case": cases[i][:300]})

    ev = lib.CoqEval(["From Model Require Import Base PyVal C10Claims C10Spec C10Cases."], "c10case", "c10_check", "c10_show",
                     shard=max(500, min(2500, len(cases) // 16 + 1)), max_chars=600000)
    res = ev.run(cases, timeout=ctx.scale(600, 1500))
    ctx.coverage["traces_validated_against_impl"] = res["evaluated"]
    ctx.coverage["disagreements_checked"] = len(res["failing"])
    direct = len(ctx.violations)
    shown = set()
    for i in res["failing"]:
        tag, now, lw, o, c, impl = meta[i]
        key = tag
        if tag == "base":
            now, lw = 0, 0
        if key in shown or len(shown) >= 12:
            continue
        shown.add(key)
        ctx.violation({"kind": "correspondence", "stream": tag},
                      "model (or Coq Spec vs its transcription) and implementation disagree on now=%r leeway=%r options=%s claims=%s"
                      % (now, lw, o, c),
                      {"now": now, "leeway": lw, "options": o, "claims": c if tag != "history" else rep(json.loads(c)[0]), "impl": impl,
                       "entry": {"base": "ClaimsRegistry", "history": "one registry, several validate calls",
                                 "method": "validate_<k> / check_value called directly"}.get(tag, "JWTClaimsRegistry.validate"),
                       "case": cases[i][:4000],
                       "model_output (verdicts, in-domain, Spec strict, Spec lenient)": res["shows"].get(max([k for k in res["shows"] if k <= i], default=-1), "")[:600],
                       "no_failing_input_found": direct == 0,
                       "broken": "correspondence model/C10Cases.v:c10_check vs joserfc.rfc7519.registry"})
    for si, err in res["errors"]:
        ctx.violation({"kind": "correspondence-error"}, "coqc failed on a generated case file",
                      {"output": err, "no_failing_input_found": True, "broken": "case evaluation"})
    if not ok:
        ctx.violation({"kind": "proof-broken"}, "props/C10.v or its closure no longer compiles",
                      {"log": log[-3000:], "no_failing_input_found": direct == 0 and not res["failing"],
                       "broken": "theorems of props/C10.v"})
    ctx.assumptions += [
        "Python's ==, `in`, truthiness and int/float comparison are modelled by PyVal.v (py_eq, py_in, py_truth, flt_cmp_Z); validated by the differential run only",
        "a keyword-argument dict / claims dict is an association list with unique keys; iteration order = insertion order",
        "time.time() (now omitted) is checked on the implementation only (instant bracketed by two clock readings)",
        "Spec readings R1-R6 (C10Spec.v header): booleans equal 0/1 (Python ==); {} requests nothing; aud: values over value, blank/empty request = no audience requested",
    ]
    if not ctx.quick:
        ctx.coqchk()


def replay(path):
    r = json.load(open(path))["replay"]
    print("replay:", {k: r[k] for k in r if k not in ("case",)})
    if "options" not in r:
        print("no concrete input in this replay file")
        return 1
    conv = lambda s: json.loads(s, parse_constant=float)   # noqa
    opts, claims = conv(r["options"]), conv(r["claims"])
    if r.get("now") is None:
        t0 = int(time.time())
        claims = {k: t0 + v for k, v in r["offset_from_current_time"].items()}
    if r.get("entry") == "ClaimsRegistry":
        res, pure = run_impl(None, None, opts, claims, base=True)
        got = cls_of(res) or "returned"
        print("ClaimsRegistry(**options).validate(claims) now:", got, "| recorded:", r.get("impl"), "| arguments unchanged:", pure)
        if all(wf_option(o) for o in opts.values()) and all(is_json(v) for v in claims.values()):
            viol = violated_clauses(0, 0, opts, claims, False, builtin=False)
            print("requests alone (no built-in rule): violated=%s" % viol)
            allowed = {"MissingClaimError"} if any(c == "MissingClaimError" for _, c in viol) else {c for _, c in viol}
            return 0 if pure and ((got == "returned") == (not viol)) and (got == "returned" or got.split(" ")[-1] in allowed) else 1
        return 1
    res, pure = run_impl(r.get("now"), r.get("leeway"), opts, claims)
    got = "returned" if res[0] == "ok" else exn_class(res[1])
    print("implementation now:", got, "| recorded:", r.get("impl"), "| arguments unchanged:", pure)
    now = r["now"] if r.get("now") is not None else int(time.time())
    if all(wf_option(o) for o in opts.values()) and all(is_json(v) for v in claims.values()):
        L = r.get("leeway") or 0
        acc_s, acc_l = spec_accepts(now, L, opts, claims, True), spec_accepts(now, L, opts, claims, False)
        print("statement: accepts=%s (exp=now-leeway allowed: %s), violated=%s" % (acc_s, acc_l, violated_clauses(now, L, opts, claims, True)))
        if (got == "returned" and acc_l) or (got != "returned" and not acc_s and got.split(" ")[-1] in spec_classes(now, L, opts, claims)):
            print("the implementation's verdict agrees with the statement on this input")
            return 0 if pure else 1
        print("the implementation's verdict contradicts the statement on this input")
    else:
        print("input outside the statement's domain (malformed request or non-JSON claim): only the model comparison applies")
    return 1
