"""C10 — claims validation accepts exactly the claim sets that satisfy the request.

Correspondence: JWTClaimsRegistry(now=, leeway=, **options).validate(claims) of /repo
against model/C10Claims.v:validate (vm_compute), on an exhaustive small universe
+ boundary sweep + random stream (including malformed requests and NaN/Infinity).
Direct oracle: `spec_accepts` / `spec_classes` below are a Python transcription of
the property statement (NOT of the code); the same cases also carry its verdicts
into Coq where they are compared with Spec `accepts` (model/C10Spec.v)."""
import copy, itertools, json, math, time
from fractions import Fraction
import lib
from lib import c_str, c_Z, c_bool, c_list, c_opt, c_pv, c_exn, exn_class

OPT_KEYS = ("essential", "allow_blank", "value", "values")
ABSENT = object()


# --------------------------------------------------------------------------
# the Spec, transcribed from the property text (readings R1..R6 of C10Spec.v)
# --------------------------------------------------------------------------
def is_json(v):
    if v is None or isinstance(v, (bool, int, str)):
        return True
    if isinstance(v, float):
        return math.isfinite(v)
    if isinstance(v, list):
        return all(is_json(x) for x in v)
    if isinstance(v, dict):
        return all(isinstance(k, str) and is_json(x) for k, x in v.items())
    return False


def is_number(v):       # JSON number: true/false are not numbers
    return (isinstance(v, int) and not isinstance(v, bool)) or (isinstance(v, float) and math.isfinite(v))


def is_scalar(v):
    return isinstance(v, (str, bool, int)) or (isinstance(v, float) and math.isfinite(v))


def wf_option(o):
    if not isinstance(o, dict) or any(k not in OPT_KEYS for k in o):
        return False
    for k in ("essential", "allow_blank"):
        if k in o and not (o[k] is None or isinstance(o[k], bool)):
            return False
    if "value" in o and not (o["value"] is None or is_scalar(o["value"])):
        return False
    if "values" in o and not (o["values"] is None or (isinstance(o["values"], list) and all(is_scalar(x) for x in o["values"]))):
        return False
    return True


def same_scalar(r, v):
    """does claim value v equal the requested scalar r (R1: numbers by value, booleans are 0/1)"""
    if isinstance(r, str):
        return isinstance(v, str) and len(r) == len(v) and all(a == b for a, b in zip(r, v))
    if isinstance(v, bool) or is_number(v):
        return Fraction(r) == Fraction(v)
    return False


def blank_scalar(r):
    return r == "" if isinstance(r, str) else Fraction(r) == 0


def violated_clauses(now, lw, opts, claims, strict):
    """list of (clause, class) violated by claims; clause names follow the statement"""
    out = []
    for name, o in opts.items():
        if o.get("essential") is True and claims.get(name) is None:
            out.append(("essential:" + name, "MissingClaimError"))
    for name, v in claims.items():
        o = opts.get(name)
        req = o if o else None                                   # R2: {} requests nothing
        if name in ("exp", "nbf", "iat"):
            if not is_number(v):
                out.append(("number:" + name, "InvalidClaimError"))
            else:
                x = Fraction(v)
                if name == "exp":
                    if x < now - lw or (strict and x == now - lw):
                        out.append(("exp-after", "ExpiredTokenError"))
                elif x > now + lw:
                    out.append((name + "-not-after", "InvalidTokenError"))
        if req is None:
            continue
        rv = req.get("value")
        rvs = req.get("values")
        if name == "aud":
            wanted = rvs if rvs is not None else ([] if rv is None or blank_scalar(rv) else [rv])   # R4
            have = v if isinstance(v, list) else [v]
            if wanted and not any(same_scalar(r, a) for r in wanted for a in have):
                out.append(("aud", "InvalidClaimError"))
            continue
        if rv is not None and not same_scalar(rv, v):
            out.append(("value:" + name, "InvalidClaimError"))
        if rvs is not None and not any(same_scalar(r, v) for r in rvs):
            out.append(("values:" + name, "InvalidClaimError"))
        if isinstance(v, str) and v == "" and req.get("allow_blank") is not True:
            out.append(("blank:" + name, "InvalidClaimError"))
    return out


def spec_accepts(now, lw, opts, claims, strict):
    return not violated_clauses(now, lw, opts, claims, strict)


def spec_classes(now, lw, opts, claims):
    """error classes the statement provides (missing first); exp = now-leeway may be Expired"""
    v = violated_clauses(now, lw, opts, claims, True)
    if any(c == "MissingClaimError" for _, c in v):
        return {"MissingClaimError"}
    return {c for _, c in v}


# --------------------------------------------------------------------------
# running the implementation
# --------------------------------------------------------------------------
def strict_same(a, b):
    if type(a) is not type(b):
        return False
    if isinstance(a, list):
        return len(a) == len(b) and all(strict_same(x, y) for x, y in zip(a, b))
    if isinstance(a, dict):
        return list(a) == list(b) and all(strict_same(a[k], b[k]) for k in a)
    if isinstance(a, float):
        return (math.isnan(a) and math.isnan(b)) or (a == b and math.copysign(1, a) == math.copysign(1, b))
    return a == b


def run_impl(now, lw, opts, claims):
    """-> ("ok", None) | ("err", exc), plus whether claims/options were left unchanged"""
    from joserfc.rfc7519.registry import JWTClaimsRegistry
    c0, o0 = copy.deepcopy(claims), copy.deepcopy(opts)
    kw = {} if lw is None else {"leeway": lw}
    try:
        reg = JWTClaimsRegistry(now=now, **kw, **opts)
        r = reg.validate(claims)
        res = ("ok", r)
    except BaseException as e:  # noqa
        res = ("err", e)
    pure = strict_same(c0, claims) and strict_same(o0, opts)
    return res, pure


def c_option(o):
    return "(O %s)" % " ".join(c_opt(o[k], c_pv) if k in o and o[k] is not None else ("(Some PNone)" if k in o else "None")
                               for k in OPT_KEYS)


def c_opts(opts):
    return c_list(["(%s, %s)" % (c_str(k), c_option(o)) for k, o in opts.items()])


def c_claims(claims):
    return c_list(["(%s, %s)" % (c_str(k), c_pv(v)) for k, v in claims.items()])


def rep(x):
    return json.dumps(x, default=repr)


# --------------------------------------------------------------------------
# generators
# --------------------------------------------------------------------------
VALUES = [None, True, False, 0, 1, -1, 2, 1.0, 0.0, -0.0, 1.5, 1e300, 2 ** 70, "", "a", "ab", "b", "1",
          [], ["a"], ["a", "b"], ["ab"], ["b", 1], [True], [""], [["a"]], [None], {}, {"a": 1}]
OPT_ESS = [ABSENT, True, False]
OPT_BLANK = [ABSENT, True, False]
OPT_VALUE_Q = [ABSENT, "a", "", 1, True, 0]
OPT_VALUE_T = [ABSENT, None, "a", "", "ab", 1, 0, True, False, 1.0, 1.5, 2]
OPT_VALUES_Q = [ABSENT, [], ["a", "b"], [1, ""]]
OPT_VALUES_T = [ABSENT, None, [], ["a"], ["a", "b"], [""], [1], [True], [0, "ab"], [1.5, "b"], [False, ""]]


def mk_opt(e, b, v, vs):
    o = {}
    for k, x in zip(OPT_KEYS, (e, b, v, vs)):
        if x is not ABSENT:
            o[k] = copy.deepcopy(x)
    return o


def option_shapes(ctx):
    if ctx.quick:
        return [mk_opt(*t) for t in itertools.product(OPT_ESS, OPT_BLANK, OPT_VALUE_Q, OPT_VALUES_Q)]
    return [mk_opt(*t) for t in itertools.product(OPT_ESS + [None], OPT_BLANK + [None], OPT_VALUE_T, OPT_VALUES_T)]


NOWS = [0, 1, 1000, 2 ** 40]
LEEWAYS = [0, 1, 60]
TIME_OPTS = lambda T: [None, {}, {"essential": True}, {"value": T}, {"value": T + 1}, {"values": [T]},   # noqa
                       {"values": [T - 1, float(T)]}, {"allow_blank": False}, {"value": float(T), "essential": False},
                       {"values": []}]


def time_reprs(T):
    """numeric representations of the instant T and its immediate float neighbours"""
    out = [T, float(T), T + 0.5, T - 0.5]
    return out


def gen_cases(ctx):
    """yields (tag, now, lw, opts, claims)"""
    rng = ctx.rng
    shapes = option_shapes(ctx)
    # 1. one claim x every value x every option shape (time does not matter: fixed now)
    names_full = ["sub", "aud"] if ctx.quick else ["sub", "aud", "priv"]
    for name in names_full:
        for v in VALUES:
            # quick: every shape with at most two members + a random 60 of the others (rotates with the seed)
            sel = shapes if not ctx.quick else ([o for o in shapes if len(o) <= 2] + rng.sample([o for o in shapes if len(o) > 2], 60))
            for o in sel:
                yield ("single", 1000, 0, {name: copy.deepcopy(o)}, {name: copy.deepcopy(v)})
    for name in ["iss", "jti", "priv", "", "validate", "aud "]:
        for v in VALUES:
            for o in rng.sample(shapes, ctx.scale(12, 100)):
                yield ("single", 1000, 0, {name: copy.deepcopy(o)}, {name: copy.deepcopy(v)})
    # the request names a claim that is absent / another claim
    for o in shapes:
        for claims in ({}, {"other": "a"}, {"sub": None, "other": ""}):
            yield ("absent", 1000, 0, {"sub": copy.deepcopy(o)}, copy.deepcopy(claims))
    # 2. time claims: every boundary offset x numeric representation x now x leeway
    for name in ("exp", "nbf", "iat"):
        for now in NOWS:
            for lw in LEEWAYS + [None]:
                L = 0 if lw is None else lw
                for T0 in (now - L - 1, now - L, now - L + 1, now + L - 1, now + L, now + L + 1):
                    for T in time_reprs(T0):
                        tops = TIME_OPTS(T0)
                        if ctx.quick:
                            tops = tops[:2] + rng.sample(tops[2:], 4 if T is T0 else 1)
                        for o in tops:
                            opts = {} if o is None else {name: o}
                            yield ("time", now, lw, opts, {name: T})
        # non-numbers and odd numbers as time claims
        for v in VALUES + [float("inf"), float("-inf"), float("nan"), "1000", 10 ** 30, -10 ** 30, 1e18, -1e300]:
            for o in (None, {}, {"essential": True}, {"value": 1}, {"values": [1, True]}, {"allow_blank": True},
                      {"value": "", "allow_blank": True}, {"value": True}):
                opts = {} if o is None else {name: o}
                yield ("time-type", 1, 1, copy.deepcopy(opts), {name: copy.deepcopy(v)})
    # huge now: float(T) differs from T
    for now in (2 ** 53 + 1, 2 ** 62 + 1, -5):
        for lw in (0, 1):
            for name in ("exp", "nbf", "iat"):
                for T in (now - lw, now + lw, float(now - lw), float(now + lw), now - lw - 1, now + lw + 1):
                    yield ("time-big", now, lw, {}, {name: T})
    # 2b. malformed requests (outside the Spec's domain: correspondence only): non-list `values`,
    # non-scalar `value`, non-boolean flags -- TypeError / substring / dict-key semantics of `in`
    bad_values = [5, 0, "abc", "", "a", {"a": 1}, {}, True, 1.5, [["a"]], [None, "a"], [[]]]
    bad_value = [["a"], [], {"a": 1}, {}, [1], None]
    bad_flag = [1, 0, "yes", "", [], [0], 1.5, {}]
    mal_values = VALUES if not ctx.quick else VALUES[:1] + VALUES[3:6] + VALUES[13:]
    for name in ("sub", "aud", "exp"):
        for v in mal_values:
            for bv in bad_values:
                yield ("malformed", 1, 1, {name: {"values": copy.deepcopy(bv)}}, {name: copy.deepcopy(v)})
            for bv in bad_value:
                yield ("malformed", 1, 1, {name: {"value": copy.deepcopy(bv)}}, {name: copy.deepcopy(v)})
        for bf in bad_flag:
            for v in ("", "a", None, 1):
                yield ("malformed", 1, 1, {name: {"allow_blank": copy.deepcopy(bf)}}, {name: v})
                yield ("malformed", 1, 1, {name: {"essential": copy.deepcopy(bf)}}, {name: v})
                yield ("malformed", 1, 1, {name: {"essential": copy.deepcopy(bf)}}, {})
    # 3. several claims, several requests, shuffled order (precedence of errors)
    names = ["iss", "sub", "aud", "exp", "nbf", "iat", "jti", "priv"]

    def rnd_value(name, now, lw):
        if name in ("exp", "nbf", "iat") and rng.random() < 0.8:
            T0 = rng.choice([now - lw - 1, now - lw, now - lw + 1, now + lw - 1, now + lw, now + lw + 1, now, now + 500, now - 500])
            return rng.choice([T0, T0, float(T0), T0 + 0.5])
        return copy.deepcopy(rng.choice(VALUES))

    def rnd_opt(wf=True):
        pick = lambda l: rng.choice(l)   # noqa
        o = mk_opt(pick(OPT_ESS + [ABSENT]), pick(OPT_BLANK + [ABSENT, ABSENT]), pick(OPT_VALUE_T + [ABSENT] * 6),
                   pick(OPT_VALUES_T + [ABSENT] * 8))
        if not wf:
            k = rng.choice(OPT_KEYS)
            o[k] = copy.deepcopy(rng.choice(
                [1, 0, "x", "", "ab", [], [1], ["a"], {}, {"a": 1}, 1.5, None, True, [["a"]], [None], "a", 5, 0.0]))
        return o

    for i in range(ctx.scale(4000, 60000)):
        now = rng.choice(NOWS + [rng.randrange(0, 2 ** 33), -7])
        lw = rng.choice(LEEWAYS + [None, rng.randrange(0, 1000), -2])
        L = 0 if lw is None else lw
        cn = rng.sample(names, rng.randrange(0, 6))
        claims = {n: rnd_value(n, now, L) for n in cn}
        on = rng.sample(names, rng.randrange(0, 4))
        wf = rng.random() < 0.8
        opts = {n: rnd_opt(wf or rng.random() < 0.5) for n in on}
        # make satisfied requests frequent: copy claim values into the request
        for n in on:
            if n in claims and is_scalar(claims[n]) and rng.random() < 0.5:
                if rng.random() < 0.5:
                    opts[n]["value"] = claims[n]
                else:
                    opts[n]["values"] = [rng.choice(["zz", 7]), claims[n]]
            if n == "aud" and isinstance(claims.get(n), list) and claims[n] and is_scalar(claims[n][0]) and rng.random() < 0.5:
                opts[n]["values"] = ["zz", claims[n][0]]
        yield ("random" if wf else "random-malformed", now, lw, opts, claims)


# --------------------------------------------------------------------------
def check_one(ctx, tag, now, lw, opts, claims, dist):
    """runs the implementation on one input, applies the direct oracle; returns the Coq case term"""
    L = 0 if lw is None else lw
    o_rep, c_rep = rep(opts), rep(claims)
    res, pure = run_impl(now, lw, opts, claims)
    cls = None if res[0] == "ok" else exn_class(res[1])
    replay = {"now": now, "leeway": lw, "options": o_rep, "claims": c_rep,
              "impl": "returned" if cls is None else cls}
    if not pure:
        ctx.violation({"kind": "claims-modified"},
                      "validate(now=%r, leeway=%r) modified its arguments: options %s -> %s, claims %s -> %s"
                      % (now, lw, o_rep, rep(opts), c_rep, rep(claims)), replay)
        opts, claims = json.loads(o_rep, parse_constant=float), json.loads(c_rep, parse_constant=float)
    dom = all(wf_option(o) for o in opts.values()) and all(is_json(v) for v in claims.values())
    acc_s = acc_l = False
    if dom:
        acc_s = spec_accepts(now, L, opts, claims, True)
        acc_l = spec_accepts(now, L, opts, claims, False)
        viol = violated_clauses(now, L, opts, claims, False)
        if cls is None and not acc_l:
            clause = viol[0][0].split(":")[0]
            ctx.violation({"kind": "accepted-but-unsatisfied", "clause": clause},
                          "validate(now=%r, leeway=%r, options=%s) ACCEPTED claims %s although clause %r of the statement is violated"
                          % (now, lw, rep(opts), rep(claims), viol[0][0]), dict(replay, clause=viol[0][0]))
        elif cls is not None and acc_s:
            ctx.violation({"kind": "rejected-but-satisfied", "raised": cls},
                          "validate(now=%r, leeway=%r, options=%s) raised %s on claims %s which satisfy every clause of the statement"
                          % (now, lw, rep(opts), cls, rep(claims)), replay)
        elif cls is not None:
            allowed = spec_classes(now, L, opts, claims)
            if not cls.startswith("EJose ") or cls.split(" ", 1)[1] not in allowed:
                ctx.violation({"kind": "wrong-error-class", "raised": cls, "expected": sorted(allowed)},
                              "validate(now=%r, leeway=%r, options=%s) raised %s on claims %s; the violated clauses call for %s"
                              % (now, lw, rep(opts), cls, rep(claims), sorted(allowed)), replay)
        # unrequested claims without a built-in rule are ignored
        extra = {k: v for k, v in claims.items() if k not in ("aud", "exp", "nbf", "iat") and k not in opts}
        if extra or tag == "single":
            if extra:
                c2 = {k: copy.deepcopy(v) for k, v in claims.items() if k not in extra}
            else:
                c2 = dict(copy.deepcopy(claims)); c2["unrequested"] = ""; c2 = dict(reversed(list(c2.items())))
            r2, _ = run_impl(now, lw, opts, c2)
            cls2 = None if r2[0] == "ok" else exn_class(r2[1])
            if cls2 != cls:
                ctx.violation({"kind": "unrequested-claim-matters"},
                              "claims without request or built-in rule changed the verdict: %s -> %s, %s -> %s (options %s)"
                              % (rep(claims), cls or "returned", rep(c2), cls2 or "returned", rep(opts)),
                              dict(replay, claims2=rep(c2)))
    dist[tag] = dist.get(tag, 0) + 1
    dist["outcome:" + (cls or "ok")] = dist.get("outcome:" + (cls or "ok"), 0) + 1
    ctx.note_case((now, lw, o_rep, c_rep))
    expect = "(Ok tt)" if cls is None else "(Err %s)" % c_exn(cls)
    return cls or "returned", "CVal %s %s %s %s %s %s %s %s" % (c_Z(now), c_opt(lw, c_Z), c_opts(opts), c_claims(claims), expect,
                                             c_bool(dom), c_bool(acc_s), c_bool(acc_l))


def check_time_numbers(ctx, now, lw, name, T):
    """never-accept laws stated directly: exp < now-leeway, nbf/iat > now+leeway, any numeric representation"""
    res, _ = run_impl(now, lw, {}, {name: T})
    bad = (name == "exp" and Fraction(T) < now - lw) or (name != "exp" and Fraction(T) > now + lw)
    if bad and res[0] == "ok":
        ctx.violation({"kind": "stale-token-accepted", "claim": name},
                      "%s=%r accepted at now=%r leeway=%r" % (name, T, now, lw),
                      {"now": now, "leeway": lw, "options": "{}", "claims": rep({name: T}), "impl": "returned"})


def check_current_time(ctx):
    """with no explicit now the current time is used (implementation only): the instant taken is
    bracketed exactly by two clock readings, the probes lie 300 s outside the bracket"""
    from joserfc.rfc7519.registry import JWTClaimsRegistry
    from joserfc import errors
    for leeway in (None, 10):
        for explicit_none in (False, True):
            kw = {} if leeway is None else {"leeway": leeway}
            t0 = int(time.time())
            reg = JWTClaimsRegistry(now=None, **kw) if explicit_none else JWTClaimsRegistry(**kw)
            t1 = int(time.time())
            ok_now = isinstance(reg.now, int) and not isinstance(reg.now, bool) and t0 <= reg.now <= t1
            probes = [({"exp": t0 - 300}, errors.ExpiredTokenError), ({"exp": t1 + 300}, None),
                      ({"nbf": t1 + 300}, errors.InvalidTokenError), ({"nbf": t0 - 300}, None),
                      ({"iat": t1 + 300}, errors.InvalidTokenError), ({"iat": t0 - 300}, None)]
            for claims, want in probes:
                try:
                    reg.validate(dict(claims)); got = None
                except Exception as e:  # noqa
                    got = type(e)
                ctx.note_case(("now=None", leeway, sorted(claims), explicit_none, want and want.__name__))
                if not ok_now or got is not want:
                    ctx.violation({"kind": "current-time-not-used"},
                                  "JWTClaimsRegistry(now omitted/None, leeway=%r): now=%r, clock %d..%d; claims %s -> %s, expected %s"
                                  % (leeway, reg.now, t0, t1, rep(claims), got and got.__name__, want and want.__name__),
                                  {"now": None, "leeway": leeway, "options": "{}", "claims": rep(claims),
                                   "offset_from_current_time": {k: v - t0 for k, v in claims.items()},
                                   "impl": got.__name__ if got else "returned"})


def run(ctx):
    ok, log = ctx.prove(extra_targets=["model/C10Cases.vo"])
    cases, meta = [], []
    dist = {}
    for tag, now, lw, opts, claims in gen_cases(ctx):
        o_rep, c_rep = rep(opts), rep(claims)
        impl, term = check_one(ctx, tag, now, lw, opts, claims, dist)
        cases.append(term)
        meta.append((tag, now, lw, o_rep, c_rep, impl))
    # directed sweep of the never-accept laws on numeric representations
    n_sweep = 0
    for now in NOWS + [2 ** 53 + 1, ctx.rng.randrange(2, 2 ** 34)]:
        for lw in LEEWAYS + [ctx.rng.randrange(2, 5000)]:
            for name in ("exp", "nbf", "iat"):
                base = now - lw if name == "exp" else now + lw
                for d in (-2, -1, 0, 1, 2):
                    for T in (base + d, float(base + d), base + d + 0.25, base + d - 0.25, (base + d) * 1.0000001):
                        check_time_numbers(ctx, now, lw, name, T)
                        n_sweep += 1
    dist["never-accept-sweep"] = n_sweep
    check_current_time(ctx)

    ctx.coverage["rule"] = ("impl verdict (return / exception class) == model validate (vm_compute); in-domain: impl Ok => Spec accepts "
                            "(lenient at exp=now-leeway), Spec accepts (strict) => impl Ok, exception class in the classes of the violated "
                            "clauses with Missing first; arguments unchanged; unrequested private claims do not change the verdict; "
                            "Coq Spec accepts == its Python transcription on every in-domain case")
    ctx.coverage["input_distribution"] = dist
    for i in (0, len(cases) // 3, len(cases) // 2, len(cases) - 1):
        ctx.sample({"input": meta[i], "coq_case": cases[i][:300]})

    ev = lib.CoqEval(["From Model Require Import Base PyVal C10Claims C10Spec C10Cases."], "c10case", "c10_check", "c10_show",
                     shard=max(500, min(2500, len(cases) // 16 + 1)), max_chars=600000)
    res = ev.run(cases, timeout=ctx.scale(600, 1500))
    ctx.coverage["traces_validated_against_impl"] = res["evaluated"]
    ctx.coverage["disagreements_checked"] = len(res["failing"])
    direct = len(ctx.violations)
    shown = set()
    for i in res["failing"]:
        tag, now, lw, o, c, impl = meta[i]
        key = tag
        if key in shown or len(shown) >= 12:
            continue
        shown.add(key)
        ctx.violation({"kind": "correspondence", "stream": tag},
                      "model (or Coq Spec vs its transcription) and implementation disagree on now=%r leeway=%r options=%s claims=%s"
                      % (now, lw, o, c),
                      {"now": now, "leeway": lw, "options": o, "claims": c, "impl": impl, "case": cases[i],
                       "model_output (verdict, in-domain, Spec strict, Spec lenient)": res["shows"].get(max([k for k in res["shows"] if k <= i], default=-1), "")[:600],
                       "no_failing_input_found": direct == 0,
                       "broken": "correspondence model/C10Cases.v:c10_check vs joserfc.rfc7519.registry"})
    for si, err in res["errors"]:
        ctx.violation({"kind": "correspondence-error"}, "coqc failed on a generated case file",
                      {"output": err, "no_failing_input_found": True, "broken": "case evaluation"})
    if not ok:
        ctx.violation({"kind": "proof-broken"}, "props/C10.v or its closure no longer compiles",
                      {"log": log[-3000:], "no_failing_input_found": direct == 0 and not res["failing"],
                       "broken": "theorems of props/C10.v"})
    ctx.assumptions += [
        "Python's ==, `in`, truthiness and int/float comparison are modelled by PyVal.v (py_eq, py_in, py_truth, flt_cmp_Z); validated by the differential run only",
        "a keyword-argument dict / claims dict is an association list with unique keys; iteration order = insertion order",
        "time.time() (now omitted) is checked on the implementation only (instant bracketed by two clock readings)",
        "Spec readings R1-R6 (C10Spec.v header): booleans equal 0/1 (Python ==); {} requests nothing; aud: values over value, blank/empty request = no audience requested",
    ]
    if not ctx.quick:
        ctx.coqchk()


def replay(path):
    r = json.load(open(path))["replay"]
    print("replay:", {k: r[k] for k in r if k not in ("case",)})
    if "options" not in r:
        print("no concrete input in this replay file")
        return 1
    conv = lambda s: json.loads(s, parse_constant=float)   # noqa
    opts, claims = conv(r["options"]), conv(r["claims"])
    if r.get("now") is None:
        t0 = int(time.time())
        claims = {k: t0 + v for k, v in r["offset_from_current_time"].items()}
    res, pure = run_impl(r.get("now"), r.get("leeway"), opts, claims)
    got = "returned" if res[0] == "ok" else exn_class(res[1])
    print("implementation now:", got, "| recorded:", r.get("impl"), "| arguments unchanged:", pure)
    now = r["now"] if r.get("now") is not None else int(time.time())
    if all(wf_option(o) for o in opts.values()) and all(is_json(v) for v in claims.values()):
        L = r.get("leeway") or 0
        acc_s, acc_l = spec_accepts(now, L, opts, claims, True), spec_accepts(now, L, opts, claims, False)
        print("statement: accepts=%s (exp=now-leeway allowed: %s), violated=%s" % (acc_s, acc_l, violated_clauses(now, L, opts, claims, True)))
        if (got == "returned" and acc_l) or (got != "returned" and not acc_s and got.split(" ")[-1] in spec_classes(now, L, opts, claims)):
            print("the implementation's verdict agrees with the statement on this input")
            return 0 if pure else 1
        print("the implementation's verdict contradicts the statement on this input")
    else:
        print("input outside the statement's domain (malformed request or non-JSON claim): only the model comparison applies")
    return 1
