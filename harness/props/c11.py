"""C11 — JWK import/export round-trips key material across JWK, PEM and DER."""
import base64, copy, itertools, json, os
import lib
from lib import c_hex, c_str, c_Z, c_N, c_bool, c_list, c_pv, c_exn, exn_class

ALPHA = set(b"ABCDEFGHIJKLMNOPQRSTUVWXYZabcdefghijklmnopqrstuvwxyz0123456789-_")
B64ALPHA = "ABCDEFGHIJKLMNOPQRSTUVWXYZabcdefghijklmnopqrstuvwxyz0123456789-_"
# expected literals, transcribed from RFC 7518 6.2.1.2 / RFC 8812 and RFC 8037 / 7748 / 8032
CURVE_L = {"P-256": 32, "P-384": 48, "P-521": 66, "secp256k1": 32}
CURVE_BITS = {"P-256": 256, "P-384": 384, "P-521": 521, "secp256k1": 256}
OKP_L = {"Ed25519": 32, "Ed448": 57, "X25519": 32, "X448": 56}
PYCA_CRV = {"secp256r1": "P-256", "secp384r1": "P-384", "secp521r1": "P-521", "secp256k1": "secp256k1"}
EC_ALG = {"P-256": "ES256", "P-384": "ES384", "P-521": "ES512", "secp256k1": "ES256K"}
KT = {"oct": "KOct", "RSA": "KRSA", "EC": "KEC", "OKP": "KOKP"}
CRT = ["p", "q", "dp", "dq", "qi"]
VALUE_MEMBERS = {"oct": ["k"], "RSA": ["n", "e", "d", "p", "q", "dp", "dq", "qi"],
                 "EC": ["x", "y", "d"], "OKP": ["x", "d"]}
REQUIRED = {"oct": ["kty", "k"], "RSA": ["kty", "n", "e"], "EC": ["kty", "crv", "x", "y"],
            "OKP": ["kty", "crv", "x"]}
# JSON type of every registered member (RFC 7517 section 4, RFC 7518 section 6, RFC 8037 section 2)
LIST_MEMBERS = {"key_ops", "x5c"}
STR_MEMBERS = {"kty", "use", "alg", "kid", "x5u", "x5t", "x5t#S256", "crv",
               "k", "n", "e", "d", "p", "q", "dp", "dq", "qi", "x", "y"}
SIG_OPS, ENC_OPS = ["sign", "verify"], ["encrypt", "decrypt", "wrapKey", "unwrapKey", "deriveKey", "deriveBits"]

# `"use": ["sig"]` (JSON array) and `"key_ops": "sign"` (JSON string) must be refused
# (registry.in_choices(choices, is_list) since /repo 7fefb53): accepted => violation with
# signature {"kind": "malformed-accepted", "mutation": "retype-choices", "member": ...}.
REPORT_CHOICES_RETYPE = True


# ---- public entry points of joserfc.jwk and of the key classes, as known to this check
# ("covered": exercised below; "aux": not an import / export / generate path of key material)
EP_MODULE = {"JWKRegistry": "covered", "OctKey": "covered", "RSAKey": "covered", "ECKey": "covered", "OKPKey": "covered",
             "KeySet": "covered", "Key": "aux: type alias", "KeyCallable": "aux: type alias", "KeyFlexible": "aux: type alias",
             "guess_key": "aux: key selection (C14)"}
EP_KEY = {"import_key": "covered", "generate_key": "covered", "as_dict": "covered", "as_pem": "covered", "as_der": "covered",
          "as_bytes": "covered", "thumbprint": "covered", "ensure_kid": "covered", "kid": "covered", "alg": "covered",
          "public_key": "covered", "private_key": "covered", "raw_value": "covered", "is_private": "covered",
          "dict_value": "covered", "keys": "covered", "get": "covered", "validate_dict_key": "covered",
          "exchange_derive_key": "covered", "curve_name": "covered", "curve_key_size": "aux",
          "check_alg": "aux: key usage (C06)", "check_key_op": "aux: key usage (C06)", "check_use": "aux: key usage (C06)",
          "get_op_key": "aux: key usage (C06)",
          "binding": "data", "key_type": "data", "operation_registry": "data", "param_registry": "data", "value_registry": "data",
          "thumbprint_digest_method": "data", "private_only_fields": "data", "required_fields": "data"}
EP_KEYSET = {"import_key_set": "covered", "generate_key_set": "covered", "as_dict": "covered", "keys": "covered",
             "get_by_kid": "aux: key selection (C14)", "pick_random_key": "aux: key selection (C14)",
             "algorithm_keys": "data", "registry_cls": "data"}
EP_REGISTRY = {"import_key": "covered", "generate_key": "covered", "key_types": "data"}


def strip_kid(d):
    return {k: v for k, v in d.items() if k != "kid"}


_cert_cache = {}


def self_signed_cert(raw):
    """PEM X.509 certificate for the public key of `raw`, signed by a fixed P-256 key (None when pyca cannot)."""
    import datetime
    from cryptography import x509
    from cryptography.x509.oid import NameOID
    from cryptography.hazmat.primitives import hashes, serialization as S
    rsa, ec, *_ = _pyca()
    if "ca" not in _cert_cache:
        _cert_cache["ca"] = ec.derive_private_key(0xC11C11, ec.SECP256R1())
    name = x509.Name([x509.NameAttribute(NameOID.COMMON_NAME, "c11")])
    now = datetime.datetime(2026, 1, 1)
    try:
        cert = (x509.CertificateBuilder().subject_name(name).issuer_name(name).public_key(raw.public_key())
                .serial_number(11).not_valid_before(now).not_valid_after(now + datetime.timedelta(days=3650))
                .sign(_cert_cache["ca"], hashes.SHA256()))
    except Exception:
        return None
    return cert.public_bytes(S.Encoding.PEM)


def call(f, *a, **k):
    try:
        return ("ok", f(*a, **k))
    except BaseException as e:  # noqa
        return ("err", e)


# ------------------------------------------------------------------ pyca helpers
def _pyca():
    from cryptography.hazmat.primitives.asymmetric import rsa, ec, ed25519, ed448, x25519, x448
    return rsa, ec, ed25519, ed448, x25519, x448


def okp_classes():
    rsa, ec, ed25519, ed448, x25519, x448 = _pyca()
    return {"Ed25519": (ed25519.Ed25519PrivateKey, ed25519.Ed25519PublicKey),
            "Ed448": (ed448.Ed448PrivateKey, ed448.Ed448PublicKey),
            "X25519": (x25519.X25519PrivateKey, x25519.X25519PublicKey),
            "X448": (x448.X448PrivateKey, x448.X448PublicKey)}


def ec_curve(crv):
    rsa, ec, *_ = _pyca()
    return {"P-256": ec.SECP256R1, "P-384": ec.SECP384R1, "P-521": ec.SECP521R1, "secp256k1": ec.SECP256K1}[crv]()


def native_of(raw):
    """numbers of a native key as a tuple (the model's [native])"""
    from cryptography.hazmat.primitives import serialization as S
    rsa, ec, *_ = _pyca()
    if isinstance(raw, (bytes, bytearray)):
        return ("oct", bytes(raw))
    if isinstance(raw, rsa.RSAPrivateKey):
        p = raw.private_numbers()
        return ("rsaprv", p.public_numbers.n, p.public_numbers.e, p.d, p.p, p.q, p.dmp1, p.dmq1, p.iqmp)
    if isinstance(raw, rsa.RSAPublicKey):
        p = raw.public_numbers()
        return ("rsapub", p.n, p.e)
    if isinstance(raw, ec.EllipticCurvePrivateKey):
        p = raw.private_numbers()
        return ("ecprv", PYCA_CRV[raw.curve.name], p.public_numbers.x, p.public_numbers.y, p.private_value)
    if isinstance(raw, ec.EllipticCurvePublicKey):
        p = raw.public_numbers()
        return ("ecpub", PYCA_CRV[raw.curve.name], p.x, p.y)
    for crv, (prv, pub) in okp_classes().items():
        if isinstance(raw, prv):
            return ("okpprv", crv, raw.public_key().public_bytes(S.Encoding.Raw, S.PublicFormat.Raw),
                    raw.private_bytes(S.Encoding.Raw, S.PrivateFormat.Raw, S.NoEncryption()))
        if isinstance(raw, pub):
            return ("okppub", crv, raw.public_bytes(S.Encoding.Raw, S.PublicFormat.Raw))
    raise TypeError("native_of: %r" % (raw,))


def public_of(n):
    if n[0] == "rsaprv":
        return ("rsapub", n[1], n[2])
    if n[0] == "ecprv":
        return ("ecpub",) + n[1:4]
    if n[0] == "okpprv":
        return ("okppub", n[1], n[2])
    return n


def pyca_from_native(n):
    """build a pyca key from numbers with pyca only (independent of joserfc)"""
    rsa, ec, *_ = _pyca()
    t = n[0]
    if t == "rsapub":
        return rsa.RSAPublicNumbers(n[2], n[1]).public_key()
    if t == "rsaprv":
        return rsa.RSAPrivateNumbers(p=n[4], q=n[5], d=n[3], dmp1=n[6], dmq1=n[7], iqmp=n[8],
                                     public_numbers=rsa.RSAPublicNumbers(n[2], n[1])).private_key()
    if t == "ecpub":
        return ec.EllipticCurvePublicNumbers(n[2], n[3], ec_curve(n[1])).public_key()
    if t == "ecprv":
        return ec.EllipticCurvePrivateNumbers(n[4], ec.EllipticCurvePublicNumbers(n[2], n[3], ec_curve(n[1]))).private_key()
    if t == "okppub":
        return okp_classes()[n[1]][1].from_public_bytes(n[2])
    if t == "okpprv":
        return okp_classes()[n[1]][0].from_private_bytes(n[3])
    raise TypeError(t)


# ------------------------------------------------------------------ independent decoders (RFC 7515 section 2 / appendix C)
def strict_b64(s):
    """octets of an unpadded base64url string, None when it is not one"""
    if not isinstance(s, str):
        return None
    try:
        b = s.encode("ascii")
    except UnicodeError:
        return None
    if any(c not in ALPHA for c in b) or len(b) % 4 == 1:
        return None
    return base64.urlsafe_b64decode(b + b"=" * (-len(b) % 4))


def undecodable(s):
    """not base64url even when trailing '=' padding is tolerated"""
    if not isinstance(s, str):
        return True
    return strict_b64(s.rstrip("=")) is None


def lenient_b64(s):
    if not isinstance(s, str):
        raise ValueError("not a str")
    b = s.encode("utf-8").rstrip(b"=")
    return base64.urlsafe_b64decode(b + b"=" * (-len(b) % 4))


def lenient_int(s):
    b = lenient_b64(s)
    if not b:
        raise ValueError("empty")
    return int.from_bytes(b, "big")


def b64u(b):
    return base64.urlsafe_b64encode(b).rstrip(b"=").decode("ascii")


def reconstruct(jwk):
    """Rebuild the key from an exported JWK by the rules of RFC 7518 6.2/6.3/6.4 and
    RFC 8037 section 2, with our own code -> (native tuple, problems)."""
    probs = []
    kty = jwk.get("kty")
    val = {}
    miss = [m for m in {"oct": ["k"], "RSA": ["n", "e"], "EC": ["crv", "x", "y"], "OKP": ["crv", "x"]}.get(kty, []) if m not in jwk]
    if kty == "RSA" and "d" in jwk:
        miss += [m for m in CRT if m not in jwk]
    if miss:
        return None, ["member(s) %s missing from the exported JWK %r" % (miss, sorted(jwk))]
    for m in VALUE_MEMBERS.get(kty, []):
        if m in jwk:
            o = strict_b64(jwk[m])
            if o is None:
                probs.append("%s is not unpadded base64url: %r" % (m, jwk[m]))
                return None, probs
            val[m] = o
    if kty == "oct":
        return ("oct", val["k"]), probs
    if kty == "RSA":
        for m, o in val.items():
            if len(o) == 0 or o[0] == 0:
                probs.append("RSA member %s is not the minimal big-endian form (%d octets, first %r)" % (m, len(o), o[:1].hex()))
        iv = {m: int.from_bytes(o, "big") for m, o in val.items()}
        if "d" in iv:
            return ("rsaprv",) + tuple(iv[m] for m in ["n", "e", "d", "p", "q", "dp", "dq", "qi"]), probs
        return ("rsapub", iv["n"], iv["e"]), probs
    if kty == "EC":
        crv = jwk["crv"]
        L = CURVE_L[crv]
        for m, o in val.items():
            if len(o) != L:
                probs.append("EC member %s of %s has %d octets, the curve's coordinate length is %d" % (m, crv, len(o), L))
        iv = {m: int.from_bytes(o, "big") for m, o in val.items()}
        if "d" in iv:
            return ("ecprv", crv, iv["x"], iv["y"], iv["d"]), probs
        return ("ecpub", crv, iv["x"], iv["y"]), probs
    if kty == "OKP":
        crv = jwk["crv"]
        L = OKP_L[crv]
        for m, o in val.items():
            if len(o) != L:
                probs.append("OKP member %s of %s has %d octets instead of %d" % (m, crv, len(o), L))
        if "d" in val:
            return ("okpprv", crv, val["x"], val["d"]), probs
        return ("okppub", crv, val["x"]), probs
    probs.append("unknown kty %r" % (kty,))
    return None, probs


# ------------------------------------------------------------------ answers of the pyca constructors (model oracles)
_orc_cache = {}


def orc_answers(kt, d):
    """What pyca answers when given the numbers of dict d (decoded by our own
    lenient decoder): {"ok": bool, "rsa": res, "okp": res}."""
    key = (kt, json.dumps(d, sort_keys=True, default=repr))
    if key in _orc_cache:
        return _orc_cache[key]
    rsa, ec, *_ = _pyca()
    from cryptography.hazmat.primitives import serialization as S
    ans = {"ok": False, "rsa": ("err", ValueError()), "okp": ("err", ValueError())}
    try:
        if kt == "RSA":
            n, e = lenient_int(d["n"]), lenient_int(d["e"])
            if "d" in d:
                dd = lenient_int(d["d"])
                if all(m in d for m in CRT):
                    nat = ("rsaprv", n, e, dd) + tuple(lenient_int(d[m]) for m in CRT)
                else:
                    def complete():
                        p, q = rsa.rsa_recover_prime_factors(n, e, dd)
                        return ("rsaprv", n, e, dd, p, q, rsa.rsa_crt_dmp1(dd, p), rsa.rsa_crt_dmq1(dd, q), rsa.rsa_crt_iqmp(p, q))
                    r = call(complete)
                    ans["rsa"] = r
                    if r[0] != "ok":
                        raise ValueError("no completion")
                    nat = r[1]
                pyca_from_native(nat)
            else:
                pyca_from_native(("rsapub", n, e))
            ans["ok"] = True
        elif kt == "EC":
            crv = d["crv"]
            x, y = lenient_int(d["x"]), lenient_int(d["y"])
            if "d" in d:
                pyca_from_native(("ecprv", crv, x, y, lenient_int(d["d"])))
            else:
                pyca_from_native(("ecpub", crv, x, y))
            ans["ok"] = True
        elif kt == "OKP":
            crv = d["crv"]
            if "d" in d:
                dd = lenient_b64(d["d"])
                ans["okp"] = call(lambda: okp_classes()[crv][0].from_private_bytes(dd).public_key().public_bytes(
                    S.Encoding.Raw, S.PublicFormat.Raw))
            else:
                pyca_from_native(("okppub", crv, lenient_b64(d["x"])))
                ans["ok"] = True
    except Exception:
        pass
    _orc_cache[key] = ans
    return ans


# ------------------------------------------------------------------ Coq printers
def c_dict(d):
    return c_list(["(%s, %s)" % (c_str(k), c_pv(v)) for k, v in d.items()])


def c_rsa_prv(n):
    return "{| r_pub := {| r_n := %s; r_e := %s |}; r_d := %s; r_p := %s; r_q := %s; r_dp := %s; r_dq := %s; r_qi := %s |}" % tuple(
        c_Z(v) for v in n[1:9])


def c_native(n):
    t = n[0]
    if t == "oct":
        return "(NOct %s)" % c_hex(n[1])
    if t == "rsapub":
        return "(NRsaPub {| r_n := %s; r_e := %s |})" % (c_Z(n[1]), c_Z(n[2]))
    if t == "rsaprv":
        return "(NRsaPrv %s)" % c_rsa_prv(n)
    if t == "ecpub":
        return "(NEcPub %s %s %s)" % (c_str(n[1]), c_Z(n[2]), c_Z(n[3]))
    if t == "ecprv":
        return "(NEcPrv %s %s %s %s)" % (c_str(n[1]), c_Z(n[2]), c_Z(n[3]), c_Z(n[4]))
    if t == "okppub":
        return "(NOkpPub %s %s)" % (c_str(n[1]), c_hex(n[2]))
    if t == "okpprv":
        return "(NOkpPrv %s %s %s)" % (c_str(n[1]), c_hex(n[2]), c_hex(n[3]))
    raise TypeError(t)


def c_res(r, okf):
    if r[0] == "ok":
        return "(Ok %s)" % okf(r[1])
    return "(Err %s)" % c_exn(exn_class(r[1]))


def c_orc(a):
    return "{| oa_ok := %s; oa_rsa := %s; oa_okp := %s |}" % (
        c_bool(a["ok"]), c_res(a["rsa"], c_rsa_prv), c_res(a["okp"], c_hex))


def c_triple(v):
    return "(%s, %s, %s, %s)" % (c_dict(v[0]), c_dict(v[1]), c_res(v[3], c_dict), c_native(v[2]))


# ------------------------------------------------------------------ generators
def rand_params(rng, kind="valid"):
    """extra JWK parameters"""
    pool = [
        {}, {"kid": "k-%d" % rng.randrange(1000)}, {"use": "sig"}, {"use": "enc"},
        {"use": "sig", "key_ops": ["sign", "verify"]}, {"use": "enc", "key_ops": ["deriveKey"]},
        {"key_ops": ["sign"]}, {"alg": "ES256", "kid": "a"}, {"x5u": "https://example.com/c"},
        {"x5c": ["MIIB"], "x5t": "abc", "x5t#S256": "def"}, {"foo": 1, "bar": [None, {"a": 1.5}]},
        {"kid": "é中", "use": "sig", "key_ops": []},
    ]
    bad = [
        {"use": "sig", "key_ops": ["sign", "decrypt"]}, {"use": "enc", "key_ops": ["verify"]},
        {"use": "foo"}, {"key_ops": ["sign", "bogus"]}, {"kid": 1}, {"x5u": "ftp://x"}, {"x5c": "MIIB"},
        {"alg": None}, {"key_ops": "sign"}, {"use": ["sig"]}, {"use": ["sig"], "key_ops": ["sign"]},
        {"kty": "zzz"}, {"key_ops": [["sign"]]}, {"use": "sig", "key_ops": "sign"},
    ]
    return copy.deepcopy(rng.choice(pool if kind == "valid" else bad))


def gen_ec_natives(ctx, crv):
    """EC private keys derived from ctx.rng, with forced short coordinates:
    x, y or d having one or more leading zero octets."""
    rsa, ec, *_ = _pyca()
    rng = ctx.rng
    bits, L = CURVE_BITS[crv], CURVE_L[crv]
    out, have = [], set()

    def derive(dv):
        r = call(ec.derive_private_key, dv, ec_curve(crv))
        return r[1] if r[0] == "ok" else None
    # forced short d (constructed), including d = 1
    for dv in [1, 2, 255, 256, rng.getrandbits(8 * (L - 1)), rng.getrandbits(8 * (L - 2)) | 1, rng.getrandbits(64) | 1]:
        k = derive(dv)
        if k is not None:
            out.append((k, "short-d"))
    tries = ctx.scale(4000, 20000)
    want = {"short-x": ctx.scale(1, 4), "short-y": ctx.scale(1, 4), "short-d": 1, "plain": ctx.scale(3, 12)}
    got = dict.fromkeys(want, 0)
    for _ in range(tries):
        if all(got[k] >= want[k] for k in want):
            break
        k = derive(rng.randrange(1, 1 << bits))
        if k is None:
            continue
        pn = k.private_numbers()
        tags = []
        if pn.public_numbers.x < 256 ** (L - 1):
            tags.append("short-x")
        if pn.public_numbers.y < 256 ** (L - 1):
            tags.append("short-y")
        if pn.private_value < 256 ** (L - 1):
            tags.append("short-d")
        tag = tags[0] if tags else "plain"
        if any(got[t] < want[t] for t in (tags or ["plain"])):
            for t in (tags or ["plain"]):
                got[t] += 1
            out.append((k, "+".join(tags) if tags else "plain"))
    # keys whose BINARY encodings contain octets a text-minded normalisation would alter
    # (CR LF inside the DER, white space or NUL as the last octet): DER is binary and must
    # round-trip whatever octets it contains
    if crv in ("P-256", "P-384"):
        from cryptography.hazmat.primitives import serialization as _ser
        wantb = {"der-crlf": 2, "der-ends-ws": 1, "der-ends-nul": 1}
        gotb = dict.fromkeys(wantb, 0)
        for _ in range(ctx.scale(30000, 60000)):
            if all(gotb[t] >= wantb[t] for t in wantb):
                break
            k = derive(rng.randrange(1, 1 << bits))
            if k is None:
                continue
            ders = [k.private_bytes(_ser.Encoding.DER, _ser.PrivateFormat.PKCS8, _ser.NoEncryption()),
                    k.public_key().public_bytes(_ser.Encoding.DER, _ser.PublicFormat.SubjectPublicKeyInfo)]
            tg = None
            if any(b"\r\n" in d for d in ders):
                tg = "der-crlf"
            elif any(d[-1:] in (b" ", b"\t", b"\r", b"\n", b"\x0b", b"\x0c") for d in ders):
                tg = "der-ends-ws"
            elif any(d[-1:] == b"\x00" for d in ders):
                tg = "der-ends-nul"
            if tg and gotb[tg] < wantb[tg]:
                gotb[tg] += 1
                out.append((k, tg))
        got.update(gotb)
    return out, got


def gen_okp_natives(ctx, crv):
    prv = okp_classes()[crv][0]
    L = OKP_L[crv]
    out = []
    seeds = [bytes(L), bytes([0] * (L - 1) + [1]), bytes([255] * L)] + \
            [bytes(ctx.rng.randrange(256) for _ in range(L)) for _ in range(ctx.scale(3, 20))] + \
            [bytes([0, 0]) + bytes(ctx.rng.randrange(256) for _ in range(L - 2))]
    for s in seeds:
        r = call(prv.from_private_bytes, s)
        if r[0] == "ok":
            out.append(r[1])
    return out


_rsa_cache = {}


def rsa_native(bits):
    rsa, *_ = _pyca()
    if bits not in _rsa_cache:
        _rsa_cache[bits] = rsa.generate_private_key(public_exponent=65537, key_size=bits)
    return _rsa_cache[bits]


def load_fixture_jwks():
    out = []
    base = os.path.join(lib.REPO, "tests", "keys")
    for name in ["RFC7520-RSA-private.json", "RFC7520-RSA-public.json", "RFC7520-EC-private.json",
                 "RFC7520-EC-public.json", "okp-ed25519-private.json", "okp-ed25519-public.json",
                 "okp-x25519-alice.json", "ec-p256-alice.json", "RFC7520-oct-sig.json", "RFC7520-oct-enc.json",
                 "RFC7516-A.1.3.json", "RFC7516-A.2.3.json"]:
        p = os.path.join(base, name)
        if os.path.exists(p):
            try:
                d = json.load(open(p))
                if isinstance(d, dict) and d.get("kty") in KT:
                    out.append((name, d))
            except Exception:
                pass
    return out


JSON_VALUES = [None, True, False, 0, 1, -1, 1.5, "", "x", [], ["x"], [1], {}, {"a": "b"}]


def right_type(member, v):
    if member in LIST_MEMBERS:
        return isinstance(v, list) and all(isinstance(x, str) for x in v)
    if member in STR_MEMBERS:
        return isinstance(v, str)
    return True


def flip_b64(s, rng, bit=None):
    o = bytearray(strict_b64(s) or b"\x00")
    i = rng.randrange(len(o)) if bit is None else bit
    o[i] ^= 1 << rng.randrange(8)
    return b64u(bytes(o))


def mutations(ctx, kt, base, other):
    """(tag, member, expect, dict): expect in refuse / accept / any.
    `other`: a different well-formed key dict of the same kind (for mismatches)."""
    rng = ctx.rng
    out = []

    def add(tag, member, expect, d):
        out.append((tag, member, expect, d))
    add("wellformed", None, "accept", dict(base))
    # --- delete each member
    for m in base:
        d = {k: v for k, v in base.items() if k != m}
        if m in REQUIRED[kt]:
            add("delete-required", m, "refuse", d)
        elif kt == "RSA" and m in CRT and "d" in base and all(c in base for c in CRT):
            add("partial-crt", m, "refuse", d)
        else:
            add("delete-optional", m, "any", d)
    # --- retype each member to every JSON type
    for m in base:
        extra = [[base[m]]]
        if m == "use":
            extra += [["sig"], ["enc"], ["sig", "enc"]]
        if m == "key_ops":
            extra += ["sign", "verify", "deriveKey", "signverify"]
        vals = JSON_VALUES if not ctx.quick else rng.sample(JSON_VALUES, 6)
        for v in vals + extra:
            if v == base[m]:
                continue
            d = dict(base)
            d[m] = copy.deepcopy(v)
            if not right_type(m, v):
                choices = (m == "use" and isinstance(v, list) and all(x in ("sig", "enc") for x in v)) or \
                          (m == "key_ops" and isinstance(v, str) and v in SIG_OPS + ENC_OPS)
                add("retype-choices" if choices else "retype", m, "refuse", d)
            else:
                add("revalue", m, "any", d)
    # --- corrupt the encoded values
    for m in VALUE_MEMBERS[kt]:
        if m not in base:
            continue
        s = base[m]
        bads = ["!", "+", "/", " ", "\n", ".", "é", "\ud800", "=", "\x00"]
        for bad in (bads if not ctx.quick else rng.sample(bads, 4)):
            i = rng.randrange(len(s)) if len(s) > 1 else 0
            t = s[:i] + bad + s[i + 1:] if bad != "=" else s[:max(i - 1, 0)] + "=" + s[max(i - 1, 0):]
            if t != s:
                add("undecodable", m, "refuse" if undecodable(t) else "any", dict(base, **{m: t}))
        t = s[:(len(s) // 4) * 4] + "A"
        add("undecodable", m, "refuse" if undecodable(t) else "any", dict(base, **{m: t}))
        pad = "=" * (-len(s) % 4)
        add("padded", m, "any", dict(base, **{m: s + pad}))
        add("padded", m, "any", dict(base, **{m: s + "="}))
        add("padded", m, "any", dict(base, **{m: s + "===="}))
        add("empty", m, "any", dict(base, **{m: ""}))
        add("leading-zero", m, "any", dict(base, **{m: "AA" + s if len(s) % 4 != 3 else "AAAA" + s}))
        o0 = strict_b64(s)
        if o0 and len(o0) > 1:
            # one octet short (RFC 7518 6.2.1.2: the full coordinate length is required; here the VALUE changes unless the octet is 0)
            changes = o0[0] != 0
            add("truncated", m, "refuse" if (kt == "EC" and changes) else "any", dict(base, **{m: b64u(o0[1:])}))
            add("truncated", m, "refuse" if kt == "EC" else "any", dict(base, **{m: b64u(o0[:-1])}))
        if len(s) % 4 in (2, 3) and s[-1] in B64ALPHA:
            # non-canonical: same octets, other spare bits in the last character
            add("noncanonical", m, "any", dict(base, **{m: s[:-1] + B64ALPHA[B64ALPHA.index(s[-1]) ^ 1]}))
        if kt == "RSA" and m == "n" and o0:
            add("n-even", m, "any", dict(base, n=b64u(o0[:-1] + bytes([o0[-1] & 0xFE]))))
        if kt == "RSA" and m == "e":
            for ev in ("AQ", "Ag", "AA", "AAEAAQ"):
                add("e-small", m, "any", dict(base, e=ev))
        fl = flip_b64(s, rng)
        if kt == "EC":
            add("off-curve" if m in ("x", "y") else "d-mismatch", m, "refuse", dict(base, **{m: fl}))
        else:
            add("bitflip", m, "any", dict(base, **{m: fl}))
        if kt == "OKP" and strict_b64(s):
            o = strict_b64(s)
            add("wrong-length", m, "refuse", dict(base, **{m: b64u(o[:-1])}))
            add("wrong-length", m, "refuse", dict(base, **{m: b64u(o + b"\x00")}))
        if other is not None and m in other and other[m] != s:
            if kt == "EC":
                add("off-curve" if m in ("x", "y") else "d-mismatch", m, "refuse", dict(base, **{m: other[m]}))
            elif kt == "OKP" and "d" in base:
                # x must be the public key of d (RFC 8037 section 2)
                add("okp-mismatch", m, "refuse", dict(base, **{m: other[m]}))
            else:
                add("swap-value", m, "any", dict(base, **{m: other[m]}))
    # --- RSA CRT subsets
    if kt == "RSA" and other is not None and all(c in other for c in CRT):
        core = {k: v for k, v in base.items() if k not in CRT}
        subsets = [c for r in (1, 2, 3, 4) for c in itertools.combinations(CRT, r)]
        if ctx.quick:
            subsets = [s for s in subsets if len(s) in (1, 4)] + rng.sample([s for s in subsets if len(s) in (2, 3)], 4)
        for sub in subsets:
            d = dict(core)
            for c in sub:
                d[c] = other[c]
            add("partial-crt", "+".join(sub), "refuse", d)
    # --- use / key_ops
    if "use" not in base and "key_ops" not in base:
        for use in (("sig", "enc") if not ctx.quick else (rng.choice(["sig", "enc"]),)):
            own = SIG_OPS if use == "sig" else ENC_OPS
            foreign = ENC_OPS if use == "sig" else SIG_OPS
            combos = [[], [own[0]], list(own), [own[-1], own[0]]]
            for ops in combos:
                add("use-ops-consistent", "key_ops", "accept", dict(base, use=use, key_ops=list(ops)))
            for f in foreign:
                variants = [("use-ops-contradictory", [f]), ("use-ops-partly-contradictory", [own[0], f]),
                            ("use-ops-partly-contradictory", list(own) + [f]), ("use-ops-partly-contradictory", [f] + list(own))]
                if ctx.quick:
                    variants = [variants[0], rng.choice(variants[1:])] if rng.random() < 0.5 else [rng.choice(variants[1:])]
                for tg, ops in variants:
                    add(tg, "key_ops", "refuse", dict(base, use=use, key_ops=ops))
        add("revalue", "use", "any", dict(base, use="foo"))
        add("revalue", "key_ops", "any", dict(base, key_ops=["sign", "bogus"]))
        add("revalue", "key_ops", "any", dict(base, key_ops=["sign", "sign"]))
    # --- kty / crv
    kbad = ["", "oct ", "rsa", "ec", "EC2", "okp", "Oct", "RSÁ", "none"]
    for bad in (kbad if not ctx.quick else rng.sample(kbad, 3)):
        add("unknown-kty", "kty", "refuse-registry", dict(base, kty=bad))
    for wrong in [k for k in KT if k != kt]:
        add("other-kty", "kty", "any", dict(base, kty=wrong))
    if "crv" in base:
        cbad = ["", "P-255", "p-256", "P-256 ", "secp256r1", "Ed25519 ", "ed25519", "P-512", "X-25519"]
        for bad in (cbad if not ctx.quick else rng.sample(cbad, 4)):
            add("unknown-crv", "crv", "refuse", dict(base, crv=bad))
        family = CURVE_L if kt == "EC" else OKP_L
        for c in family:
            if c != base["crv"]:
                add("other-crv", "crv", "refuse" if kt == "EC" else "any", dict(base, crv=c))
    return out


# ------------------------------------------------------------------ run
def run(ctx):
    from joserfc import jws
    from joserfc.jwk import OctKey, RSAKey, ECKey, OKPKey, JWKRegistry
    from joserfc.rfc7518 import ec_key as ec_mod
    KEYCLS = {"oct": OctKey, "RSA": RSAKey, "EC": ECKey, "OKP": OKPKey}
    ok, log = ctx.prove()
    rng = ctx.rng
    cases, meta, seen_terms = [], [], set()
    dist = {}
    deviations = {}

    def bump(k, n=1):
        dist[k] = dist.get(k, 0) + n

    def add(term, m):
        if term in seen_terms:
            return
        seen_terms.add(term)
        cases.append(term)
        meta.append(m)

    def jdump(d):
        return json.dumps(d, sort_keys=True, default=repr)

    # ---------------- import of a dict (class import or registry import)
    def do_import(reg, kt, d, ps):
        def f():
            dd, pp = copy.deepcopy(d), (copy.deepcopy(ps) if ps else None)
            k = JWKRegistry.import_key(dd, parameters=pp) if reg else KEYCLS[kt].import_key(dd, pp)
            return k, (k.as_dict(), k.as_dict(private=False), native_of(k.raw_value), call(lambda: k.as_dict(private=True, zz="1")))
        r = call(f)
        eff_kt = d.get("kty") if reg else kt
        ans = orc_answers(eff_kt, d) if isinstance(eff_kt, str) and eff_kt in KT else \
            {"ok": False, "rsa": ("err", ValueError()), "okp": ("err", ValueError())}
        view = ("ok", r[1][1]) if r[0] == "ok" else r
        add("CImport %s %s %s %s %s %s" % (c_bool(reg), KT[kt], c_dict(d), c_dict(ps or {}), c_orc(ans), c_res(view, c_triple)),
            ("import", reg, kt, jdump(d)[:300], jdump(ps)))
        ctx.note_case(("import", reg, kt, jdump(d), jdump(ps)))
        if r[0] == "ok":
            # members given are the members returned
            want = {**d, **(ps or {}), "kty": kt if not reg else d["kty"]}
            got = r[1][1][0]
            if got != want or list(got) != list(want):
                ctx.violation({"kind": "jwk-identity", "kty": kt},
                              "import_key(d).as_dict() does not return the members given: %r -> %r" % (want, got),
                              {"fn": "import", "registry": reg, "kty": kt, "dict": d, "parameters": ps})
            nat3, v3 = r[1][1][2], r[1][1][3]
            is_priv = nat3[0] in ("oct", "rsaprv", "ecprv", "okpprv")
            if is_priv and (v3[0] != "ok" or v3[1] != {**got, "zz": "1"}):
                ctx.violation({"kind": "private-export", "kty": kt}, "as_dict(private=True, zz='1') of a private key gave %r" % (v3[1],),
                              {"fn": "import", "registry": reg, "kty": kt, "dict": d, "parameters": ps})
            if not is_priv and (v3[0] == "ok" or not isinstance(v3[1], ValueError)):
                ctx.violation({"kind": "private-export", "kty": kt}, "as_dict(private=True) of a public key did not raise ValueError: %r" % (v3[1],),
                              {"fn": "import", "registry": reg, "kty": kt, "dict": d, "parameters": ps})
        return r

    def short(v, n=60):
        s = repr(v)
        return s if len(s) <= n else s[:n] + "..."

    # ---------------- a key object built from a native key: exports, re-imports, interop
    def check_native_key(kt, key, raw, label, ps=None, heavy=False):
        cls = KEYCLS[kt]
        nat = native_of(raw)
        if ps and any(m in ps for m in ("use", "key_ops", "alg")):
            heavy_interop = False       # a restricted key may legitimately refuse to sign / derive
        else:
            heavy_interop = heavy
        bump("native:%s:%s" % (kt, label.split("/")[0]))
        rfull, rpub = call(key.as_dict), call(lambda: key.as_dict(private=False))
        add("CGen %s %s %s %s" % (c_native(nat), c_dict(ps or {}), c_res(rfull, c_dict), c_res(rpub, c_dict)),
            ("gen", kt, label, short(nat, 200), jdump(ps)))
        ctx.note_case(("gen", kt, repr(nat), jdump(ps)))
        rep = {"fn": "export", "kty": kt, "label": label, "native": [str(x) if isinstance(x, int) else (x.hex() if isinstance(x, bytes) else x) for x in nat],
               "parameters": ps}
        if rfull[0] != "ok" or rpub[0] != "ok":
            if not ps:
                ctx.violation({"kind": "export-raises", "kty": kt}, "as_dict() of a %s key (%s) raised %r" % (kt, label, (rfull[1], rpub[1])), rep)
            return
        full, pub = rfull[1], rpub[1]
        forms = [("jwk-private", full, nat)] if nat[0] in ("oct", "rsaprv", "ecprv", "okpprv") else []
        if kt != "oct":
            forms.append(("jwk-public", pub, public_of(nat)))
            for m in ("d", "p", "q", "dp", "dq", "qi", "k"):
                if m in pub:
                    ctx.violation({"kind": "public-export-private-member", "kty": kt}, "as_dict(private=False) contains %s" % m, rep)
        for fname, jwk, want in forms:
            # format: unpadded base64url, fixed / minimal lengths, independent reconstruction
            rec, probs = reconstruct(jwk)
            for p in probs:
                ctx.violation({"kind": "export-format", "kty": kt, "form": fname}, "%s export of %s: %s" % (fname, label, p), dict(rep, jwk=jwk))
            if rec is not None and not probs:
                if rec != want:
                    ctx.violation({"kind": "export-reconstruct", "kty": kt, "form": fname},
                                  "an independent reading of the exported JWK gives other numbers than the key has (%s)" % label, dict(rep, jwk=jwk))
                elif kt != "oct":
                    r2 = call(lambda: native_of(pyca_from_native(rec)))
                    if r2[0] != "ok" or r2[1] != want:
                        ctx.violation({"kind": "export-reconstruct", "kty": kt, "form": fname},
                                      "pyca key rebuilt from the exported JWK differs (%s): %r" % (label, r2[1]), dict(rep, jwk=jwk))
            if ps is None or "kty" not in (ps or {}):
                want_members = dict(ps or {})
                for k_, v_ in want_members.items():
                    if jwk.get(k_) != v_:
                        ctx.violation({"kind": "export-params", "kty": kt}, "parameter %s not exported" % k_, dict(rep, jwk=jwk))
            # re-import (class and registry)
            for reg in ((False, True) if (not ctx.quick or kt != "oct" or rng.random() < 0.15) else (False,)):
                r = do_import(reg, kt, jwk, None)
                if r[0] != "ok":
                    ctx.violation({"kind": "reimport-raises", "kty": kt, "form": fname},
                                  "importing the %s export of %s raised %r" % (fname, label, r[1]), dict(rep, jwk=jwk, registry=reg))
                elif r[1][1][2] != want:
                    ctx.violation({"kind": "reimport-material", "kty": kt, "form": fname},
                                  "import(export) changed the key material (%s, %s)" % (label, fname), dict(rep, jwk=jwk, registry=reg))
                elif heavy_interop and not reg:
                    interop(kt, key, r[1][0], nat, label + "/" + fname, rep)
        # PEM / DER
        if kt != "oct" and (heavy or rng.random() < 0.35):
            priv = nat[0].endswith("prv")
            exports = [("pem-public", lambda: key.as_pem(private=False), None, public_of(nat)),
                       ("der-public", lambda: key.as_der(private=False), None, public_of(nat))]
            if priv:
                exports += [("pem-private", lambda: key.as_pem(private=True), None, nat),
                            ("der-private", lambda: key.as_der(private=True), None, nat),
                            ("pem-default", lambda: key.as_pem(), None, nat)]
                if heavy:
                    exports += [("pem-encrypted", lambda: key.as_pem(private=True, password="s3cret"), "s3cret", nat),
                                ("der-encrypted", lambda: key.as_der(private=True, password="s3cret"), "s3cret", nat)]
            for fname, fn, pw, want in exports:
                bump("form:" + fname)
                e = call(fn)
                ctx.note_case(("bytes", kt, label, fname))
                if e[0] != "ok":
                    ctx.violation({"kind": "export-raises", "kty": kt, "form": fname}, "%s of %s raised %r" % (fname, label, e[1]), rep)
                    continue
                r = call(lambda: cls.import_key(e[1], None, pw))
                if r[0] != "ok" or native_of(r[1].raw_value) != want:
                    ctx.violation({"kind": "reimport-material", "kty": kt, "form": fname},
                                  "importing the %s export of %s gave %r" % (fname, label, r[1]), dict(rep, exported=e[1].hex()))
                    continue
                if fname.startswith("pem") and rng.random() < 0.5:
                    r3 = call(lambda: JWKRegistry.import_key(e[1].decode("ascii"), kt)) if pw is None else None
                    if r3 is not None and (r3[0] != "ok" or native_of(r3[1].raw_value) != want):
                        ctx.violation({"kind": "reimport-material", "kty": kt, "form": fname + "-registry-str"},
                                      "JWKRegistry.import_key(str PEM) of %s gave %r" % (label, r3[1]), dict(rep, exported=e[1].hex()))
                if fname.endswith("encrypted"):
                    if pw.encode() in e[1] or (fname.startswith("pem") and b"ENCRYPTED" not in e[1]):
                        ctx.violation({"kind": "password-ignored", "kty": kt}, "%s export is not encrypted" % fname, rep)
                    r4 = call(lambda: cls.import_key(e[1], None, "wrong"))
                    if r4[0] == "ok":
                        ctx.violation({"kind": "password-ignored", "kty": kt}, "%s export opens with a wrong password" % fname, rep)
                if heavy_interop and fname in ("pem-private", "der-public", "pem-encrypted"):
                    interop(kt, key, r[1], nat, label + "/" + fname, rep)

    peers = {}

    def interop(kt, k1, k2, nat, label, rep):
        """signatures by one verify with the other; equal ECDH secrets"""
        bump("interop")
        priv = [k for k in (k1, k2) if k.is_private]
        crv = nat[1] if kt in ("EC", "OKP") else None
        alg = {"RSA": "RS256", "EC": EC_ALG.get(crv), "OKP": "EdDSA" if crv in ("Ed25519", "Ed448") else None, "oct": "HS256"}[kt]
        if alg:
            for s in priv:
                for v in (k1, k2):
                    def f():
                        tok = jws.serialize_compact({"alg": alg}, b"c11 interop", s, algorithms=[alg])
                        return jws.deserialize_compact(tok, v, algorithms=[alg]).payload
                    r = call(f)
                    if r[0] != "ok" or r[1] != b"c11 interop":
                        ctx.violation({"kind": "interop-signature", "kty": kt}, "signature by one key does not verify with its re-import (%s): %r" % (label, r[1]), rep)
        if kt == "EC" or crv in ("X25519", "X448"):
            if crv not in peers:
                peers[crv] = (ECKey if kt == "EC" else OKPKey).generate_key(crv)
            peer = peers[crv]
            secrets = [call(k.exchange_derive_key, peer) for k in priv] + [call(peer.exchange_derive_key, k) for k in (k1, k2)]
            if any(s[0] != "ok" for s in secrets) or len({s[1] for s in secrets}) != 1:
                ctx.violation({"kind": "interop-ecdh", "kty": kt}, "ECDH secrets differ between a key and its re-import (%s)" % label, rep)

    # =============== 1. oct keys: every length 0..200
    for ln in range(0, 201):
        raw = bytes(rng.randrange(256) for _ in range(ln))
        ps = rand_params(rng) if ln % 5 == 0 else None
        key = OctKey.import_key(raw, ps)
        check_native_key("oct", key, raw, "oct/%d" % ln, ps, heavy=(ln in (32, 64)))
    # =============== 2. RSA: generated once per run
    rsa_sizes = [1024, 2048] if ctx.quick else [1024, 2048, 3072, 4096]
    rsa_dicts = {}
    for bits in rsa_sizes:
        raw = rsa_native(bits)
        key = RSAKey(raw, raw, None)
        check_native_key("RSA", key, raw, "RSA/%d" % bits, None, heavy=True)
        pubraw = raw.public_key()
        check_native_key("RSA", RSAKey(pubraw, pubraw, None), pubraw, "RSA/%d-public" % bits, None, heavy=False)
        rsa_dicts[bits] = key.as_dict()
        ps = rand_params(rng)
        check_native_key("RSA", RSAKey(raw, raw, ps), raw, "RSA/%d+params" % bits, ps)
        # JWK literal without CRT members: p, q recovered
        d0 = {k: v for k, v in rsa_dicts[bits].items() if k not in CRT}
        r = do_import(False, "RSA", d0, None)
        want = native_of(raw)
        if r[0] != "ok" or (r[1][1][2][:4] != want[:4]) or sorted(r[1][1][2][4:6]) != sorted(want[4:6]):
            ctx.violation({"kind": "reimport-material", "kty": "RSA", "form": "jwk-d-only"},
                          "RSA JWK with d but without CRT members does not import to the same key: %r" % (r[1],),
                          {"fn": "import", "registry": False, "kty": "RSA", "dict": d0, "parameters": None})
        elif bits == rsa_sizes[0]:
            interop("RSA", key, r[1][0], want, "RSA/%d/d-only" % bits, {"fn": "import", "kty": "RSA", "dict": d0})
    # =============== 3. EC: all curves, forced short coordinates
    ec_found = {}
    ec_dicts, ec_raws, okp_raws = {}, {}, {}
    for crv in CURVE_L:
        nats, got = gen_ec_natives(ctx, crv)
        ec_found[crv] = got
        for i, (raw, tag) in enumerate(nats):
            heavy = i < 2 or tag != "plain" and rng.random() < (0.5 if ctx.quick else 1.0)
            ps = rand_params(rng) if i % 4 == 1 else None
            check_native_key("EC", ECKey(raw, raw, ps), raw, "%s/%s" % (crv, tag), ps, heavy=heavy)
            if i % 3 == 0:
                pubraw = raw.public_key()
                check_native_key("EC", ECKey(pubraw, pubraw, None), pubraw, "%s/%s-public" % (crv, tag), None)
        ec_dicts[crv] = [ECKey(raw, raw, None).as_dict() for raw, _ in nats[-2:]]
        ec_raws[crv] = nats[-1][0]
        # generate_key path
        k = ECKey.generate_key(crv, {"use": "sig"}, auto_kid=False)
        check_native_key("EC", k, k.raw_value, "%s/generated" % crv, {"use": "sig"})
    # =============== 4. OKP: all curves
    okp_dicts = {}
    for crv in OKP_L:
        nats = gen_okp_natives(ctx, crv)
        for i, raw in enumerate(nats):
            ps = rand_params(rng) if i % 3 == 1 else None
            check_native_key("OKP", OKPKey(raw, raw, ps), raw, "%s/%d" % (crv, i), ps, heavy=(i < 3))
            if i % 2 == 0:
                pubraw = raw.public_key()
                check_native_key("OKP", OKPKey(pubraw, pubraw, None), pubraw, "%s/%d-public" % (crv, i), None)
        okp_dicts[crv] = [OKPKey(raw, raw, None).as_dict() for raw in nats[-2:]]
        okp_raws[crv] = nats[-1]
        k = OKPKey.generate_key(crv, None)
        check_native_key("OKP", k, k.raw_value, "%s/generated" % crv, None)
    # invalid parameters on native keys (validation when the JWK view is built)
    for _ in range(ctx.scale(30, 300)):
        kt = rng.choice(["oct", "EC", "OKP"])
        ps = rand_params(rng, rng.choice(["valid", "bad", "bad"]))
        if kt == "oct":
            raw = bytes(rng.randrange(256) for _ in range(rng.randrange(0, 40)))
        elif kt == "EC":
            crv = rng.choice(list(CURVE_L))
            raw = ec_raws[crv]
        else:
            crv = rng.choice(list(OKP_L))
            raw = okp_raws[crv]
        check_native_key(kt, KEYCLS[kt](raw, raw, ps), raw, "%s/params" % kt, ps)

    # =============== 5. fixed-length encoder on arbitrary numbers
    for bits in (256, 384, 521, 8, 9, 0, 1, 520, 528):
        L = (bits + 7) // 8
        vals = [0, 1, 255, 256, 256 ** L - 1 if L else 0, 256 ** L, 256 ** max(L - 1, 0), 256 ** max(L - 1, 0) - 1, 2 ** bits - 1, 2 ** bits, -1]
        vals += [rng.getrandbits(max(8 * (L - rng.choice([0, 0, 1, 2, 3])), 1)) for _ in range(ctx.scale(15, 200))]
        for z in vals:
            r = call(ec_mod._int_to_fixed_base64, z, bits)
            ctx.note_case(("fixed", z, bits))
            bump("fixed")
            add("CFixed %s %s %s" % (c_Z(z), c_N(bits), c_res(r, lambda t: c_hex(t.encode("ascii")))), ("fixed", z, bits))
            if 0 <= z < 256 ** L:
                o = strict_b64(r[1]) if r[0] == "ok" else None
                if o is None or len(o) != L or int.from_bytes(o, "big") != z:
                    ctx.violation({"kind": "export-format", "kty": "EC", "form": "fixed-length"},
                                  "_int_to_fixed_base64(%s, %d) is not the %d-octet unpadded big-endian form: %r" % (hex(z)[:40], bits, L, r[1]),
                                  {"fn": "fixed", "z": str(z), "bits": bits})

    # =============== 6. JWK literals: well-formed (fixtures) and the malformed stream
    bases = []      # (kt, name, dict, other)
    for name, d in load_fixture_jwks():
        bases.append((d["kty"], "fixture:" + name, d, None))
    small = rsa_dicts[1024]
    big = rsa_dicts[2048]
    rsa_other = RSAKey(rsa_native(1024), rsa_native(1024), None).as_dict()   # same key: CRT members for subsets
    rsa_pub = {k: small[k] for k in ("kty", "n", "e")}
    bases.append(("RSA", "rsa1024-private-crt", small, big))
    bases.append(("RSA", "rsa1024-private-d-only", {k: v for k, v in small.items() if k not in CRT}, small))
    bases.append(("RSA", "rsa1024-public", rsa_pub, small))
    bases.append(("RSA", "rsa2048-public+params", dict({k: big[k] for k in ("kty", "n", "e")}, use="sig", key_ops=["verify"], alg="RS256", kid="r1"), small))
    for crv in CURVE_L:
        a, b = ec_dicts[crv][0], ec_dicts[crv][-1]
        bases.append(("EC", crv + "-private", a, b))
        bases.append(("EC", crv + "-public", {k: v for k, v in a.items() if k != "d"}, b))
    bases.append(("EC", "P-256-private+params", dict(ec_dicts["P-256"][0], use="sig", key_ops=["sign", "verify"], alg="ES256", kid="e1",
                                                      x5c=["MIIB"], x5u="https://example.com/x"), ec_dicts["P-256"][-1]))
    for crv in OKP_L:
        a, b = okp_dicts[crv][0], okp_dicts[crv][-1]
        bases.append(("OKP", crv + "-private", a, b))
        bases.append(("OKP", crv + "-public", {k: v for k, v in a.items() if k != "d"}, b))
    bases.append(("OKP", "X25519-private+params", dict(okp_dicts["X25519"][0], use="enc", key_ops=["deriveKey", "deriveBits"], kid="o1"), okp_dicts["X25519"][-1]))
    bases.append(("EC", "P-384-public+key_ops", dict({k: v for k, v in ec_dicts["P-384"][0].items() if k != "d"}, key_ops=["verify"]), ec_dicts["P-384"][-1]))
    bases.append(("OKP", "Ed448-private+use", dict(okp_dicts["Ed448"][0], use="sig"), okp_dicts["Ed448"][-1]))
    for ln in (0, 1, 16, 32, 33):
        kd = {"kty": "oct", "k": b64u(bytes(rng.randrange(256) for _ in range(ln)))}
        bases.append(("oct", "oct-%d" % ln, kd, {"kty": "oct", "k": b64u(bytes(rng.randrange(256) for _ in range(ln + 1)))}))
    bases.append(("oct", "oct-32+params", {"kty": "oct", "k": b64u(bytes(rng.randrange(256) for _ in range(32))), "use": "sig",
                                          "key_ops": ["sign", "verify"], "alg": "HS256", "kid": "h1"}, None))

    def verdict_check(tag, member, expect, kt, name, reg, d, ps, r):
        accepted = r[0] == "ok"
        bump("malformed:%s:%s" % (tag, "accepted" if accepted else "refused"))
        rep = {"fn": "import", "registry": reg, "kty": kt, "dict": d, "parameters": ps, "mutation": tag, "member": member, "base": name}
        if expect == "refuse-registry":
            expect = "refuse" if reg else "any"
        if expect == "refuse" and accepted:
            sig = {"kind": "malformed-accepted", "mutation": tag, "kty": kt, "member": member}
            desc = "malformed JWK accepted (%s of %r in %s, %s import): %s" % (
                tag, member, name, "registry" if reg else "class", short({k: d[k] for k in d if k == member or k in ("kty", "crv", "use", "key_ops")}, 200))
            # root causes that are independent of which member / how it is malformed
            if kt == "OKP" and "d" in d and (member == "x" or tag == "delete-required" and member == "x"):
                sig = {"kind": "malformed-accepted", "mutation": "okp-x-ignored-with-d", "kty": "OKP", "member": "x"}
                desc = "OKP private JWK whose \"x\" is %s is accepted (x is never looked at when d is present): %s" % (tag, short(d.get("x")))
            if kt == "RSA" and "d" not in d and (tag in ("partial-crt", "undecodable", "retype") and (member or "").split("+")[0] in CRT):
                sig = {"kind": "malformed-accepted", "mutation": "rsa-crt-ignored-without-d", "kty": "RSA", "member": "crt"}
                desc = "RSA JWK without d but with %s CRT member(s) %s is accepted as a public key (%s)" % (
                    "partial/undecodable", member, short({k: d[k] for k in d if k in CRT}, 120))
            if tag == "retype-choices" and not REPORT_CHOICES_RETYPE:
                deviations.setdefault("wrong-type-accepted:%s" % member, {"member": member, "value": d[member], "kty": kt, "registry": reg})
                return
            if tag == "retype-choices":
                sig = {"kind": "malformed-accepted", "mutation": "retype-choices", "member": member}
            ctx.violation(sig, desc, rep)
        elif expect == "accept" and not accepted:
            ctx.violation({"kind": "wellformed-refused", "kty": kt, "mutation": tag},
                          "well-formed JWK refused (%s, %s): %r" % (name, tag, r[1]), rep)

    n_mal = 0
    for kt, name, base, other in bases:
        base_nat = None
        for reg in (False, True):
            r = do_import(reg, kt, base, None)
            verdict_check("wellformed", None, "accept", kt, name, reg, base, None, r)
            if r[0] == "ok" and not reg:
                base_nat = r[1][1][2]
        muts = mutations(ctx, kt, base, other)
        fixture = name.startswith("fixture:")
        if fixture or (ctx.quick and kt == "RSA" and "2048" in name):
            muts = [m for m in muts if m[0] in ("wellformed", "delete-required", "partial-crt", "retype-choices")] + rng.sample(muts, min(20, len(muts)))
        elif ctx.quick:
            core = ("wellformed", "delete-required", "partial-crt", "retype-choices", "off-curve", "d-mismatch", "okp-mismatch",
                    "wrong-length", "use-ops-consistent", "use-ops-contradictory", "use-ops-partly-contradictory", "other-crv",
                    "truncated", "noncanonical", "n-even", "e-small")
            rest = [m for m in muts if m[0] not in core]
            muts = [m for m in muts if m[0] in core] + rng.sample(rest, min(24, len(rest)))
        for tag, member, expect, d in muts:
            n_mal += 1
            regs = (False, True) if (tag in ("unknown-kty", "other-kty", "delete-required", "retype", "retype-choices") and member == "kty") \
                or rng.random() < 0.25 else (rng.random() < 0.3,)
            for reg in regs:
                if reg and "kty" in d and not isinstance(d["kty"], (str, int, float, bool, type(None), list, dict)):
                    continue
                r = do_import(reg, kt, d, None)
                verdict_check(tag, member, expect, kt, name, reg, d, None, r)
                if r[0] == "ok" and base_nat is not None and tag in ("noncanonical", "padded") and r[1][1][2] != base_nat and \
                        not (kt == "RSA" and "d" in d and not all(c in d for c in CRT)):
                    ctx.violation({"kind": "near-miss-material", "kty": kt, "mutation": tag},
                                  "a %s spelling of member %s (same octets) imports to another key (%s)" % (tag, member, name),
                                  {"fn": "import", "registry": reg, "kty": kt, "dict": d, "parameters": None, "mutation": tag, "member": member, "base": name})
        # parameters given at import: must end up in the key, contradictions refused
        for _ in range(ctx.scale(4, 20)):
            kind = rng.choice(["valid", "bad"])
            ps = rand_params(rng, kind)
            r = do_import(rng.random() < 0.3, kt, base, ps)
            merged = {**base, **ps}
            contradictory = isinstance(merged.get("use"), str) and isinstance(merged.get("key_ops"), list) and merged["use"] in ("sig", "enc") and \
                any(op not in (SIG_OPS if merged["use"] == "sig" else ENC_OPS) for op in merged["key_ops"])
            if contradictory and r[0] == "ok":
                ctx.violation({"kind": "malformed-accepted", "mutation": "use-ops-contradictory", "kty": kt, "member": "parameters"},
                              "contradictory use/key_ops given as parameters are accepted: %r" % (ps,),
                              {"fn": "import", "registry": False, "kty": kt, "dict": base, "parameters": ps})
            if kind == "valid" and "use" not in base and "key_ops" not in base and r[0] != "ok":
                ctx.violation({"kind": "wellformed-refused", "kty": kt, "mutation": "parameters"},
                              "well-formed JWK with parameters %r refused: %r" % (ps, r[1]),
                              {"fn": "import", "registry": False, "kty": kt, "dict": base, "parameters": ps})

    # =============== 7. dict-level validation on random member soups (no crypto)
    pool_vals = ["sig", "enc", "sign", "verify", "encrypt", "decrypt", "wrapKey", "unwrapKey", "deriveKey", "deriveBits",
                 "", "x", "http://a", "https://b", "ftp://c", "AQAB", "P-256", "Ed25519", "oct", "RSA", None, True, False, 0, 1, 2.5]

    def rand_val(depth=0):
        k = rng.randrange(10 if depth < 2 else 7)
        if k < 6:
            return rng.choice(pool_vals)
        if k == 6:
            return rng.choice(["s", "e", "i", "g", "sig ", "Sig", "SIGN"])
        if k in (7, 8):
            return [rand_val(depth + 1) for _ in range(rng.randrange(0, 4))]
        return {rng.choice(["a", "use", "kty"]): rand_val(depth + 1) for _ in range(rng.randrange(0, 3))}
    names = ["kty", "use", "key_ops", "alg", "kid", "x5u", "x5c", "x5t", "x5t#S256", "k", "n", "e", "d", "p", "q", "dp", "dq", "qi", "oth",
             "crv", "x", "y", "foo"]
    for _ in range(ctx.scale(1000, 20000)):
        kt = rng.choice(list(KT))
        d = {}
        for m in REQUIRED[kt]:
            if rng.random() < 0.9:
                d[m] = "AQAB" if rng.random() < 0.8 else rand_val()
        for _ in range(rng.randrange(0, 5)):
            m = rng.choice(names)
            if m == "use" and rng.random() < 0.6:
                d[m] = rng.choice(["sig", "enc", ["sig"], "foo", []])
            elif m == "key_ops" and rng.random() < 0.6:
                d[m] = rng.choice([rng.sample(SIG_OPS + ENC_OPS, rng.randrange(0, 4)), "sign", ["sign", "bogus"], rng.choice(SIG_OPS + ENC_OPS)])
            else:
                d[m] = rand_val()
        if rng.random() < 0.5:
            d = dict(sorted(d.items(), key=lambda _: rng.random()))
        r = call(KEYCLS[kt].validate_dict_key, copy.deepcopy(d))
        ctx.note_case(("validate", kt, jdump(d)))
        bump("validate:" + ("ok" if r[0] == "ok" else exn_class(r[1])))
        add("CValidate %s %s %s" % (KT[kt], c_dict(d), c_res(r, lambda _: "tt")), ("validate", kt, jdump(d)[:300]))
        # direct: accepted => required present, types right (modulo the recorded deviation), use/key_ops consistent
        if r[0] == "ok":
            bad = [m for m in REQUIRED[kt] if m not in d]
            bad += [m for m in d if m in (STR_MEMBERS | LIST_MEMBERS) and m in (["kty", "use", "key_ops", "alg", "kid", "x5u", "x5c", "x5t", "x5t#S256"] + VALUE_MEMBERS[kt] + (["crv"] if kt in ("EC", "OKP") else []))
                    and not right_type(m, d[m])]
            if isinstance(d.get("use"), str) and isinstance(d.get("key_ops"), list):
                allowed = SIG_OPS if d["use"] == "sig" else ENC_OPS
                bad += ["use/key_ops"] if any(op not in allowed for op in d["key_ops"]) else []
            if bad:
                ctx.violation({"kind": "validate-accepts", "kty": kt, "member": bad[0]},
                              "validate_dict_key accepts a dict with missing / ill-typed / contradictory %s: %r" % (bad, d),
                              {"fn": "validate", "kty": kt, "dict": d})

    # =============== 8. entry points, argument forms, histories / shared state, foreign serialisations
    import inspect, hashlib, time as _time, itertools as _it
    _t8 = {"start": _time.time()}
    import joserfc.jwk as jwk_mod
    from joserfc.jwk import KeySet
    from cryptography.hazmat.primitives import serialization as S
    rsa_m, ec_m, ed25519_m, *_rest = _pyca()
    PRIVATE_MEMBERS = ("d", "p", "q", "dp", "dq", "qi", "oth", "k")

    def ep_violation(kind, desc, rep, **sig):
        ctx.violation(dict({"kind": kind}, **sig), desc, rep)

    # ---- 8a. table of the public entry points, read at run time (fail closed)
    unknown = []
    for n in getattr(jwk_mod, "__all__", []):
        if n not in EP_MODULE:
            unknown.append("jwk." + n)
    for cls_ in (OctKey, RSAKey, ECKey, OKPKey):
        for n, _v in inspect.getmembers(cls_):
            if not n.startswith("_") and n not in EP_KEY:
                unknown.append("%s.%s" % (cls_.__name__, n))
    for n, _v in inspect.getmembers(KeySet):
        if not n.startswith("_") and n not in EP_KEYSET:
            unknown.append("KeySet." + n)
    for n, _v in inspect.getmembers(JWKRegistry):
        if not n.startswith("_") and n not in EP_REGISTRY:
            unknown.append("JWKRegistry." + n)
    for n in ("import_key", "generate_key", "import_key_set", "generate_key_set", "load_key", "dump_key"):
        if hasattr(jwk_mod, n) and n not in EP_MODULE:
            unknown.append("jwk." + n)
    ctx.coverage["entry_points"] = {"known": len(EP_MODULE) + len(EP_KEY) + len(EP_KEYSET) + len(EP_REGISTRY), "unknown": sorted(set(unknown))}
    for n in sorted(set(unknown)):
        ep_violation("entry-point-unknown", "public name %s of joserfc.jwk is not in the C11 entry-point table (an import / export / generate path may be unchecked)" % n,
                     {"no_failing_input_found": True, "broken": "entry-point table of harness/props/c11.py", "name": n}, name=n)

    def my_thumbprint(jwk):
        req = {"oct": ["k", "kty"], "RSA": ["e", "kty", "n"], "EC": ["crv", "kty", "x", "y"], "OKP": ["crv", "kty", "x"]}[jwk["kty"]]
        txt = json.dumps({m: jwk[m] for m in req}, separators=(",", ":"), sort_keys=True)
        return b64u(hashlib.sha256(txt.encode()).digest())

    def strip_private(jwk):
        return {k_: v_ for k_, v_ in jwk.items() if k_ not in PRIVATE_MEMBERS}

    def same_numbers(r, want):
        return r[0] == "ok" and call(lambda: native_of(r[1].raw_value)) == ("ok", want)

    # sample keys: one private JWK of every kind
    samples = [("oct", {"kty": "oct", "k": b64u(bytes(rng.randrange(256) for _ in range(32)))})]
    samples.append(("RSA", dict(rsa_dicts[1024])))
    for crv in CURVE_L:
        samples.append(("EC", dict(ec_dicts[crv][0])))
    for crv in OKP_L:
        samples.append(("OKP", dict(okp_dicts[crv][0])))

    for kt, jwk in samples:
        cls = KEYCLS[kt]
        rep = {"fn": "import", "registry": False, "kty": kt, "dict": jwk, "parameters": None}
        label = "%s/%s" % (kt, jwk.get("crv", ""))
        key = cls.import_key(dict(jwk))
        nat = native_of(key.raw_value)
        pubnat = public_of(nat)
        bump("entry:sample")
        ctx.note_case(("entry", kt, jdump(jwk)))
        # ---- 8b. accessors
        acc = call(lambda: (key.is_private, native_of(key.private_key), native_of(key.public_key), key.dict_value == key.as_dict(),
                            sorted(key.keys()) == sorted(key.as_dict()), key.get("kty"), key["kty"], key.kid, key.get("nope", "dflt"), key.key_type))
        if acc != ("ok", (True, nat, pubnat if kt != "oct" else nat, True, True, kt, kt, None, "dflt", kt)):
            ep_violation("accessor", "accessors of an imported %s key disagree with its material: %r" % (label, acc), rep, kty=kt)
        if kt != "oct":
            pk = cls.import_key(strip_private(jwk))
            acc = call(lambda: (pk.is_private, pk.private_key, native_of(pk.public_key), native_of(pk.raw_value)))
            if acc != ("ok", (False, None, pubnat, pubnat)):
                ep_violation("accessor", "accessors of an imported public %s key: %r" % (label, acc), rep, kty=kt)
            if kt in ("EC", "OKP"):
                cn = call(lambda: key.curve_name)
                if cn != ("ok", jwk["crv"]):
                    ep_violation("accessor", "curve_name of %s is %r" % (label, cn), rep, kty=kt)
        # ---- thumbprint / ensure_kid / kid: do not touch the material, agree between a key and its re-import
        tp = call(key.thumbprint)
        k2 = cls.import_key(dict(jwk))
        before = k2.as_dict()
        ek = call(lambda: (k2.ensure_kid(), k2.kid, k2.as_dict(), native_of(k2.raw_value)))
        if tp != ("ok", my_thumbprint(jwk)) or ek[0] != "ok" or ek[1][1] != tp[1] or ek[1][2] != {**before, "kid": tp[1]} or ek[1][3] != nat:
            ep_violation("thumbprint-kid", "thumbprint / ensure_kid of %s: %r %r (RFC 7638 value %s)" % (label, tp, ek[1] if ek[0] == "ok" else ek, my_thumbprint(jwk)), rep, kty=kt)
        k3 = cls.import_key(dict(jwk, kid="given"))
        k3.ensure_kid()
        if k3.kid != "given" or k3.as_dict() != dict(jwk, kid="given"):
            ep_violation("thumbprint-kid", "ensure_kid replaced a given kid (%s)" % label, rep, kty=kt)
        # ---- 8c. argument forms: positional / keyword, parameters None / {} / duplicates / conflicts, registry with key_type
        forms = [
            ("kw", lambda: cls.import_key(value=dict(jwk), parameters=None), jwk),
            ("empty-params", lambda: cls.import_key(dict(jwk), {}), jwk),
            ("kw-empty-params", lambda: cls.import_key(value=dict(jwk), parameters={}), jwk),
            ("dup-params", lambda: cls.import_key(dict(jwk), {"kty": kt}), jwk),
            ("registry-pos", lambda: JWKRegistry.import_key(dict(jwk), None, None), jwk),
            ("registry-kw", lambda: JWKRegistry.import_key(data=dict(jwk), key_type=kt, parameters={}), jwk),
            ("registry-key_type", lambda: JWKRegistry.import_key(dict(jwk), kt), jwk),
            ("conflict-params", lambda: cls.import_key(dict(jwk, kid="a", alg="X"), {"kid": "b"}), dict(jwk, kid="b", alg="X")),
            ("falsy-members", lambda: cls.import_key(dict(jwk, kid="", key_ops=[], x5c=[], alg="")), dict(jwk, kid="", key_ops=[], x5c=[], alg="")),
            ("falsy-params", lambda: cls.import_key(dict(jwk), {"kid": "", "key_ops": [], "x5c": [], "alg": ""}), dict(jwk, kid="", key_ops=[], x5c=[], alg="")),
            ("falsy-use-ops", lambda: cls.import_key(dict(jwk, use="sig", key_ops=[])), dict(jwk, use="sig", key_ops=[])),
            ("x5t-members", lambda: cls.import_key(dict(jwk), {"x5t": "YQ", "x5t#S256": "Yg", "x5u": "https://x/y", "x5c": ["MIIB"]}),
             dict(jwk, **{"x5t": "YQ", "x5t#S256": "Yg", "x5u": "https://x/y", "x5c": ["MIIB"]})),
        ]
        for fname, fn, want in forms:
            r = call(fn)
            bump("entry:form")
            ctx.note_case(("entry-form", kt, fname, jdump(jwk)))
            if not same_numbers(r, nat) or r[1].as_dict() != want or list(r[1].as_dict()) != list(want):
                ep_violation("entry-form", "%s import of a well-formed %s JWK: %r" % (fname, label, r[1].as_dict() if r[0] == "ok" else r[1]),
                             dict(rep, form=fname), kty=kt, form=fname)
        # falsy values of the WRONG type must not be skipped by the validators
        for m, bad in [("kid", 0), ("kid", False), ("kid", []), ("kid", {}), ("alg", 0), ("alg", []), ("x5c", ""), ("x5c", 0), ("x5c", {}), ("x5c", False),
                       ("key_ops", ""), ("key_ops", 0), ("key_ops", {}), ("key_ops", False), ("use", ""), ("use", 0), ("use", []), ("use", False),
                       ("x5u", ""), ("x5u", 0), ("x5t", 0), ("x5t", []), ("x5t#S256", False), ("x5t#S256", {}), ("kty", 0), ("kty", [])]:
            for how in ("member", "parameter"):
                if how == "parameter" and m == "kty":
                    continue
                dd = dict(jwk, **{m: bad}) if how == "member" else dict(jwk)
                pp = None if how == "member" else {m: bad}
                r = call(lambda: cls.import_key(copy.deepcopy(dd), copy.deepcopy(pp)))
                ctx.note_case(("entry-falsy", kt, m, repr(bad), how))
                if r[0] == "ok":
                    ep_violation("malformed-accepted", "falsy ill-typed %s %s = %r accepted (%s)" % (how, m, bad, label),
                                 {"fn": "import", "registry": False, "kty": kt, "dict": dd, "parameters": pp}, mutation="retype-falsy", kty=kt, member=m)
        # invalid only in combination: dict use + parameters key_ops
        for dd, pp in [(dict(jwk, use="sig"), {"key_ops": ["decrypt"]}), (dict(jwk, key_ops=["sign"]), {"use": "enc"}),
                       (dict(jwk, use="enc", key_ops=["deriveKey"]), {"key_ops": ["deriveKey", "sign"]})]:
            r = call(lambda: cls.import_key(copy.deepcopy(dd), copy.deepcopy(pp)))
            ctx.note_case(("entry-combo", kt, jdump(pp)))
            if r[0] == "ok":
                ep_violation("malformed-accepted", "use/key_ops contradictory only after merging parameters %r accepted (%s)" % (pp, label),
                             {"fn": "import", "registry": False, "kty": kt, "dict": dd, "parameters": pp}, mutation="use-ops-contradictory", kty=kt, member="parameters")
        # ---- 8d. histories on one key object and aliasing with the caller's objects
        kA, kB = cls.import_key(dict(jwk)), cls.import_key(dict(jwk))
        seqA = call(lambda: [kA.as_dict(private=False) if kt != "oct" else kA.as_dict(), kA.as_dict(private=True), kA.as_dict(),
                             kA.as_dict(private=False) if kt != "oct" else kA.as_dict(), kA.as_dict(private=True, zz=1), kA.as_dict()])
        seqB = call(lambda: [kB.as_dict(), kB.as_dict(private=True), kB.as_dict(private=False) if kt != "oct" else kB.as_dict()])
        pubj = strip_private(jwk) if kt != "oct" else jwk
        if seqA != ("ok", [pubj, jwk, jwk, pubj, dict(jwk, zz=1), jwk]) or seqB != ("ok", [jwk, jwk, pubj]):
            ep_violation("export-history", "repeated exports of one %s key object differ from the first ones: %r / %r" % (label, seqA, seqB), rep, kty=kt)
        out = kA.as_dict()
        out.pop("kty"); out["evil"] = 1
        for m in list(out):
            if m in PRIVATE_MEMBERS or m in ("x", "n", "crv"):
                out[m] = "AAAA"
        if kA.as_dict() != jwk or native_of(kA.raw_value) != nat:
            ep_violation("aliasing", "changing the dict returned by as_dict() changed the %s key" % label, rep, kty=kt, what="export-top-level")
        caller = dict(jwk, kid="c")
        pshared = {"alg": "A1"}
        kC, kD = cls.import_key(caller, pshared), cls.import_key(dict(jwk), pshared)
        caller["kid"] = "changed"; caller.pop("kty"); caller["evil"] = 1; pshared["alg"] = "A2"; pshared["kid"] = "late"
        if kC.as_dict() != dict(jwk, kid="c", alg="A1") or kD.as_dict() != dict(jwk, alg="A1"):
            ep_violation("aliasing", "changing the caller's dict / parameters after import changed the %s key: %r" % (label, kC.as_dict()), rep, kty=kt, what="import-top-level")
        pfix = {"alg": "A1", "key_ops": ["sign"] if kt != "OKP" or jwk["crv"].startswith("Ed") else ["deriveKey"]}
        psnap = copy.deepcopy(pfix)
        cls.import_key(dict(jwk), pfix)
        JWKRegistry.import_key(dict(jwk), parameters=pfix)
        if pfix != psnap:
            ep_violation("aliasing", "import_key changed the caller's parameters dict: %r" % (pfix,), rep, kty=kt, what="parameters-mutated")
        dsnap = copy.deepcopy(jwk)
        dcall = copy.deepcopy(jwk)
        cls.import_key(dcall, {"kid": "p"}).as_dict(private=False if kt != "oct" else None, zz=1)
        if dcall != dsnap or list(dcall) != list(dsnap):
            ep_violation("aliasing", "import_key / as_dict changed the caller's JWK dict: %r" % (dcall,), rep, kty=kt, what="dict-mutated")
        nested = dict(jwk, key_ops=["sign"] if kt != "OKP" or jwk["crv"].startswith("Ed") else ["deriveKey"])
        kN = cls.import_key(nested)
        nested["key_ops"].append("bogus")
        if kN.as_dict()["key_ops"] != [pfix["key_ops"][0]]:
            deviations.setdefault("nested-list-aliased-with-caller", {"kty": kt, "note": "appending to the caller's key_ops list after import changes key.as_dict()['key_ops'] (shallow copy)"})
        # ---- 8e. PEM / DER entry points
        if kt != "oct":
            raw = key.raw_value
            pem = key.as_pem(private=True)
            pempub = key.as_pem(private=False)
            if call(lambda: (key.as_bytes(), key.as_bytes("PEM", True), key.as_bytes(encoding="DER", private=False), key.as_bytes(private=False))) != \
                    ("ok", (pem, pem, key.as_der(private=False), pempub)):
                ep_violation("entry-form", "as_bytes disagrees with as_pem / as_der (%s)" % label, rep, kty=kt, form="as_bytes")
            if call(lambda: key.as_pem(private=False, password="pw")) != ("ok", pempub):
                ep_violation("entry-form", "public PEM export with a password differs from the one without (%s)" % label, rep, kty=kt, form="public-password")
            variants = [("bytes", pem, None, nat, True), ("str", pem.decode("ascii"), None, nat, True), ("bytearray", bytearray(pem), None, nat, False),
                        ("trailing-newlines", pem + b"\n\n", None, nat, True), ("leading-whitespace", b"\n \t" + pem, None, nat, False),
                        ("crlf", pem.replace(b"\n", b"\r\n"), None, nat, False), ("bom", b"\xef\xbb\xbf" + pem, None, nat, False),
                        ("public-str", pempub.decode("ascii"), None, pubnat, True), ("public-crlf", pempub.replace(b"\n", b"\r\n"), None, pubnat, False)]
            builders = [
                ("pkcs8-pem-enc-bytespw", lambda: raw.private_bytes(S.Encoding.PEM, S.PrivateFormat.PKCS8, S.BestAvailableEncryption(b"pw1")), b"pw1", nat),
                ("pkcs8-der-enc-strpw", lambda: raw.private_bytes(S.Encoding.DER, S.PrivateFormat.PKCS8, S.BestAvailableEncryption(b"pw2")), "pw2", nat),
                ("pkcs8-der", lambda: raw.private_bytes(S.Encoding.DER, S.PrivateFormat.PKCS8, S.NoEncryption()), None, nat),
                ("traditional-pem", lambda: raw.private_bytes(S.Encoding.PEM, S.PrivateFormat.TraditionalOpenSSL, S.NoEncryption()), None, nat),
                ("traditional-der", lambda: raw.private_bytes(S.Encoding.DER, S.PrivateFormat.TraditionalOpenSSL, S.NoEncryption()), None, nat),
                ("traditional-pem-enc", lambda: raw.private_bytes(S.Encoding.PEM, S.PrivateFormat.TraditionalOpenSSL, S.BestAvailableEncryption(b"pw3")), "pw3", nat),
                ("spki-der", lambda: raw.public_key().public_bytes(S.Encoding.DER, S.PublicFormat.SubjectPublicKeyInfo), None, pubnat),
                ("pkcs1-public-pem", lambda: raw.public_key().public_bytes(S.Encoding.PEM, S.PublicFormat.PKCS1), None, pubnat),
                ("pkcs1-public-der", lambda: raw.public_key().public_bytes(S.Encoding.DER, S.PublicFormat.PKCS1), None, pubnat),
                ("openssh-public", lambda: raw.public_key().public_bytes(S.Encoding.OpenSSH, S.PublicFormat.OpenSSH), None, pubnat),
                ("openssh-private", lambda: raw.private_bytes(S.Encoding.PEM, S.PrivateFormat.OpenSSH, S.NoEncryption()), None, nat),
                ("openssh-private-enc", lambda: raw.private_bytes(S.Encoding.PEM, S.PrivateFormat.OpenSSH, S.BestAvailableEncryption(b"pw4")), b"pw4", nat),
                ("x509-certificate", lambda: self_signed_cert(raw), None, pubnat),
            ]
            for fname, build, pw, want in builders:
                b = call(build)
                if b[0] == "ok" and b[1] is not None:       # pyca cannot write every form for every key kind
                    variants.append((fname, b[1], pw, want, True))
            for fname, blob, pw, want, must in variants:
                r = call(lambda: cls.import_key(blob, None, pw))
                bump("entry:bytes:" + fname)
                ctx.note_case(("entry-bytes", kt, label, fname))
                brep = dict(rep, form=fname, blob=(blob if isinstance(blob, str) else bytes(blob).hex()), password=repr(pw))
                if r[0] == "ok" and not same_numbers(r, want):
                    ep_violation("reimport-material", "import of the %s form of %s gives another key: %r" % (fname, label, call(lambda: native_of(r[1].raw_value))),
                                 brep, kty=kt, form=fname)
                elif r[0] != "ok" and must:
                    ep_violation("reimport-raises", "import of the %s form of %s raised %r" % (fname, label, r[1]), brep, kty=kt, form=fname)
                elif r[0] == "ok" and pw is not None:
                    for wrong in ("nope", None):
                        r2 = call(lambda: cls.import_key(blob, None, wrong))
                        if r2[0] == "ok":
                            ep_violation("password-ignored", "the encrypted %s form of %s opens with password %r" % (fname, label, wrong), brep, kty=kt, form=fname)
                if r[0] == "ok" and fname in ("str", "pkcs8-der", "openssh-public"):
                    r5 = call(lambda: JWKRegistry.import_key(blob, kt, {"kid": "r"}))
                    if not same_numbers(r5, want) or r5[1].kid != "r":
                        ep_violation("reimport-material", "JWKRegistry.import_key(%s form, %r, parameters) of %s: %r" % (fname, kt, label, r5[1]), brep, kty=kt, form=fname + "-registry")
            other_cls = KEYCLS[{"RSA": "EC", "EC": "OKP", "OKP": "RSA"}[kt]]
            rw = call(lambda: other_cls.import_key(pem))
            if rw[0] == "ok":
                deviations.setdefault("pem-of-another-key-type-accepted", {"note": "%s.import_key(<%s PEM>) returns a key object (as_dict() then raises %s)" % (
                    other_cls.__name__, kt, type(call(rw[1].as_dict)[1]).__name__)})
            # export with a password given as str / bytes
            pw_pairs = [(pwx, enc) for pwx in ("pässword", b"\x00\x01pw") for enc in ("PEM", "DER")]
            if ctx.quick and kt != "RSA":
                pw_pairs = [rng.choice(pw_pairs)]
            for pwx, enc in pw_pairs:
                if True:
                    e = call(lambda: key.as_bytes(enc, True, pwx))
                    r = call(lambda: cls.import_key(e[1], None, pwx)) if e[0] == "ok" else e
                    ctx.note_case(("entry-pw", kt, label, enc, repr(pwx)))
                    if not same_numbers(r, nat) or call(lambda: cls.import_key(e[1], None, "other"))[0] == "ok" or call(lambda: cls.import_key(e[1]))[0] == "ok":
                        ep_violation("password-ignored", "%s export of %s with password %r does not round-trip under exactly that password: %r" % (enc, label, pwx, r[1]),
                                     rep, kty=kt, form="password-" + enc)

    _t8["samples"] = _time.time()
    # ---- 8f. key types interleaved in every order (state shared between key classes)
    by_type = {}
    for kt, jwk in samples:
        by_type.setdefault(kt, jwk)
    orders = list(_it.permutations(["oct", "RSA", "EC", "OKP"]))
    if ctx.quick:
        orders = rng.sample(orders, 8) + [("RSA", "EC", "RSA", "OKP"), ("EC", "RSA", "oct", "EC")]
    for order in orders:
        ctx.note_case(("entry-order", order))
        bump("entry:order")
        for kt in order:
            jwk = by_type[kt]
            kk = KEYCLS[kt].import_key(dict(jwk))
            got = call(lambda: (kk.as_dict(private=False) if kt != "oct" else kk.as_dict(), kk.as_dict(private=True)))
            if got != ("ok", (strip_private(jwk) if kt != "oct" else jwk, jwk)):
                ep_violation("export-history", "after handling key types in the order %r the %s exports are %r" % (order, kt, got),
                             {"fn": "import", "registry": False, "kty": kt, "dict": jwk, "parameters": None, "order": list(order)}, kty=kt)

    # ---- 8g. KeySet and the generate entry points
    all_jwks = [dict(j) for _, j in samples]
    ks = call(lambda: KeySet.import_key_set({"keys": copy.deepcopy(all_jwks)}))
    ctx.note_case(("entry-keyset", len(all_jwks)))
    if ks[0] != "ok" or len(ks[1].keys) != len(all_jwks):
        ep_violation("keyset", "KeySet.import_key_set of well-formed JWKs: %r" % (ks[1],), {"fn": "keyset", "keys": all_jwks})
    else:
        kset = ks[1]
        full = call(lambda: kset.as_dict(private=True))
        dflt = call(lambda: kset.as_dict())
        pubv = call(lambda: kset.as_dict(private=False))
        for i, jwk in enumerate(all_jwks):
            kt = jwk["kty"]
            member = kset.keys[i]
            want_nat = native_of(KEYCLS[kt].import_key(dict(jwk)).raw_value)
            okv = (native_of(member.raw_value) == want_nat and member.kid == my_thumbprint(jwk)
                   and full[0] == "ok" and full[1]["keys"][i] == dict(jwk, kid=my_thumbprint(jwk))
                   and dflt[0] == "ok" and dflt[1]["keys"][i] == dict(jwk, kid=my_thumbprint(jwk))
                   and member.as_dict() == dict(jwk, kid=my_thumbprint(jwk))
                   and pubv[0] == "ok" and pubv[1]["keys"][i] == dict(strip_private(jwk), kid=my_thumbprint(jwk)))
            if not okv:
                ep_violation("keyset", "KeySet member %d (%s) after import_key_set: full=%r public=%r" % (
                    i, kt, full[1]["keys"][i] if full[0] == "ok" else full[1], pubv[1]["keys"][i] if pubv[0] == "ok" else pubv[1]),
                    {"fn": "keyset", "keys": all_jwks, "index": i}, kty=kt)
            elif kt != "oct":
                back = call(lambda: native_of(JWKRegistry.import_key(pubv[1]["keys"][i]).raw_value))
                if back != ("ok", public_of(want_nat)):
                    ep_violation("keyset", "public KeySet export of member %d (%s) re-imports to %r" % (i, kt, back), {"fn": "keyset", "keys": all_jwks, "index": i}, kty=kt)
        pubset = call(lambda: KeySet.import_key_set({"keys": [strip_private(j) for j in all_jwks if j["kty"] != "oct"]}, {"use": "sig"}))
        if pubset[0] != "ok" or any(k_.get("use") != "sig" or k_.is_private for k_ in pubset[1].keys) or call(lambda: pubset[1].as_dict(private=True))[0] == "ok":
            ep_violation("keyset", "KeySet of public keys with parameters: %r" % (pubset[1],), {"fn": "keyset", "keys": all_jwks})
        ks2 = call(lambda: KeySet([KEYCLS[j["kty"]].import_key(dict(j)) for j in all_jwks]).as_dict())
        if ks2[0] != "ok" or [strip_kid(x) for x in ks2[1]["keys"]] != all_jwks:
            ep_violation("keyset", "KeySet(keys).as_dict(): %r" % (ks2[1],), {"fn": "keyset", "keys": all_jwks})
        for bad in [{"keys": [all_jwks[0], dict(all_jwks[1], n="!!")]}, {"keys": [{"k": "AA"}]}, {"keys": [dict(all_jwks[2], use="sig", key_ops=["sign", "decrypt"])]}]:
            rb = call(lambda: KeySet.import_key_set(copy.deepcopy(bad)))
            if rb[0] == "ok":
                ep_violation("malformed-accepted", "KeySet.import_key_set accepts a malformed member: %r" % (short(bad, 200),), {"fn": "keyset", "keys": bad["keys"]},
                             mutation="keyset-member", kty="*", member="keys")
    gens = [("oct", 128, None), ("oct", 8, {"kid": "g"}), ("RSA", 1024, None), ("EC", "P-521", {"use": "sig"}), ("EC", "secp256k1", None),
            ("OKP", "Ed448", None), ("OKP", "X448", {"use": "enc"}), ("OKP", "X25519", None)]
    for kt, arg, ps in gens:
        for how in ("class", "registry", "registry-public", "auto_kid"):
            if kt == "RSA" and how != "class" and ctx.quick:
                continue
            def g():
                if how == "class":
                    return KEYCLS[kt].generate_key(arg, ps)
                if how == "registry":
                    return JWKRegistry.generate_key(kt, arg, ps)
                if how == "registry-public":
                    return JWKRegistry.generate_key(kt, arg, ps, False)
                return KEYCLS[kt].generate_key(arg, parameters=ps, private=True, auto_kid=True)
            r = call(g)
            ctx.note_case(("entry-generate", kt, arg, how))
            bump("entry:generate")
            if kt == "oct" and how == "registry-public":
                if r[0] == "ok":
                    ep_violation("generate", "a public oct key was generated", {"fn": "generate", "kty": kt, "arg": arg})
                continue
            if r[0] != "ok" or r[1].is_private != (how != "registry-public") or (how == "auto_kid" and r[1].kid != (ps or {}).get("kid", my_thumbprint(r[1].as_dict()))):
                ep_violation("generate", "%s generate_key(%r, %r): %r" % (how, arg, ps, r[1]), {"fn": "generate", "kty": kt, "arg": arg, "how": how}, kty=kt)
                continue
            gk = r[1]
            size_ok = {"oct": lambda: len(gk.raw_value) * 8 == arg, "RSA": lambda: gk.raw_value.key_size == arg,
                       "EC": lambda: gk.curve_name == arg, "OKP": lambda: gk.curve_name == arg}[kt]()
            if not size_ok:
                ep_violation("generate", "%s generate_key(%r) produced a key of another size / curve" % (how, arg), {"fn": "generate", "kty": kt, "arg": arg, "how": how}, kty=kt)
            if how != "auto_kid":
                check_native_key(kt, KEYCLS[kt](gk.raw_value, gk.raw_value, ps), gk.raw_value, "%s/generated-%s" % (kt, how), ps)
    gs = call(lambda: KeySet.generate_key_set("EC", "P-384", {"use": "sig"}, True, 3))
    if gs[0] != "ok" or len(gs[1].keys) != 3 or len({k_.kid for k_ in gs[1].keys}) != 3 or any(k_.curve_name != "P-384" or k_.get("use") != "sig" for k_ in gs[1].keys):
        ep_violation("generate", "KeySet.generate_key_set('EC', 'P-384', ..., count=3): %r" % (gs[1],), {"fn": "generate", "kty": "EC", "arg": "P-384", "how": "key_set"}, kty="EC")

    _t8["keyset+generate"] = _time.time()
    # ---- 8h. numbers whose bit length is 8k-1, 8k, 8k+1: export, independent reconstruction, re-import
    for crv in CURVE_L:
        L = CURVE_L[crv]
        for dv in [(1 << (8 * (L - 1))) - 1, 1 << (8 * (L - 1)), (1 << (8 * (L - 1))) + 1, (1 << (8 * (L - 1) - 1)), (1 << (8 * (L - 2))) - 1,
                   (1 << (CURVE_BITS[crv] - 2)) + 1, rng.getrandbits(8 * (L - 1) + 1) | (1 << (8 * (L - 1)))]:
            rk = call(ec_m.derive_private_key, dv, ec_curve(crv))
            if rk[0] == "ok" and (not ctx.quick or rng.random() < 0.7):
                check_native_key("EC", ECKey(rk[1], rk[1], None), rk[1], "%s/d-bits-%d" % (crv, dv.bit_length()), None)
    extra_rsa = [(1024, 3), (1025, 65537), (1031, 65537)] if ctx.quick else \
        [(1024, 3), (2048, 3), (3072, 3), (1025, 65537), (1031, 65537), (1032, 65537), (1033, 3), (3072, 65537)]
    for bits, e_ in extra_rsa:
        rk = call(rsa_m.generate_private_key, e_, bits)
        if rk[0] != "ok":
            continue
        heavy = (bits, e_) == (1024, 3)
        check_native_key("RSA", RSAKey(rk[1], rk[1], None), rk[1], "RSA/%d-e%d" % (bits, e_), None, heavy=heavy)
        pr = rk[1].public_key()
        check_native_key("RSA", RSAKey(pr, pr, None), pr, "RSA/%d-e%d-public" % (bits, e_), None)

    _t8["bit-lengths"] = _time.time()
    ctx.notes.append("section 8 timing: " + ", ".join("%s %.1fs" % (k_, v_ - _t8["start"]) for k_, v_ in _t8.items() if k_ != "start"))
    # ---------------- coverage
    ctx.coverage["input_distribution"] = dict(sorted(dist.items()))
    ctx.coverage["ec_short_coordinates_found"] = ec_found
    ctx.coverage["malformed_cases"] = n_mal
    ctx.coverage["rule"] = ("every key: exported members unpadded base64url of the RFC length; independent reconstruction and re-import give the same numbers; "
                            "sign/verify and ECDH interoperate; import(d).as_dict() == d; malformed JWKs refused; model verdict == implementation verdict")
    if deviations:
        ctx.notes.append("deviations recorded, not reported as violations: " + json.dumps(deviations, default=repr)[:1500])
        ctx.coverage["deviations"] = sorted(deviations)
    ctx.sample({"ec_short_coordinates_found": ec_found})
    if cases:
        ctx.sample({"coq_case": cases[min(250, len(cases) - 1)][:300]})

    # ---------------- correspondence
    ev = lib.CoqEval(["From Model Require Import Base PyVal B64 IntCodec TableTypes C11Model C11Cases."],
                     "c11case", "c11_check", "c11_show", shard=150, max_chars=120000)
    import time as _t
    t_gen = _t.time() - ctx.t0
    res = ev.run(cases)
    if res["errors"]:
        # a shard whose coqc died (machine overloaded: killed / timed out) is evaluated once more
        bounds, start, size = [], 0, 0
        for i, c in enumerate(cases):
            if i > start and (i - start >= ev.shard or size + len(c) > ev.max_chars):
                bounds.append((start, i)); start, size = i, 0
            size += len(c)
        bounds.append((start, len(cases)))
        ends = dict(bounds)
        sub, back, still = [], [], []
        for si, err in res["errors"]:
            if si not in ends:
                still.append((si, err)); continue
            for j in range(si, ends[si]):
                sub.append(cases[j]); back.append(j)
        if sub:
            r2 = ev.run(sub)
            res["evaluated"] += r2["evaluated"]
            res["failing"] += [back[j] for j in r2["failing"]]
            still += [(back[sj], e2) for sj, e2 in r2["errors"]]
        res["errors"] = still
        ctx.notes.append("re-evaluated the case shard(s) whose coqc process died; %d still failing" % len(still))
    ctx.notes.append("timing: proof+generation %.1fs, coq evaluation %.1fs, %d cases, %d chars" % (t_gen, _t.time() - ctx.t0 - t_gen, len(cases), sum(map(len, cases))))
    ctx.coverage["traces_validated_against_impl"] = res["evaluated"]
    ctx.coverage["disagreements_checked"] = len(res["failing"])
    direct = len(ctx.violations)
    for i in res["failing"][:20]:
        ctx.violation({"kind": "correspondence", "fn": meta[i][0]},
                      "model and implementation disagree on %r" % (meta[i],),
                      {"case": cases[i][:6000], "no_failing_input_found": direct == 0,
                       "broken": "correspondence model/C11Cases.v:c11_check vs joserfc JWK import/export"})
    for si, err in res["errors"]:
        ctx.violation({"kind": "correspondence-error"}, "coqc failed on a generated case file",
                      {"output": err, "no_failing_input_found": True, "broken": "case evaluation"})
    if not ok:
        ctx.violation({"kind": "proof-broken"}, "props/C11.v or its closure no longer compiles",
                      {"log": log[-3000:], "no_failing_input_found": direct == 0 and not res["failing"],
                       "broken": "theorems of props/C11.v"})
    ctx.assumptions += [
        "pyca/cryptography constructors (RSAPrivateNumbers.private_key, EllipticCurvePublicNumbers.public_key, from_public_bytes, "
        "from_private_bytes, rsa_recover_prime_factors) are oracles of the model: 'returns the native key with the given numbers or raises ValueError'",
        "a native key is identified with its numbers: two pyca keys with equal numbers are interchangeable (checked by sign/verify and ECDH on the implementation)",
        "PEM / DER / encrypted PEM / DER serialisers are pyca code: not modelled, exercised on the implementation only (export -> import -> same numbers)",
        "to_bytes(str) is modelled on its composition with the base64 decoder (non-ASCII text => ValueError)",
    ]
    if not ctx.quick:
        ctx.coqchk()


def replay(path):
    import json as _j
    from joserfc.jwk import OctKey, RSAKey, ECKey, OKPKey, JWKRegistry
    KEYCLS = {"oct": OctKey, "RSA": RSAKey, "EC": ECKey, "OKP": OKPKey}
    doc = _j.load(open(path))
    r = doc["replay"]
    print("replay:", _j.dumps(r)[:1500])
    fn = r.get("fn")
    if fn == "import":
        d, ps = r["dict"], r.get("parameters")
        res = call(lambda: (JWKRegistry.import_key(d, parameters=ps) if r.get("registry") else KEYCLS[r["kty"]].import_key(d, ps)).as_dict())
        print("import ->", res)
        kind = doc["signature"].get("kind")
        if kind == "malformed-accepted":
            return 1 if res[0] == "ok" else 0
        if kind == "wellformed-refused":
            return 1 if res[0] != "ok" else 0
        return 1
    if fn == "validate":
        res = call(KEYCLS[r["kty"]].validate_dict_key, r["dict"])
        print("validate_dict_key ->", res)
        return 1 if res[0] == "ok" else 0
    if fn == "fixed":
        from joserfc.rfc7518 import ec_key
        z, bits = int(r["z"]), r["bits"]
        res = call(ec_key._int_to_fixed_base64, z, bits)
        print("_int_to_fixed_base64 ->", res)
        o = strict_b64(res[1]) if res[0] == "ok" else None
        return 0 if o is not None and len(o) == (bits + 7) // 8 and int.from_bytes(o, "big") == z else 1
    if fn == "export":
        nat = r["native"]
        t = nat[0]
        conv = [t] + [(int(x) if t.startswith(("rsa", "ec")) and i >= (1 if t.startswith("rsa") else 2) else
                       (bytes.fromhex(x) if t.startswith(("okp", "oct")) and i >= (1 if t == "oct" else 2) else x))
                      for i, x in enumerate(nat[1:], 1)]
        raw = conv[1] if t == "oct" else pyca_from_native(tuple(conv))
        kt = r["kty"]
        key = KEYCLS[kt](raw, raw, r.get("parameters"))
        d = call(key.as_dict)
        print("as_dict ->", d)
        if d[0] != "ok":
            return 1
        rec, probs = reconstruct(d[1])
        print("independent reading:", rec, probs)
        want = native_of(raw)
        if probs or rec != (want if "d" in d[1] or kt == "oct" else public_of(want)):
            return 1
        back = call(lambda: native_of(KEYCLS[kt].import_key(d[1]).raw_value))
        print("re-import ->", back)
        return 0 if back == ("ok", want) else 1
    print("see the replay file for the failing case")
    return 1
