"""C02 — JWE decryption returns only authenticated plaintext.

Valid tokens over alg x enc x zip x serialization x 1-3 recipients, then the
fault stream on the IMPLEMENTATION (bit flips of every decoded segment, header
re-spellings, tag / IV length changes, splices, wrong keys, epk edits, non-empty
encrypted key in direct modes, multi-recipient rules).  Every run is also a
correspondence case for the Gallina model (coq/model/JweCases.v) with the
primitive calls recorded from the real run as the model's oracle table."""
import copy, json, os
import lib
from props import jwe_common as J


# --------------------------------------------------------------------------
# editable decoded form of a token
# --------------------------------------------------------------------------
class Tok:
    def __init__(self, ser, token):
        self.ser = ser
        if ser == "compact":
            h, ek, iv, ct, tag = J.compact_segments(token)
            self.header, self.iv, self.ct, self.tag, self.aad = h, iv, ct, tag, None
            self.unprotected = None
            self.recips = [{"header": None, "ek": ek}]
        else:
            d = token
            self.header, self.iv = J.b64d(d["protected"]), J.b64d(d["iv"])
            self.ct, self.tag = J.b64d(d["ciphertext"]), J.b64d(d["tag"])
            self.aad = J.b64d(d["aad"]) if "aad" in d else None
            self.unprotected = copy.deepcopy(d.get("unprotected"))
            items = d["recipients"] if ser == "general" else [d]
            self.recips = [{"header": copy.deepcopy(it.get("header")),
                            "ek": J.b64d(it["encrypted_key"]) if "encrypted_key" in it else None}
                           for it in items]

    def clone(self):
        return copy.deepcopy(self)

    def build(self):
        if self.ser == "compact":
            return J.compact_join([self.header, self.recips[0]["ek"] or b"", self.iv, self.ct, self.tag])
        d = {"protected": J.b64e(self.header), "iv": J.b64e(self.iv),
             "ciphertext": J.b64e(self.ct), "tag": J.b64e(self.tag)}
        if self.aad is not None:
            d["aad"] = J.b64e(self.aad)
        if self.unprotected is not None:
            d["unprotected"] = self.unprotected

        def item(r):
            it = {}
            if r["header"] is not None:
                it["header"] = r["header"]
            if r["ek"] is not None:
                it["encrypted_key"] = J.b64e(r["ek"])
            return it
        if self.ser == "general":
            d["recipients"] = [item(r) for r in self.recips]
        else:
            d.update(item(self.recips[0]))
        return d


def flip(b: bytes, bit: int) -> bytes:
    a = bytearray(b)
    a[bit // 8] ^= 1 << (7 - bit % 8)
    return bytes(a)


def bit_positions(ctx, n_octets, per):
    nbits = n_octets * 8
    if nbits == 0:
        return []
    if per is None or nbits <= per:
        return list(range(nbits))
    s = {0, nbits - 1}
    while len(s) < per:
        s.add(ctx.rng.randrange(nbits))
    return sorted(s)


# ---- header re-spellings: same members after json.loads, different octets -------
def respellings(header: bytes):
    txt = header.decode("utf-8")
    obj = json.loads(txt)
    out = []
    out.append(("space-after-colon", txt.replace('":', '": ', 1)))
    out.append(("space-after-comma", txt.replace(',"', ', "', 1)) if ',"' in txt else ("lead-space", " " + txt))
    out.append(("leading-space", " " + txt))
    out.append(("trailing-newline", txt + "\n"))
    out.append(("pretty", json.dumps(obj, indent=1)))
    keys = list(obj)
    if len(keys) > 1:
        ro = {k: obj[k] for k in reversed(keys)}
        out.append(("member-order", json.dumps(ro, separators=(",", ":"))))
    k0 = "enc" if "enc" in obj else keys[0]
    dup = txt[:-1] + "," + json.dumps(k0) + ":" + json.dumps(obj[k0], separators=(",", ":")) + "}"
    out.append(("duplicate-member", dup))
    v = obj[k0]
    if isinstance(v, str) and v:
        esc = '"\\u%04x%s"' % (ord(v[0]), v[1:])
        out.append(("u-escape", txt.replace(json.dumps(v), esc, 1)))
    out.append(("u-escape-key", txt.replace('"%s"' % k0, '"\\u%04x%s"' % (ord(k0[0]), k0[1:]), 1)))
    res = []
    for label, t in out:
        try:
            if json.loads(t) == obj and t != txt:
                res.append((label, t.encode("utf-8")))
        except ValueError:
            pass
    return res


def run(ctx):
    J.install()
    ok, log = ctx.prove()
    rng = ctx.rng
    K = J.Keys(rng)
    cases, meta = [], []
    dist = {}
    produced = []          # records of valid tokens
    views = set()
    skipped_nondet = [0]
    big_skipped = [0]

    def bump(k):
        dist[k] = dist.get(k, 0) + 1

    def replay_of(ser, token, keys, sender, verify_all, expect):
        return {"ser": ser, "token": token if not isinstance(token, bytes) else token.decode(),
                "keys": [J.key_jwk(k) for k in keys], "sender": J.key_jwk(sender),
                "verify_all": verify_all, "expect": expect}

    thin = [0]

    def add_case(ser, token, keys, sender, verify_all, obs, logx, m):
        log_, nondet = logx
        if ctx.quick and m[0] == "fault" and m[1].split(":")[0] in ("bit", "taglen", "ivlen"):
            thin[0] += 1
            if thin[0] % 2:                 # quick: every 2nd of the most numerous fault kinds is replayed in Coq
                return
        if not ctx.quick and m[0] == "fault":
            thin[0] += 1
            if thin[0] % 10:                # thorough: every 10th fault run is replayed in Coq (all are checked on the implementation)
                return
        if nondet:
            skipped_nondet[0] += 1
            return
        if J.table_chars(log_) > 40000:
            big_skipped[0] += 1
            return
        cases.append(J.case_dec(J.dec_ser(ser), token, keys, sender, verify_all, obs, log_))
        meta.append(m)

    # ------------------------------------------------------------------ valid tokens
    def produce(spec, label):
        obs, info = J.encrypt_spec(spec)
        if obs[0] != "ok":
            ctx.violation({"kind": "encrypt-failed", "algs": "+".join(spec["algs"]), "enc": spec["enc"]},
                          "encryption of a valid combination failed: %r" % (obs[1:],),
                          {"spec": repr({k: v for k, v in spec.items() if k not in ("recips", "sender")})})
            return None
        token = J.token_of(obs)
        keys = [k for _, k in info["recips"]]
        rec = {"ser": spec["ser"], "token": token, "keys": keys, "sender": spec["sender"],
               "spec": spec, "label": label, "plaintext": spec["plaintext"]}
        o2, logx = J.do_decrypt(J.dec_ser(spec["ser"]), token, keys, sender=spec["sender"])
        ctx.note_case(("valid", label, spec["ser"]))
        bump("valid-" + spec["ser"])
        if o2[0] != "ok" or o2[1] != spec["plaintext"]:
            ctx.violation({"kind": "valid-token-rejected", "algs": "+".join(spec["algs"]), "enc": spec["enc"], "ser": spec["ser"]},
                          "a token joserfc produced does not decrypt to its plaintext (%s): %r" % (label, o2[:2]),
                          replay_of(spec["ser"], token, keys, spec["sender"], True, spec["plaintext"].hex()))
            return None
        add_case(spec["ser"], token, keys, spec["sender"], True, o2, logx, ("valid", label))
        views.add(J.decoded_view(J.dec_ser(spec["ser"]), token))
        produced.append(rec)
        return rec

    sers = ["compact", "flat", "general"]
    pairs = [(a, e) for a in J.ALL_ALGS for e in J.ALL_ENCS if J.valid_combo(a, e)]
    idx = 0
    for (alg, enc) in pairs:
        ser_list = sers if not ctx.quick else [sers[idx % 3]]
        for ser in ser_list:
            for zip_ in ([False, True] if not ctx.quick else [idx % 4 == 1]):
                crv = J.ALL_CURVES[idx % len(J.ALL_CURVES)]
                pt = bytes(rng.randrange(256) for _ in range(rng.choice([0, 1, 15, 16, 17, 40])))
                aad = None if ser == "compact" or idx % 2 else bytes(rng.randrange(256) for _ in range(rng.choice([1, 5, 20])))
                spec = J.make_spec(K, rng, ser, [alg], enc, crv=crv, zip_=zip_, plaintext=pt, aad=aad,
                                   apu=b"Alice" if idx % 3 == 0 else None, apv=b"Bob" if idx % 5 == 0 else None,
                                   alg_in="protected" if idx % 4 == 0 else "auto")
                produce(spec, "%s/%s/%s/%s%s" % (alg, enc, ser, crv if J.is_agreement(alg) else "-", "/DEF" if zip_ else ""))
                idx += 1
    # multi-recipient general JSON (mixed non-direct algorithms)
    multi_algs = [a for a in J.ALL_ALGS if a not in J.DIRECT_ALGS]
    multis = []
    for i in range(ctx.scale(14, 150)):
        n = rng.choice([2, 3])
        enc = rng.choice(J.CBC_ENCS if i % 2 == 0 else J.ALL_ENCS)
        algs = [rng.choice([a for a in multi_algs if J.valid_combo(a, enc)]) for _ in range(n)]
        if algs.count("RSA1_5") + algs.count("RSA-OAEP") + algs.count("RSA-OAEP-256") > 1:
            algs = [a if not a.startswith("RSA") or j == 0 else "A256KW" for j, a in enumerate(algs)]
        spec = J.make_spec(K, rng, "general", algs, enc, crv=rng.choice(J.ALL_CURVES), zip_=(i % 3 == 0),
                           plaintext=b"multi %d" % i, aad=b"aad" if i % 2 else None)
        r = produce(spec, "multi:" + "+".join(algs) + "/" + enc)
        if r:
            multis.append(r)

    # ------------------------------------------------------------------ fault stream
    def attack(rec, tok, label, keys=None, sender="same", verify_all=True, expect_reject=True, coq=True):
        """run a mutated token; returned plaintext for octets that were never produced = violation"""
        keys = keys if keys is not None else rec["keys"]
        snd = rec["sender"] if sender == "same" else sender
        dser = J.dec_ser(tok.ser)
        token = tok.build()
        try:
            view = J.decoded_view(dser, token)
        except Exception:
            view = None
        obs, logx = J.do_decrypt(dser, token, keys, sender=snd, verify_all=verify_all)
        kind = label.split(":")[0]
        ctx.note_case(("fault", label, rec["label"], repr(token)[:400]))
        bump("fault-" + kind)
        same_octets = view is not None and view in views
        if obs[0] == "ok" and expect_reject and not (same_octets and keys == rec["keys"] and snd is rec["sender"]):
            ctx.violation({"kind": "tampered-token-accepted", "fault": kind, "ser": tok.ser,
                           "enc": rec["spec"]["enc"], "algs": "+".join(rec["spec"]["algs"])},
                          "decrypt returned plaintext %r for a token that was never produced (fault %s on %s)" % (
                              obs[1][:24], label, rec["label"]),
                          replay_of(tok.ser, token, keys, snd, verify_all, "reject"))
        if obs[0] == "ok" and not expect_reject and (obs[1] != rec["plaintext"] or (expect_reject is False and not same_octets)):
            ctx.violation({"kind": "wrong-plaintext", "fault": kind, "ser": tok.ser},
                          "decrypt returned a plaintext different from the encrypted one (%s on %s)" % (label, rec["label"]),
                          replay_of(tok.ser, token, keys, snd, verify_all, rec["plaintext"].hex()))
        if obs[0] == "err" and not lib.is_allowed_exn(obs[2]):
            bump("escaped-" + obs[1])      # C16's subject; counted, not reported here
        if obs[0] == "err" and expect_reject is False:
            ctx.violation({"kind": "legit-token-rejected", "fault": kind, "ser": tok.ser},
                          "a token that must decrypt was rejected (%s on %s): %s" % (label, rec["label"], obs[1]),
                          replay_of(tok.ser, token, keys, snd, verify_all, rec["plaintext"].hex()))
        if coq:
            add_case(tok.ser, token, keys, snd, verify_all, obs, logx, ("fault", label, rec["label"]))
        return obs

    per = 2 if ctx.quick else 6           # bit positions per segment (None = every bit, see below)
    chosen = []
    if True:
        # a subset that still sees every alg and every enc at least once, in every serialization
        chosen, seen = [], set()
        for r in produced:
            if r["label"].startswith("multi:"):
                continue
            a, e, s = r["spec"]["algs"][0], r["spec"]["enc"], r["ser"]
            key = [("a", a), ("e", e, s)]
            if any(k not in seen for k in key):
                seen.update(key)
                chosen.append(r)
    if ctx.quick:
        targets = chosen
    else:
        targets = [r for r in produced if not r["label"].startswith("multi:")]
    exhaustive = set(id(r) for r in chosen) if not ctx.quick else set()    # thorough: EVERY bit of every segment on these

    prefix_done = set()
    n_target = 0
    for rec in targets:
        n_target += 1
        base = Tok(rec["ser"], rec["token"])
        per = None if id(rec) in exhaustive else (2 if ctx.quick else 6)
        # -- every bit (sampled in quick) of header / ek / iv / ct / tag / aad
        segs = [("header", base.header), ("iv", base.iv), ("ct", base.ct), ("tag", base.tag)]
        if base.aad is not None:
            segs.append(("aad", base.aad))
        for name, val in segs:
            for bit in bit_positions(ctx, len(val), per if (name != "header" or per is None) else (4 if ctx.quick else 12)):
                t = base.clone()
                setattr(t, name, flip(val, bit))
                attack(rec, t, "bit:%s:%d" % (name, bit))
        for i, r in enumerate(base.recips):
            if r["ek"]:
                for bit in bit_positions(ctx, len(r["ek"]), per):
                    t = base.clone()
                    t.recips[i]["ek"] = flip(r["ek"], bit)
                    attack(rec, t, "bit:ek:%d" % bit)
        # -- re-spellings of the protected header that parse to the same members
        rsp = respellings(base.header)
        if ctx.quick and n_target > 10:
            rsp = rsp[:1] + rng.sample(rsp[1:], min(3, len(rsp) - 1))
        for label, hb in rsp:
            t = base.clone()
            t.header = hb
            attack(rec, t, "respell:" + label)
            # and the same with an aad member added / removed (JSON)
            if base.ser != "compact" and label == "space-after-colon":
                t2 = t.clone()
                t2.aad = None if base.aad is not None else b"x"
                attack(rec, t2, "respell+aad:" + label)
        if base.ser != "compact":
            t = base.clone()
            t.aad = None if base.aad is not None else b""
            attack(rec, t, "aad:dropped" if base.aad is not None else "aad:empty-added",
                   expect_reject=base.aad is not None)
            t = base.clone()
            t.aad = (base.aad or b"") + b"\x00"
            attack(rec, t, "aad:extended")
        # -- tag truncation / extension (every prefix for CBC-HS), IV length changes
        is_cbc = rec["spec"]["enc"] in J.CBC_ENCS
        full = not ctx.quick or (is_cbc and rec["spec"]["enc"] not in prefix_done)
        prefix_done.add(rec["spec"]["enc"])
        lens = range(len(base.tag)) if full else [0, 1, 8, len(base.tag) - 1]
        for n in lens:
            t = base.clone()
            t.tag = base.tag[:n]
            attack(rec, t, "taglen:prefix:%d" % n)
        for ext in (b"\x00", base.tag[:1], base.tag):
            t = base.clone()
            t.tag = base.tag + ext
            attack(rec, t, "taglen:extended:%d" % len(ext))
        ivs = (("drop-last", base.iv[:-1]), ("drop-first", base.iv[1:]), ("empty", b""),
               ("extended", base.iv + b"\x00"), ("doubled", base.iv + base.iv))
        for label, iv in (ivs if not ctx.quick else (ivs[n_target % 2], ivs[2], ivs[3 + n_target % 2])):
            t = base.clone()
            t.iv = iv
            attack(rec, t, "ivlen:" + label)
        # -- wrong recipient key / wrong sender key
        spec = rec["spec"]
        alt = [K.for_alg(a, spec["enc"], spec["crv"], "alt") for a in spec["algs"]]
        attack(rec, base.clone(), "key:wrong-recipient", keys=alt)
        if rec["sender"] is not None:
            attack(rec, base.clone(), "key:wrong-sender", sender=K.curve_key(spec["crv"], "alt"))
            other = [c for c in (J.EC_CURVES if spec["crv"] in J.EC_CURVES else J.OKP_CURVES) if c != spec["crv"]][0]
            attack(rec, base.clone(), "key:sender-other-curve", sender=K.curve_key(other, "sender"))
        # -- non-empty encrypted key in direct modes
        if spec["algs"][0] in J.DIRECT_ALGS:
            for ek in (b"\x00", bytes(rng.randrange(256) for _ in range(8)), bytes(40)):
                t = base.clone()
                t.recips[0]["ek"] = ek
                attack(rec, t, "ek:nonempty-direct:%d" % len(ek))
        else:
            for label, ek in (("empty", b""), ("truncated", (base.recips[0]["ek"] or b"")[:-1]),
                              ("extended", (base.recips[0]["ek"] or b"") + b"\x00")):
                t = base.clone()
                t.recips[0]["ek"] = ek
                attack(rec, t, "ek:" + label)
        # -- epk edits
        if J.is_agreement(spec["algs"][0]):
            hdr = json.loads(base.header)
            where = "protected" if "epk" in hdr else "recipient"
            epk = hdr["epk"] if where == "protected" else base.recips[0]["header"]["epk"]
            edits = []
            xb = J.b64d(epk["x"])
            for bit in bit_positions(ctx, len(xb), 3 if ctx.quick else 24):
                e = dict(epk); e["x"] = J.b64e(flip(xb, bit)); edits.append(("x-bit-%d" % bit, e))
            if "y" in epk:
                yb = J.b64d(epk["y"])
                for bit in bit_positions(ctx, len(yb), 2 if ctx.quick else 24):
                    e = dict(epk); e["y"] = J.b64e(flip(yb, bit)); edits.append(("y-bit-%d" % bit, e))
                e = dict(epk); e["y"] = J.b64e(yb[:-1]); edits.append(("y-short", e))
            ocrv = [c for c in J.ALL_CURVES if c != spec["crv"]]
            for c in (ocrv if not ctx.quick else [ocrv[0], ocrv[-1]]):
                edits.append(("other-curve-" + c, K.curve_key(c, "alt").as_dict(private=False)))
            e = dict(epk); e["crv"] = "P-384" if epk.get("crv") != "P-384" else "P-256"; edits.append(("crv-relabelled", e))
            for mname in ("x", "y", "crv", "kty"):
                if mname in epk:
                    e = dict(epk); del e[mname]; edits.append(("missing-" + mname, e))
            e = K.curve_key(spec["crv"], "alt").as_dict(private=True); edits.append(("private-member-other-key", e))
            e = dict(epk); e["d"] = K.curve_key(spec["crv"], "alt").as_dict(private=True)["d"]; edits.append(("private-member-added", e))
            e = dict(epk); e["x"] = J.b64e(bytes(len(xb))); edits.append(("x-zero", e))
            for label, e in edits:
                t = base.clone()
                if where == "protected":
                    h2 = dict(hdr); h2["epk"] = e
                    t.header = json.dumps(h2, separators=(",", ":")).encode()
                else:
                    t.recips[0]["header"] = dict(base.recips[0]["header"], epk=e)
                # RFC 7748: the most significant bit of an X25519 u-coordinate is masked, so that edit is another
                # encoding of the SAME point; in the (unauthenticated) per-recipient header it may be accepted
                same_point = (where == "recipient" and spec["crv"] == "X25519" and label == "x-bit-248")
                attack(rec, t, "epk:" + label, expect_reject=None if same_point else True)

    # -- cross-token splices between tokens of the same alg / enc / key / serialization
    by_key = {}
    for r in produced:
        if r["label"].startswith("multi:"):
            continue
        by_key.setdefault((r["spec"]["algs"][0], r["spec"]["enc"], r["ser"], r["spec"]["crv"]), []).append(r)
    n_splice = 0
    for (alg, enc, ser, crv), lst in list(by_key.items()):
        if ctx.quick and n_splice >= 24:
            break
        a = lst[0]
        spec2 = J.make_spec(K, rng, ser, [alg], enc, crv=crv, plaintext=b"second message", aad=a["spec"]["aad"],
                            alg_in="protected" if "alg" in a["spec"]["protected"] else "auto")
        b = produce(spec2, "splice-partner:%s/%s/%s" % (alg, enc, ser))
        if not b:
            continue
        n_splice += 1
        ta, tb = Tok(ser, a["token"]), Tok(ser, b["token"])
        for seg in ("header", "iv", "ct", "tag"):
            if getattr(ta, seg) == getattr(tb, seg):
                continue
            t = ta.clone()
            setattr(t, seg, getattr(tb, seg))
            attack(a, t, "splice:" + seg)
        if ta.recips[0]["ek"] and ta.recips[0]["ek"] != tb.recips[0]["ek"]:
            t = ta.clone()
            t.recips[0]["ek"] = tb.recips[0]["ek"]
            attack(a, t, "splice:ek")
        t = ta.clone()
        t.ct, t.tag, t.iv = tb.ct, tb.tag, tb.iv
        attack(a, t, "splice:iv+ct+tag")

    # -- several recipients: one wrong key, verify_all_recipients True / False
    for rec in multis:
        base = Tok("general", rec["token"])
        spec = rec["spec"]
        n = len(rec["keys"])
        for i in range(n):
            keys = list(rec["keys"])
            keys[i] = K.for_alg(spec["algs"][i], spec["enc"], spec["crv"], "alt")
            attack(rec, base.clone(), "multi:one-wrong-key:verify-all", keys=keys, verify_all=True)
            # (RSA1_5 with a wrong key yields a pseudo-random CEK instead of an error: a second CEK -> rejected; allowed)
            attack(rec, base.clone(), "multi:one-wrong-key:any", keys=keys, verify_all=False,
                   expect_reject=None if spec["algs"][i] == "RSA1_5" else False)
        allwrong = [K.for_alg(a, spec["enc"], spec["crv"], "alt") for a in spec["algs"]]
        attack(rec, base.clone(), "multi:all-wrong-keys:any", keys=allwrong, verify_all=False)
        # one recipient's encrypted key replaced by another recipient's
        if base.recips[0]["ek"] != base.recips[1]["ek"]:
            t = base.clone()
            t.recips[0]["ek"] = base.recips[1]["ek"]
            attack(rec, t, "multi:ek-swapped:verify-all", verify_all=True)
        for bit in bit_positions(ctx, len(base.tag), 2 if ctx.quick else 16):
            t = base.clone()
            t.tag = flip(base.tag, bit)
            attack(rec, t, "multi:bit:tag", verify_all=False)
        for label, hb in respellings(base.header)[:3]:
            t = base.clone()
            t.header = hb
            attack(rec, t, "multi:respell:" + label, verify_all=False)

    # ------------------------------------------------------------------ unauthenticated header injection
    # every JOSE parameter that steers processing is added to the shared unprotected header and to a recipient's
    # header (first / last) of JSON tokens; nothing covered by the tag changes, so the result must be a rejection or
    # EXACTLY the original plaintext.  Some plaintexts are valid raw DEFLATE streams, so that an inflate step driven by
    # an unauthenticated "zip" is observable as another plaintext.
    import zlib as _zlib
    inj_tokens = []
    for r in targets:
        if r["ser"] != "compact":
            inj_tokens.append(r)
    inj_tokens = inj_tokens[:ctx.scale(6, 60)] + multis[:ctx.scale(2, 20)]
    deflated = [_zlib.compress(x)[2:-4] for x in (b"", b"attack at dawn", b"a" * 300, bytes(range(64)))]
    dn = 0
    for ser in ("flat", "general"):
        for algs, enc in ((["A128KW"], "A128CBC-HS256"), (["dir"], "A256GCM"), (["ECDH-ES"], "A128GCM"),
                          (["A128KW", "RSA-OAEP"], "A128GCM"), (["ECDH-ES+A128KW", "A256KW", "A128GCMKW"], "A256CBC-HS512")):
            if len(algs) > 1 and ser == "flat":
                continue
            spec = J.make_spec(K, rng, ser, algs, enc, crv="P-256", plaintext=deflated[dn % len(deflated)],
                               aad=b"aad" if dn % 2 else None, unprotected={"cty": "x"} if dn % 3 == 0 else None)
            dn += 1
            r = produce(spec, "deflate-stream-plaintext:%s/%s/%s" % ("+".join(algs), enc, ser))
            if r:
                inj_tokens.append(r)
    other_enc = {"A128CBC-HS256": "A256GCM", "A256GCM": "A128CBC-HS256"}
    inj_epk = K.curve_key("P-256", "alt").as_dict(private=False)
    inj_n = 0
    for rec in inj_tokens:
        base = Tok(rec["ser"], rec["token"])
        enc0 = rec["spec"]["enc"]
        values = [("zip", "DEF"), ("enc", other_enc.get(enc0, "A128GCM")), ("alg", "dir"), ("alg", "A256KW"),
                  ("crit", ["zip"]), ("crit", ["exp"]), ("apu", "QWxpY2U"), ("apv", "Qm9i"), ("p2c", 1), ("p2s", "AAAAAAAAAAA"),
                  ("iv", J.b64e(bytes(12))), ("tag", J.b64e(bytes(16))), ("epk", inj_epk), ("skid", "someone"),
                  ("b64", False), ("x-unknown", "1")]
        positions = ["unprotected", "recipient-last"] + (["recipient-first"] if len(base.recips) > 1 else [])
        for name, val in values:
            for pos in positions:
                inj_n += 1
                if ctx.quick and name not in ("zip", "enc", "alg", "crit") and inj_n % 3:
                    continue
                t = base.clone()
                if pos == "unprotected":
                    t.unprotected = dict(t.unprotected or {}, **{name: val})
                else:
                    i = len(t.recips) - 1 if pos == "recipient-last" else 0
                    t.recips[i]["header"] = dict(t.recips[i]["header"] or {}, **{name: val})
                # all runs are judged on the implementation; the model replays zip / enc and a third of the others
                attack(rec, t, "inject:%s@%s" % (name, pos), expect_reject=None,
                       coq=(name in ("zip", "enc") or inj_n % 3 == 0 or not ctx.quick))

    # ------------------------------------------------------------------ NEAR keys for every algorithm that takes an oct key
    # the key material is the octets GIVEN (raw bytes, str or JWK dict): K||extra, K truncated, white space / NUL before or
    # after, one bit flipped, the base64url text of K - decrypt must fail unless the octets are equal
    from joserfc.jwk import OctKey
    secret = b"correct-horse-battery-staple/0123456789abcdefghijklmnopqrstuvwxyzABCDEFGH"
    near_algs = [("dir", "A128GCM", 16), ("dir", "A128CBC-HS256", 32), ("A128KW", "A128GCM", 16), ("A256KW", "A128CBC-HS256", 32),
                 ("A192GCMKW", "A256GCM", 24), ("PBES2-HS256+A128KW", "A128GCM", 20), ("PBES2-HS512+A256KW", "A256GCM", 9)]
    for ni, (alg, enc, klen) in enumerate(near_algs if not ctx.quick else near_algs[:2] + near_algs[2::2] + near_algs[5:6]):
        S = secret[ni:ni + klen]
        good = OctKey.import_key(S)
        for ser in (("compact", "flat") if not ctx.quick else ("compact",) if ni % 2 else ("flat",)):
            spec = J.make_spec(K, rng, ser, [alg], enc, plaintext=b"near keys %d" % ni)
            spec["recips"] = [(h, good) for h, _ in spec["recips"]]
            obs, info = J.encrypt_spec(spec)
            if obs[0] != "ok":
                ctx.violation({"kind": "encrypt-failed", "algs": alg, "enc": enc}, "encrypt with a text secret failed: %s" % obs[1], {"label": alg})
                continue
            tok = J.token_of(obs)
            flipped = bytes([S[0] ^ 1]) + S[1:]
            variants = [("same", S), ("plus-1", S + b"x"), ("plus-8", S + b"12345678"), ("plus-16", S + S[:16].ljust(16, b"p")),
                        ("minus-1", S[:-1]), ("minus-first", S[1:]), ("lead-space", b" " + S), ("lead-newline", b"\n" + S),
                        ("lead-tab", b"\t" + S), ("trail-space", S + b" "), ("trail-newline", S + b"\n"), ("lead-nul", b"\x00" + S),
                        ("trail-nul", S + b"\x00"), ("bit-flip", flipped), ("base64url-text", J.b64e(S).encode("ascii"))]
            for vname, V in variants:
                for route in ("bytes", "str", "jwk"):
                    if ctx.quick and route == "str" and vname in ("plus-8", "plus-16", "minus-first", "trail-newline"):
                        continue
                    try:
                        if route == "bytes":
                            kv = OctKey.import_key(V)
                        elif route == "str":
                            kv = OctKey.import_key(V.decode("ascii"))
                        else:
                            kv = OctKey.import_key({"kty": "oct", "k": J.b64e(V)})
                    except Exception:  # noqa: a refused import is a rejection
                        bump("near-key-import-refused")
                        continue
                    o2, (nlog, nnd) = J.do_decrypt(J.dec_ser(ser), tok, [kv])
                    lab = "near-key:%s/%s:%s/%s/%s" % (vname, route, alg, enc, ser)
                    ctx.note_case(("near-key", lab))
                    bump("near-key")
                    # HMAC pads its key with zero octets: a PBES2 password with trailing NULs IS the same PBKDF2 input
                    hmac_equiv = alg.startswith("PBES2") and V.rstrip(b"\x00") == S.rstrip(b"\x00")
                    rp = {"ser": ser, "token": tok, "given_octets_hex": V.hex(), "right_octets_hex": S.hex(), "route": route,
                          "alg": alg, "expect": "reject" if V != S else b"".hex()}
                    if V != S and not hmac_equiv and o2[0] == "ok":
                        ctx.violation({"kind": "near-key-accepted", "variant": vname, "route": route, "alg": alg},
                                      "decrypt returned plaintext with a key whose octets differ from the encryption key (%s)" % lab, rp)
                    if V == S and (o2[0] != "ok" or o2[1] != spec["plaintext"]):
                        ctx.violation({"kind": "same-key-rejected", "route": route, "alg": alg},
                                      "the same key octets given as %s do not decrypt (%s): %s" % (route, lab, o2[1]), rp)
                    if not nnd and J.table_chars(nlog) < 40000 and (not ctx.quick or route != "str" or vname in ("same", "lead-space", "plus-1")):
                        cases.append(J.case_dec(J.dec_ser(ser), tok, [kv], None, True, o2, nlog)); meta.append(("near-key", lab))
                        # the model is given the octets that were HANDED IN, not what the key object kept of them
                        cases[-1] = cases[-1].replace(J.c_key(kv), "(mk_key %s %s true %s)" % (J.c_str("oct"), J.c_str(""), J.c_hex(V)), 1)

    # ------------------------------------------------------------------ registry selection x multi-recipient faults
    # every way of selecting the registry (none / algorithms= / registry= True|False / both); the caller opted into
    # any-recipient validation ONLY by passing its own registry with verify_all_recipients=False
    rec_algs = ["A128KW", "A256KW", "RSA-OAEP", "ECDH-ES+A128KW", "ECDH-ES+A256KW"]     # usable with the default registry
    sel_tokens = []
    for i in range(ctx.scale(3, 12)):
        enc = rng.choice(["A128CBC-HS256", "A256GCM", "A128GCM", "A256CBC-HS512"])
        algs = [rec_algs[(i + j) % len(rec_algs)] for j in range(2 + i % 2)]
        spec = J.make_spec(K, rng, "general", algs, enc, crv="P-256", zip_=(i % 2 == 1), plaintext=b"selection %d" % i,
                           aad=b"a" if i % 2 else None)
        obs, info = J.encrypt_spec(spec)
        if obs[0] == "ok":
            sel_tokens.append((spec, J.token_of(obs), [k for _, k in info["recips"]]))
    sel_names = ["A128KW", "A256KW", "RSA-OAEP", "ECDH-ES+A128KW", "ECDH-ES+A256KW", "dir", "A128CBC-HS256", "A256GCM",
                 "A128GCM", "A256CBC-HS512", "DEF"]

    def sel_run(label, spec, token, keys, faulty, ser="general"):
        for mode, use_algs, reg in J.SEL_MODES:
            algs_arg = sel_names if use_algs else None
            obs, (slog, nondet) = J.do_decrypt_sel(J.dec_ser(ser), token, keys, None, algs_arg, reg)
            ctx.note_case(("selection", label, mode, repr(token)[:200]))
            bump("selection-" + mode)
            opted_in = (reg is False)           # the caller's own registry says any-recipient validation
            rp = {"ser": ser, "token": token, "keys": [J.key_jwk(k) for k in keys], "sender": None, "mode": mode,
                  "algorithms": algs_arg, "registry_verify_all": reg, "expect": "reject" if faulty else spec["plaintext"].hex()}
            if faulty and obs[0] == "ok" and not opted_in:
                ctx.violation({"kind": "any-recipient-without-opt-in", "selection": mode},
                              "a JWE with a faulty recipient was accepted although the caller never opted into any-recipient "
                              "validation (registry selection: %s; %s)" % (mode, label), rp)
            if not faulty and (obs[0] != "ok" or obs[1] != spec["plaintext"]):
                ctx.violation({"kind": "valid-token-rejected", "selection": mode},
                              "a valid token is rejected under registry selection %s (%s): %s" % (mode, label, obs[1]), rp)
            if obs[0] == "ok" and obs[1] != spec["plaintext"]:
                ctx.violation({"kind": "wrong-plaintext", "selection": mode}, "other plaintext (%s, %s)" % (mode, label), rp)
            if not nondet and J.table_chars(slog) < 40000:
                cases.append(J.case_dec_sel(J.dec_ser(ser), token, keys, None, algs_arg, reg, obs, slog))
                meta.append(("selection", mode + ":" + label))

    for spec, token, keys in sel_tokens:
        lab = "+".join(spec["algs"]) + "/" + spec["enc"]
        sel_run("valid:" + lab, spec, token, keys, False)
        base = Tok("general", token)
        for i in range(len(keys)):
            t = base.clone()                                  # bit flip in recipient i's encrypted key
            ek = t.recips[i]["ek"]
            t.recips[i]["ek"] = flip(ek, rng.randrange(len(ek) * 8))
            sel_run("ek-bit-flip@%d:%s" % (i, lab), spec, t.build(), keys, True)
            wrong = list(keys)                                # recipient i wrapped for a foreign key
            wrong[i] = K.for_alg(spec["algs"][i], spec["enc"], "P-256", "alt")
            sel_run("foreign-key@%d:%s" % (i, lab), spec, token, wrong, True)
    # single recipient, compact and flattened: every selection behaves alike
    for ser in ("compact", "flat"):
        spec = J.make_spec(K, rng, ser, ["A128KW"], "A128GCM", plaintext=b"single " + ser.encode())
        obs, info = J.encrypt_spec(spec)
        if obs[0] == "ok":
            sel_run("single-valid:" + ser, spec, J.token_of(obs), [k for _, k in info["recips"]], False, ser=ser)
            sel_run("single-wrong-key:" + ser, spec, J.token_of(obs), [K.for_alg("A128KW", "A128GCM", "P-256", "alt")], True, ser=ser)

    # ------------------------------------------------------------------ key resolution (model/JweKeys.v)
    from joserfc.jwk import KeySet

    def kcase(label, ser, token, keysrc, sender, expect_pt, verify_all=True):
        """expect_pt: plaintext that must come back, or None = must be rejected"""
        obs, (klog, nondet) = J.do_decrypt_k(J.dec_ser(ser), token, keysrc, sender=sender, verify_all=verify_all)
        ctx.note_case(("keys", label, ser))
        bump("keys-" + label.split(":")[0])
        rp = {"ser": ser, "token": token, "label": label, "expect": "reject" if expect_pt is None else expect_pt.hex(),
              "keysrc": repr(keysrc)[:300]}
        if expect_pt is None and obs[0] == "ok":
            ctx.violation({"kind": "key-resolution-accepts", "case": label.split(":")[0], "ser": ser},
                          "decrypt returned plaintext although the key named by the header must not be usable (%s)" % label, rp)
        if expect_pt is not None and (obs[0] != "ok" or obs[1] != expect_pt):
            ctx.violation({"kind": "key-resolution-rejects", "case": label.split(":")[0], "ser": ser},
                          "decrypt with the key named by the merged header failed (%s): %s" % (label, obs[1] if obs[0] == "err" else "other plaintext"), rp)
        if not nondet and J.table_chars(klog) < 40000:
            cases.append(J.case_dec_k(J.dec_ser(ser), token, keysrc, sender, verify_all, obs, klog))
            meta.append(("keys", label))
        return obs

    kalgs = [("A128KW", "A128GCM", "P-256"), ("RSA-OAEP", "A128CBC-HS256", "P-256"), ("ECDH-ES+A128KW", "A256GCM", "P-384"),
             ("dir", "A128CBC-HS256", "P-256"), ("PBES2-HS256+A128KW", "C20P", "P-256"), ("ECDH-ES", "A128GCM", "X25519")]
    if not ctx.quick:
        kalgs += [(a, "A128CBC-HS256", c) for a in J.ALL_ALGS if a not in J.PU_ALGS for c in ("P-521", "X448")][::3]
    for n, (alg, enc, crv) in enumerate(kalgs):
        good = J.key_with(K.for_alg(alg, enc, crv), kid="right-%d" % n, use=[None, "enc"][n % 2])
        decoy = J.key_with(K.for_alg(alg, enc, crv, "alt"), kid="decoy-%d" % n)
        decoy2 = J.key_with(K.for_alg("A256KW", enc), kid="other-%d" % n)
        sig_key = J.key_with(K.for_alg(alg, enc, crv), kid="sig-%d" % n, use="sig")
        pt = b"key resolution %d" % n
        for ser in ("compact", "flat", "general"):
            for where in (["protected"] if ser == "compact" else ["protected", "unprotected", "recipient"]):
                hdr = J.recipient_header(rng, alg)
                prot, unprot, rh = {"enc": enc}, None, None
                if ser == "compact":
                    prot.update(hdr); prot["kid"] = good.kid
                elif where == "protected":
                    prot["kid"] = good.kid; rh = hdr
                elif where == "unprotected":
                    unprot = {"kid": good.kid}; rh = hdr
                else:
                    rh = dict(hdr, kid=good.kid)
                obs, info = J.do_encrypt(ser, prot, pt, [(rh, good)], unprotected=unprot)
                if obs[0] != "ok":
                    ctx.violation({"kind": "encrypt-failed", "algs": alg, "enc": enc}, "encrypt with a kid failed: %s" % obs[1], {"label": alg})
                    continue
                tok = J.token_of(obs)
                tag = "%s/%s/%s" % (alg, ser, where)
                kcase("keyset-kid:" + tag, ser, tok, KeySet([decoy, good, decoy2]), None, pt)
                kcase("keyset-kid-last:" + tag, ser, tok, KeySet([decoy2, decoy, good]), None, pt)
                kcase("key-object:" + tag, ser, tok, good, None, pt)
                kcase("callable-keyset:" + tag, ser, tok, [KeySet([decoy, good])], None, pt)
                kcase("callable-key:" + tag, ser, tok, [good], None, pt)
                kcase("keyset-without-named-key:" + tag, ser, tok, KeySet([decoy, decoy2]), None, None)
                kcase("use-sig:" + tag, ser, tok, sig_key, None, None)
                kcase("use-sig-in-keyset:" + tag, ser, tok, KeySet([decoy, J.key_with(sig_key, kid=good.kid)]), None, None)
                # the kid of the MERGED header decides: a wrong kid in a higher-priority position hides the right one
                t2 = Tok(ser, tok)
                if ser != "compact" and where != "recipient":
                    t2.recips[0]["header"] = dict(t2.recips[0]["header"] or {}, kid=decoy.kid)
                    kcase("kid-overridden-by-recipient-header:" + tag, ser, t2.build(), KeySet([decoy, good, decoy2]), None, None)
                if ser != "compact" and where == "protected":
                    t3 = Tok(ser, tok)
                    t3.unprotected = {"kid": decoy.kid}
                    kcase("kid-overridden-by-unprotected:" + tag, ser, t3.build(), KeySet([decoy, good, decoy2]), None, None)
                if ser != "compact" and where == "recipient":
                    t4 = Tok(ser, tok)
                    t4.unprotected = {"kid": decoy.kid}
                    kcase("recipient-kid-wins-over-unprotected:" + tag, ser, t4.build(), KeySet([decoy, good, decoy2]), None, pt)
        # no kid at all
        spec = J.make_spec(K, rng, "compact", [alg], enc, crv=crv, plaintext=pt)
        spec["recips"] = [(None, good)]
        obs, info = J.encrypt_spec(spec)
        if obs[0] == "ok":
            tok = J.token_of(obs)
            kcase("no-kid-single-key-set:" + alg, "compact", tok, KeySet([good]), None, pt)
            kcase("no-kid-two-key-set:" + alg, "compact", tok, KeySet([good, decoy]), None, None)
    # several recipients resolved from one KeySet / from a callable
    for i in range(ctx.scale(4, 30)):
        enc = rng.choice(J.CBC_ENCS)
        algs = [rng.choice(["A128KW", "A256KW", "ECDH-ES+A128KW", "A128GCMKW", "PBES2-HS256+A128KW"]) for _ in range(2 + i % 2)]
        gk = [J.key_with(K.for_alg(a, enc, "P-256"), kid="r%d-%d" % (i, j)) for j, a in enumerate(algs)]
        recs = [(dict(J.recipient_header(rng, a), kid=k.kid), k) for a, k in zip(algs, gk)]
        obs, info = J.do_encrypt("general", {"enc": enc}, b"many %d" % i, recs)
        if obs[0] != "ok":
            continue
        tok = J.token_of(obs)
        dk = J.key_with(K.for_alg("A192KW", enc), kid="zz%d" % i)
        kcase("multi-keyset", "general", tok, KeySet([dk] + gk), None, b"many %d" % i)
        kcase("multi-callable", "general", tok, list(gk), None, b"many %d" % i)
        kcase("multi-keyset-one-missing:verify-all", "general", tok, KeySet([dk] + gk[1:]), None, None)
        kcase("multi-keyset-one-missing:any", "general", tok, KeySet([dk] + gk[1:]), None, None, verify_all=False)
    # ECDH-1PU: sender key from a KeySet by "skid", use of the sender key
    for i, crv in enumerate(["P-256", "X25519"] if ctx.quick else J.ALL_CURVES):
        for alg, enc in (("ECDH-1PU", "A128GCM"), ("ECDH-1PU+A128KW", "A128CBC-HS256")):
            rk = J.key_with(K.curve_key(crv), kid="bob-%d" % i)
            sk = J.key_with(K.curve_key(crv, "sender"), kid="alice-%d" % i)
            sk_sig = J.key_with(K.curve_key(crv, "sender"), kid="alice-%d" % i, use="sig")
            other = J.key_with(K.curve_key(crv, "alt"), kid="carol-%d" % i)
            pt = b"from alice %d" % i
            for ser in ("compact", "flat"):
                hdr = {"alg": alg, "skid": sk.kid}
                prot = dict({"enc": enc}, **hdr) if ser == "compact" else {"enc": enc}
                obs, info = J.do_encrypt(ser, prot, pt, [(None if ser == "compact" else hdr, rk)], sender=sk)
                if obs[0] != "ok":
                    ctx.violation({"kind": "encrypt-failed", "algs": alg, "enc": enc}, "1PU encrypt with skid failed: %s" % obs[1], {"label": alg})
                    continue
                tok = J.token_of(obs)
                tag = "%s/%s/%s" % (alg, crv, ser)
                kcase("skid-keyset:" + tag, ser, tok, rk, KeySet([other, sk]), pt)
                kcase("sender-key-object:" + tag, ser, tok, rk, sk, pt)
                kcase("skid-not-in-keyset:" + tag, ser, tok, rk, KeySet([other]), None)
                kcase("sender-use-sig:" + tag, ser, tok, rk, sk_sig, None)
                kcase("sender-use-sig-in-keyset:" + tag, ser, tok, rk, KeySet([other, sk_sig]), None)
                kcase("no-sender-key:" + tag, ser, tok, rk, None, None)
                kcase("empty-sender-keyset:" + tag, ser, tok, rk, KeySet([]), None)
                t5 = Tok(ser, tok)
                if ser == "flat":
                    t5.recips[0]["header"] = {k: v for k, v in t5.recips[0]["header"].items() if k != "skid"}
                    kcase("no-skid-with-keyset:" + tag, ser, t5.build(), rk, KeySet([other, sk]), None)
    # encryption side: declared use of pre-attached recipient keys and of the sender key
    for ser in ("compact", "flat", "general"):
        for alg, enc in (("A128KW", "A128GCM"), ("ECDH-1PU", "A128GCM")):
            for ruse, suse in ((None, None), ("enc", "enc"), ("sig", None), (None, "sig"), ("sig", "sig")):
                rk = J.key_with(K.for_alg(alg, enc, "P-256"), use=ruse)
                sk = J.key_with(K.curve_key("P-256", "sender"), use=suse) if alg == "ECDH-1PU" else None
                if sk is None and suse is not None:
                    continue
                hdr = {"alg": alg}
                prot = dict({"enc": enc}, **hdr) if ser == "compact" else {"enc": enc}
                obs, info = J.do_encrypt(ser, prot, b"use", [(None if ser == "compact" else hdr, rk)], sender=sk)
                ctx.note_case(("keys", "encrypt-use", ser, alg, ruse, suse))
                bump("keys-encrypt-use")
                bad = ruse == "sig" or (sk is not None and suse == "sig")
                if bad and obs[0] == "ok":
                    ctx.violation({"kind": "key-use-ignored-on-encrypt", "ser": ser, "alg": alg},
                                  "encryption accepted a key declared for use=sig (recipient use=%s, sender use=%s)" % (ruse, suse),
                                  {"ser": ser, "alg": alg, "recipient_use": ruse, "sender_use": suse})
                if not bad and obs[0] != "ok":
                    ctx.violation({"kind": "encrypt-failed", "algs": alg, "enc": enc}, "encrypt failed: %s" % obs[1], {"label": alg})
                if not info["nondet"]:
                    cases.append(J.case_enc_k(obs, info)); meta.append(("keys", "encrypt-use:%s/%s/%s/%s" % (ser, alg, ruse, suse)))
    # the new ECDH-1PU decrypt paths: no sender key, recipient key of another type
    for rec in [r for r in produced if r["spec"]["algs"][0] in J.PU_ALGS and not r["label"].startswith("multi:")][:ctx.scale(6, 60)]:
        base = Tok(rec["ser"], rec["token"])
        attack(rec, base.clone(), "key:no-sender", sender=None)
        attack(rec, base.clone(), "key:oct-recipient", keys=[K.oct[128]])
        attack(rec, base.clone(), "key:rsa-recipient", keys=[K.rsa])
        other_kind = K.curve_key("X25519" if rec["spec"]["crv"] in J.EC_CURVES else "P-256", "sender")
        attack(rec, base.clone(), "key:sender-other-kind", sender=other_kind)

    ctx.coverage["input_distribution"] = dist
    ctx.coverage["rule"] = ("plaintext returned => the decoded octets (protected, ek, iv, ct, tag, aad) are those of a token that was "
                            "produced with these keys; model verdict (Ok plaintext+header | exception class) == implementation verdict "
                            "with the model's primitives answered from the recorded calls of the real run")
    ctx.coverage["valid_tokens"] = len(produced)
    ctx.coverage["skipped_nondeterministic"] = skipped_nondet[0]
    ctx.coverage["skipped_large_tables"] = big_skipped[0]
    if produced:
        ctx.sample({"valid": produced[0]["label"], "token": str(produced[0]["token"])[:160]})
    if cases:
        ctx.sample({"coq_case": cases[0][:300]})

    # ------------------------------------------------------------------ correspondence
    import time as _t
    t_gen = _t.time() - ctx.t0
    res = J.coq_eval(cases, jobs=10 if ctx.quick else 14)
    ctx.coverage["timing"] = {"prove+generate_s": round(t_gen, 1), "coq_eval_s": round(_t.time() - ctx.t0 - t_gen, 1),
                              "case_chars": sum(len(c) for c in cases)}
    ctx.coverage["traces_validated_against_impl"] = res["evaluated"]
    ctx.coverage["disagreements_checked"] = len(res["failing"])
    direct = len(ctx.violations)
    for i in res["failing"][:20]:
        ctx.violation({"kind": "correspondence", "what": meta[i][1].split(":")[0] if len(meta[i]) > 1 else meta[i][0]},
                      "model and implementation disagree on %r" % (meta[i],),
                      {"case": cases[i][:20000], "no_failing_input_found": direct == 0,
                       "broken": "correspondence model/JweCases.v:jwe_check vs joserfc.jwe decrypt"})
    for si, e in res["errors"][:5]:
        ctx.violation({"kind": "correspondence-error"}, "coqc failed on a generated case file",
                      {"output": e, "no_failing_input_found": True, "broken": "case evaluation"})
    if not ok:
        ctx.violation({"kind": "proof-broken"}, "props/C02.v or its closure no longer compiles",
                      {"log": log[-3000:], "no_failing_input_found": direct == 0 and not res["failing"],
                       "broken": "theorems of props/C02.v"})
    ctx.assumptions += [
        "external primitives (HMAC, AES-CBC, AES-GCM, ChaCha20-Poly1305, AES-KW, RSA, PBKDF2, Concat KDF hash, ECDH, validating JWK import, "
        "json.loads/dumps, zip model, registry.check_header) are oracles of the model; in the differential run they are the finite tables "
        "recorded from the real run (a query the real run did not make = disagreement)",
        "tamper theorems c02_tamper_* assume the ideal-AEAD / ideal-wrap premises stated in their statements",
        "key resolution (guess_key, KeySet, use / key_ops checks) is outside this model (C06 / C14): keys are given per recipient",
    ]
    if not ctx.quick:
        ctx.coqchk()


def replay(path):
    J.install()
    r = json.load(open(path))["replay"]
    print("replay:", {k: (str(v)[:200]) for k, v in r.items()})
    if "token" not in r:
        print("no direct input in this replay (model / proof level); see the file")
        return 1
    keys = [J.key_from_jwk(k) for k in r["keys"]]
    sender = J.key_from_jwk(r["sender"])
    obs, _ = J.do_decrypt(J.dec_ser(r["ser"]), r["token"], keys, sender=sender, verify_all=r["verify_all"])
    print("result:", obs[:2])
    if r["expect"] == "reject":
        return 1 if obs[0] == "ok" else 0
    return 0 if (obs[0] == "ok" and obs[1].hex() == r["expect"]) else 1
