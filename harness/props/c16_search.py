"""C16 search machinery: token builders (independent of joserfc's producers),
structural mutators and the executor with the property's own oracle.
Used by harness/props/c16.py (kept separate only for size)."""
from __future__ import annotations
import base64, hashlib, hmac, json, os, struct, sys, traceback, zlib

# ---------------------------------------------------------------------------
# fixed keys (generated once; JWK form)
# ---------------------------------------------------------------------------
KEYS_JSON = json.load(open(os.path.join(os.path.dirname(os.path.abspath(__file__)), "c16_keys.json")))

KEYS_JSON.setdefault("oct24", {"kty": "oct", "k": base64.urlsafe_b64encode(bytes(range(24))).rstrip(b"=").decode(), "kid": "oct24"})
KEYS_JSON.setdefault("oct48", {"kty": "oct", "k": base64.urlsafe_b64encode(bytes(range(48))).rstrip(b"=").decode(), "kid": "oct48"})
KEY_NAMES = ["oct16", "oct32", "oct64", "rsa", "ec256", "ec384", "ec521", "ed25519", "ed448", "x25519", "x448",
             "ec256k", "ec256b", "x25519b", "x448b"]
SET_NAMES = ["set:all", "set:oct16", "set:empty", "set:nokid2"]

JWS_ALGS = ["none", "HS256", "HS384", "HS512", "RS256", "RS384", "RS512", "ES256", "ES384", "ES512",
            "PS256", "PS384", "PS512", "EdDSA", "ES256K"]
JWE_ALGS = ["RSA1_5", "RSA-OAEP", "RSA-OAEP-256", "A128KW", "A192KW", "A256KW", "dir", "ECDH-ES",
            "ECDH-ES+A128KW", "ECDH-ES+A192KW", "ECDH-ES+A256KW", "A128GCMKW", "A192GCMKW", "A256GCMKW",
            "PBES2-HS256+A128KW", "PBES2-HS384+A192KW", "PBES2-HS512+A256KW"]
JWE_ALGS += ["ECDH-1PU", "ECDH-1PU+A128KW", "ECDH-1PU+A192KW", "ECDH-1PU+A256KW"]      # drafts (registered by ensure_drafts)
JWE_ENCS = ["A128CBC-HS256", "A192CBC-HS384", "A256CBC-HS512", "A128GCM", "A192GCM", "A256GCM", "C20P", "XC20P"]
JWE_ALL = JWE_ALGS + JWE_ENCS + ["DEF"]

_keys_cache = {}


_drafts_done = []


def ensure_drafts():
    """register the draft algorithms (ECDH-1PU, C20P / XC20P) as an application would"""
    if not _drafts_done:
        from joserfc.drafts.jwe_ecdh_1pu import register_ecdh_1pu
        from joserfc.drafts.jwe_chacha20 import register_chaha20_poly1305
        register_ecdh_1pu()
        register_chaha20_poly1305()
        _drafts_done.append(1)


CALLABLES = ["call:oct16", "call:oct32", "call:rsa", "call:ec256", "call:set:all", "call:set:empty", "call:str", "call:bytes",
             "call:emptystr", "call:none", "call:int", "call:dict", "call:list"]


def resolve_key(keyname):
    """'name' | 'call:<what>' (a callable key) ; optional '+s:<sender>' suffix -> (key argument, sender_key or None)"""
    sender = None
    if "+s:" in keyname:
        keyname, sn = keyname.split("+s:", 1)
        sender = keys()[sn]
    if keyname.startswith("call:nested:"):
        inner = keys()[keyname[len("call:nested:"):]]

        def nested(obj):
            # a key callable that itself processes a hostile token before answering
            from joserfc import jws as _jws, jwe as _jwe
            for f, v in ((_jws.deserialize_compact, "ImFsZyI.e30.e30"), (_jwe.decrypt_compact, "ImFsZ2VuYyI...."),
                         (_jwe.decrypt_json, {"protected": "e30", "iv": "", "ciphertext": "", "tag": ""})):
                try:
                    f(v, inner)
                except Exception:  # noqa
                    pass
            return inner
        return nested, sender
    if keyname.startswith("call:"):
        what = keyname[5:]
        ret = {"str": "secret-secret-secret-secret-1234", "bytes": b"0123456789abcdef", "emptystr": "", "none": None, "int": 5,
               "dict": dict(KEYS_JSON["oct16"]), "list": []}
        val = ret[what] if what in ret else keys()[what]
        return (lambda obj: val), sender
    return keys()[keyname], sender


def keys():
    """name -> Key / KeySet (fresh objects are NOT needed: consuming calls do not mutate keys
    except ensure_kid, and every fixed key already has a kid)."""
    if _keys_cache:
        return _keys_cache
    ensure_drafts()
    from joserfc.jwk import JWKRegistry, KeySet
    for n in KEY_NAMES:
        _keys_cache[n] = JWKRegistry.import_key(dict(KEYS_JSON[n]))
    from joserfc.jwk import OctKey
    _keys_cache["oct24"] = OctKey.import_key({"kty": "oct", "k": b64u(bytes(range(24))), "kid": "oct24"})
    _keys_cache["oct48"] = OctKey.import_key({"kty": "oct", "k": b64u(bytes(range(48))), "kid": "oct48"})
    _keys_cache["set:all"] = KeySet([JWKRegistry.import_key(dict(KEYS_JSON[n])) for n in KEY_NAMES])
    _keys_cache["set:oct16"] = KeySet([JWKRegistry.import_key(dict(KEYS_JSON["oct16"]))])
    _keys_cache["set:empty"] = KeySet([])
    a = dict(KEYS_JSON["oct16"]); a.pop("kid")
    b = dict(KEYS_JSON["ec256"]); b.pop("kid")
    _keys_cache["set:nokid2"] = KeySet([JWKRegistry.import_key(a), JWKRegistry.import_key(b)])
    return _keys_cache


def b64u(b: bytes) -> str:
    return base64.urlsafe_b64encode(b).rstrip(b"=").decode("ascii")


def b64u_dec(s: str) -> bytes:
    return base64.urlsafe_b64decode(s + "=" * (-len(s) % 4))


def jdump(v) -> bytes:
    """JSON text of any JSON value (the header object may be any JSON value here)."""
    return json.dumps(v, separators=(",", ":"), ensure_ascii=True).encode("ascii")


# ---------------------------------------------------------------------------
# independent producers (pyca / hashlib directly; never joserfc's sign/encrypt)
# ---------------------------------------------------------------------------
def _pyca_private(name):
    from cryptography.hazmat.primitives.asymmetric import rsa, ec, ed25519, ed448
    j = KEYS_JSON[name]
    if j["kty"] == "RSA":
        g = lambda k: int.from_bytes(b64u_dec(j[k]), "big")
        pub = rsa.RSAPublicNumbers(g("e"), g("n"))
        return rsa.RSAPrivateNumbers(g("p"), g("q"), g("d"), g("dp"), g("dq"), g("qi"), pub).private_key()
    if j["kty"] == "EC":
        crv = {"P-256": ec.SECP256R1(), "P-384": ec.SECP384R1(), "P-521": ec.SECP521R1()}[j["crv"]]
        return ec.derive_private_key(int.from_bytes(b64u_dec(j["d"]), "big"), crv)
    if j["crv"] == "Ed25519":
        return ed25519.Ed25519PrivateKey.from_private_bytes(b64u_dec(j["d"]))
    if j["crv"] == "Ed448":
        return ed448.Ed448PrivateKey.from_private_bytes(b64u_dec(j["d"]))
    raise KeyError(name)


_priv_cache = {}


def priv(name):
    if name not in _priv_cache:
        _priv_cache[name] = _pyca_private(name)
    return _priv_cache[name]


SIGN_KEY = {"HS256": "oct32", "HS384": "oct64", "HS512": "oct64", "RS256": "rsa", "PS256": "rsa",
            "ES256": "ec256", "ES384": "ec384", "ES512": "ec521", "EdDSA": "ed25519", "none": "oct32"}


def raw_sign(alg: str, keyname: str, msg: bytes) -> bytes:
    from cryptography.hazmat.primitives import hashes
    from cryptography.hazmat.primitives.asymmetric import padding, ec
    from cryptography.hazmat.primitives.asymmetric.utils import decode_dss_signature
    if alg.startswith("HS"):
        return hmac.new(b64u_dec(KEYS_JSON[keyname]["k"]), msg, getattr(hashlib, "sha" + alg[2:])).digest()
    if alg == "none":
        return b""
    h = {"256": hashes.SHA256(), "384": hashes.SHA384(), "512": hashes.SHA512()}.get(alg[2:])
    if alg.startswith("RS"):
        return priv(keyname).sign(msg, padding.PKCS1v15(), h)
    if alg.startswith("PS"):
        return priv(keyname).sign(msg, padding.PSS(mgf=padding.MGF1(h), salt_length=h.digest_size), h)
    if alg.startswith("ES"):
        k = priv(keyname)
        r, s = decode_dss_signature(k.sign(msg, ec.ECDSA(h)))
        n = (k.curve.key_size + 7) // 8
        return r.to_bytes(n, "big") + s.to_bytes(n, "big")
    if alg == "EdDSA":
        return priv(keyname).sign(msg)
    raise KeyError(alg)


def jws_compact(header, payload: bytes, alg="HS256", keyname=None, header_raw: bytes | None = None,
                unencoded=False) -> str:
    """header: any JSON value.  Signs base64url(header JSON) '.' base64url(payload)
    (or the raw payload when unencoded) with `alg` (the REAL algorithm used for the
    signature, whatever the header says)."""
    hs = b64u(header_raw if header_raw is not None else jdump(header))
    ps = payload.decode("latin1") if unencoded else b64u(payload)
    keyname = keyname or SIGN_KEY[alg]
    sig = raw_sign(alg, keyname, (hs + "." + ps).encode("latin1"))
    return hs + "." + ps + "." + b64u(sig)


def jws_member(protected, header, payload_seg: str, alg="HS256", keyname=None, omit_protected=False) -> dict:
    """one signature object of the JSON serialization; protected is any JSON value"""
    m = {}
    if omit_protected:
        ps = ""
    else:
        ps = b64u(jdump(protected))
        m["protected"] = ps
    if header is not None:
        m["header"] = header
    keyname = keyname or SIGN_KEY[alg]
    m["signature"] = b64u(raw_sign(alg, keyname, (ps + "." + payload_seg).encode("latin1")))
    return m


def gcm_encrypt(cek: bytes, iv: bytes, pt: bytes, aad: bytes):
    from cryptography.hazmat.primitives.ciphers.aead import AESGCM
    out = AESGCM(cek).encrypt(iv, pt, aad)
    return out[:-16], out[-16:]


def cbc_encrypt(cek: bytes, iv: bytes, pt: bytes, aad: bytes):
    from cryptography.hazmat.primitives.ciphers import Cipher, algorithms, modes
    from cryptography.hazmat.primitives.padding import PKCS7
    n = len(cek) // 2
    hk, ek = cek[:n], cek[n:]
    p = PKCS7(128).padder()
    data = p.update(pt) + p.finalize()
    e = Cipher(algorithms.AES(ek), modes.CBC(iv)).encryptor()
    ct = e.update(data) + e.finalize()
    hname = {16: "sha256", 24: "sha384", 32: "sha512"}[n]
    tag = hmac.new(hk, aad + iv + ct + struct.pack(">Q", len(aad) * 8), getattr(hashlib, hname)).digest()[:n]
    return ct, tag


ENC_CEK = {"A128CBC-HS256": 32, "A192CBC-HS384": 48, "A256CBC-HS512": 64, "A128GCM": 16, "A192GCM": 24, "A256GCM": 32,
           "C20P": 32, "XC20P": 32}
DIR_KEY = {16: "oct16", 32: "oct32", 64: "oct64"}


def content_encrypt(enc: str, cek: bytes, pt: bytes, aad: bytes):
    if enc in ("C20P", "XC20P"):
        from Crypto.Cipher import ChaCha20_Poly1305
        iv = bytes(range(12 if enc == "C20P" else 24))
        c = ChaCha20_Poly1305.new(key=cek, nonce=iv)
        c.update(aad)
        ct, tag = c.encrypt_and_digest(pt)
        return iv, ct, tag
    if enc.endswith("GCM"):
        iv = bytes(range(12))
        ct, tag = gcm_encrypt(cek, iv, pt, aad)
    else:
        iv = bytes(range(16))
        ct, tag = cbc_encrypt(cek, iv, pt, aad)
    return iv, ct, tag


def raw_deflate(data: bytes) -> bytes:
    c = zlib.compressobj(6, zlib.DEFLATED, -15)
    return c.compress(data) + c.flush()


def jwe_dir_compact(header, plaintext: bytes, enc="A128GCM", keyname="oct16", header_raw=None) -> str:
    """authentic JWE (direct encryption) around ANY header JSON value: AAD is the
    header segment, CEK the oct key, so every stage after key management is reached."""
    hs = b64u(header_raw if header_raw is not None else jdump(header))
    cek = b64u_dec(KEYS_JSON[keyname]["k"])
    iv, ct, tag = content_encrypt(enc, cek, plaintext, hs.encode("ascii"))
    return ".".join([hs, "", b64u(iv), b64u(ct), b64u(tag)])


def jwe_dir_json(protected, plaintext: bytes, enc="A128GCM", keyname="oct16", unprotected=None, header=None,
                 aad: bytes | None = None, general=False, extra_recipients=()):
    hs = b64u(jdump(protected))
    cek = b64u_dec(KEYS_JSON[keyname]["k"])
    a = hs.encode("ascii")
    if aad:
        a = a + b"." + b64u(aad).encode("ascii")
    iv, ct, tag = content_encrypt(enc, cek, plaintext, a)
    d = {"protected": hs, "iv": b64u(iv), "ciphertext": b64u(ct), "tag": b64u(tag)}
    if aad is not None:
        d["aad"] = b64u(aad)
    if unprotected is not None:
        d["unprotected"] = unprotected
    if general:
        r = {}
        if header is not None:
            r["header"] = header
        d["recipients"] = [r] + list(extra_recipients)
    elif header is not None:
        d["header"] = header
    return d


# ---------------------------------------------------------------------------
# entry points
# ---------------------------------------------------------------------------
ENTRIES_COMPACT = ["jws.deserialize_compact", "rfc7797.deserialize_compact", "jwe.decrypt_compact",
                   "jwt.decode/jws", "jwt.decode/jwe"]
ENTRIES_JSON = ["jws.deserialize_json", "rfc7797.deserialize_json", "jwe.decrypt_json"]


FEW_JWS = ["HS256", "ES256"]
FEW_JWE = ["dir", "A128KW", "ECDH-ES", "A128GCM", "A128CBC-HS256", "DEF"]


def call_entry(entry: str, value, keyname: str, reg: str):
    if entry == "jws.extract+validate":
        # the two public steps of deserialize_compact; a False result is a rejection, not an escape
        from joserfc import jws as _jws, util as _util
        key, _ = resolve_key(keyname)
        obj = _jws.extract_compact(_util.to_bytes(value))
        kw = {"algorithms": JWS_ALGS} if reg in ("all", "lax") else {"algorithms": FEW_JWS} if reg == "few" else {}
        return _jws.validate_compact(obj, key, **kw)
    if entry == "jws.detach+verify":
        # detach_content is a producer-side helper (not in the statement): only what verification does with its
        # output is judged; its own failure on a string without two dots is not
        from joserfc import jws as _jws, rfc7797 as _r
        key, _ = resolve_key(keyname)
        try:
            d = _jws.detach_content(value)
        except Exception:  # noqa
            return "detach_content raised"
        seg = value.split(".")[1] if isinstance(value, str) and value.count(".") >= 1 else ""
        kw = {"algorithms": JWS_ALGS} if reg != "default" else {}
        try:
            _jws.deserialize_compact(d, key, **kw)
        except (ValueError, Exception) as e:  # noqa
            from joserfc.errors import JoseError
            if not isinstance(e, (ValueError, JoseError)):
                raise
        return _r.deserialize_compact(d, key, payload=seg, **kw)
    return _call_entry(entry, value, keyname, reg)


def _call_entry(entry: str, value, keyname: str, reg: str):
    """reg: 'default' (library default registry), 'all' (every registered algorithm allowed),
    'lax' (all algorithms, strict_check_header=False)"""
    from joserfc import jws, jwe, jwt, rfc7797
    from joserfc.rfc7797.registry import JWSRegistry as R7797
    key, sender = resolve_key(keyname)
    if entry in ("jws.deserialize_compact", "jws.deserialize_json", "jwt.decode/jws"):
        kw = {}
        if reg == "all":
            kw = {"algorithms": JWS_ALGS}
        elif reg == "few":
            kw = {"algorithms": FEW_JWS}
        elif reg == "lax":
            kw = {"registry": jws.JWSRegistry(algorithms=JWS_ALGS, strict_check_header=False)}
        f = {"jws.deserialize_compact": jws.deserialize_compact, "jws.deserialize_json": jws.deserialize_json,
             "jwt.decode/jws": jwt.decode}[entry]
        return f(value, key, **kw)
    if entry in ("rfc7797.deserialize_compact", "rfc7797.deserialize_json"):
        kw = {}
        if reg == "all":
            kw = {"algorithms": JWS_ALGS}
        elif reg == "few":
            kw = {"algorithms": FEW_JWS}
        elif reg == "lax":
            kw = {"registry": R7797(algorithms=JWS_ALGS, strict_check_header=False)}
        f = rfc7797.deserialize_compact if entry.endswith("compact") else rfc7797.deserialize_json
        return f(value, key, **kw)
    if entry in ("jwe.decrypt_compact", "jwe.decrypt_json"):
        kw = {}
        if reg == "all":
            kw = {"algorithms": JWE_ALL}
        elif reg == "few":
            kw = {"algorithms": FEW_JWE}
        elif reg == "lax":
            kw = {"registry": jwe.JWERegistry(algorithms=JWE_ALL, strict_check_header=False)}
        elif reg == "any1":
            kw = {"registry": jwe.JWERegistry(algorithms=JWE_ALL, verify_all_recipients=False)}
        f = jwe.decrypt_compact if entry.endswith("compact") else jwe.decrypt_json
        if sender is not None:
            kw["sender_key"] = sender
        return f(value, key, **kw)
    if entry == "jwt.decode/jwe":
        if reg == "default":
            r = jwe.JWERegistry()
        elif reg == "few":
            r = jwe.JWERegistry(algorithms=FEW_JWE)
        elif reg == "lax":
            r = jwe.JWERegistry(algorithms=JWE_ALL, strict_check_header=False)
        else:
            r = jwe.JWERegistry(algorithms=JWE_ALL)
        return jwt.decode(value, key, registry=r)
    raise KeyError(entry)


def innermost(e: BaseException):
    """(function, file:line) of the innermost joserfc frame of the traceback"""
    fn, loc = "?", "?"
    for fr in traceback.extract_tb(e.__traceback__):
        f = fr.filename.replace("\\", "/")
        if "/joserfc/" in f:
            mod = f.split("/joserfc/", 1)[1][:-3].replace("/", ".")
            fn, loc = "%s.%s" % (mod, fr.name), "%s:%d" % (f.split("/joserfc/", 1)[1], fr.lineno)
    return fn, loc


def exc_name(e: BaseException) -> str:
    t = type(e)
    if t.__module__ in ("builtins",):
        return t.__name__
    return "%s.%s" % (t.__module__, t.__name__)


def execute(entry, value, keyname, reg):
    """-> (status, exc)  status in ok / rejected / escape"""
    from joserfc.errors import JoseError
    try:
        call_entry(entry, value, keyname, reg)
        return "ok", None
    except (JoseError, ValueError) as e:
        return "rejected", e
    except BaseException as e:  # noqa  (pyo3 PanicException derives from BaseException)
        if isinstance(e, (KeyboardInterrupt, SystemExit, MemoryError)):
            raise
        return "escape", e


# ---------------------------------------------------------------------------
# value encodings for replay files
# ---------------------------------------------------------------------------
# deep / long values (built iteratively; json.dumps / repr / == of them may exceed the recursion limit, so
# the harness itself never recurses into them: they are written as {"$deep": [kind, n]} markers)
_DEEP = {}


def deep(kind, n):
    if kind == "list":
        v = []
        for _ in range(n):
            v = [v]
    elif kind == "dict":
        v = {}
        for _ in range(n):
            v = {"a": v}
    elif kind == "mixed":
        v = "x"
        for i in range(n):
            v = [v] if i % 2 else {"k": v}
    elif kind == "long_list":
        v = ["a"] * n
    else:
        v = {"k%d" % i: i for i in range(n)}
    _DEEP[id(v)] = (kind, n, v)
    return v


def deep_values(quick=True):
    if not hasattr(deep_values, "cache"):
        deep_values.cache = [deep("list", 200), deep("dict", 200), deep("list", 900), deep("dict", 900), deep("mixed", 900),
                             deep("list", 5000), deep("dict", 5000), deep("long_list", 100000), deep("long_dict", 100000)]
    return deep_values.cache


def mark(v):
    """copy of a (shallow) JSON value in which registered deep values are replaced by markers"""
    if id(v) in _DEEP:
        k, n, _ = _DEEP[id(v)]
        return {"$deep": [k, n]}
    if isinstance(v, dict):
        return {k: mark(x) for k, x in v.items()}
    if isinstance(v, list):
        return [mark(x) for x in v]
    return v


def unmark(v):
    if isinstance(v, dict):
        if set(v) == {"$deep"}:
            return deep(*v["$deep"])
        return {k: unmark(x) for k, x in v.items()}
    if isinstance(v, list):
        return [unmark(x) for x in v]
    return v


def has_deep(v, depth=0):
    if id(v) in _DEEP or depth > 60:
        return True
    if isinstance(v, dict):
        return len(v) > 5000 or any(has_deep(x, depth + 1) for x in v.values())
    if isinstance(v, list):
        return len(v) > 5000 or any(has_deep(x, depth + 1) for x in v)
    return False


def enc_value(v):
    if isinstance(v, (bytearray, memoryview)):
        return {"t": type(v).__name__, "hex": bytes(v).hex()}
    if isinstance(v, bytes):
        return {"t": "bytes", "hex": v.hex()} if len(v) < 20000 else {"t": "bytes", "hex": v[:64].hex(), "len": len(v), "sha1": __import__("hashlib").sha1(v).hexdigest(), "z": base64.b64encode(zlib.compress(v)).decode()}
    if isinstance(v, str):
        return {"t": "str", "json": json.dumps(v)} if len(v) < 20000 else {"t": "strz", "len": len(v), "z": base64.b64encode(zlib.compress(v.encode("utf-8", "surrogatepass"))).decode()}
    return {"t": "dict", "json": json.dumps(mark(v))}


def dec_value(d):
    if d["t"] == "bytearray":
        return bytearray.fromhex(d["hex"])
    if d["t"] == "memoryview":
        return memoryview(bytes.fromhex(d["hex"]))
    if d["t"] == "bytes":
        return zlib.decompress(base64.b64decode(d["z"])) if "z" in d else bytes.fromhex(d["hex"])
    if d["t"] == "strz":
        return zlib.decompress(base64.b64decode(d["z"])).decode("utf-8", "surrogatepass")
    v = json.loads(d["json"])
    return unmark(v) if d["t"] == "dict" else v


def short(v, n=200):
    """a printable abbreviation of an input that never recurses into deep values"""
    e = enc_value(v)
    return (e.get("json") or e.get("hex") or "<%s of length %s>" % (e["t"], e.get("len")))[:n]


# ---------------------------------------------------------------------------
# JSON value shapes
# ---------------------------------------------------------------------------
SHAPES = [None, True, False, 0, 1, -1, 2 ** 64, -2 ** 64, 1.5, "", "x", [], [1], ["a"], [[]], [{}], {},
          {"a": 1}, {"a": {"b": [1, None]}}, [["a", "b"]], ["ab"], "\u00e9\u4e2d", "\ud800", "a" * 300]

EPK_EC = {k: KEYS_JSON["ec256"][k] for k in ("kty", "crv", "x", "y")}
EPK_EC384 = {k: KEYS_JSON["ec384"][k] for k in ("kty", "crv", "x", "y")}
EPK_X = {k: KEYS_JSON["x25519"][k] for k in ("kty", "crv", "x")}
EPK_X448 = {k: KEYS_JSON["x448"][k] for k in ("kty", "crv", "x")}
EPK_ED = {k: KEYS_JSON["ed25519"][k] for k in ("kty", "crv", "x")}


def epk_variants():
    out = []
    for base in (EPK_EC, EPK_X):
        out.append(dict(base))
        for m in ("kty", "crv", "x", "y", "d", "use", "key_ops", "alg", "kid", "x5c"):
            if m == "y" and base is EPK_X:
                vals = ["AA"]
            else:
                vals = SHAPES
            for v in vals:
                e = dict(base); e[m] = v
                out.append(e)
        for m in list(base):
            e = dict(base); e.pop(m)
            out.append(e)
        for crv in ("P-999", "secp256k1", "P-384", "P-521", "Ed25519", "Ed448", "X25519", "X448", "P-256", "p-256", " P-256"):
            e = dict(base); e["crv"] = crv
            out.append(e)
        for x in ("AA", "AQ", b64u(b"\x00" * 32), b64u(b"\xff" * 32), b64u(b"\x01" * 31), b64u(b"\x01" * 33),
                  b64u(b"\x00" * 66), "!!", "A", "AAA=", b64u(b"\x00" * 56)):
            e = dict(base); e["x"] = x
            out.append(e)
            if "y" in base:
                e = dict(base); e["y"] = x
                out.append(e)
    # pairs of "use" and "key_ops" (the pair is only looked at when both are present)
    for base in (EPK_EC, EPK_X):
        for use in ([], ["sig"], ["enc"], ["sig", "enc"], "sig", "enc", "bad", {}, None, 0, [[]], ""):
            for ops in ([], ["sign"], ["deriveKey"], "sign", "deriveKey", ["deriveKey", "deriveBits"], [[]], {}, None, 0, ""):
                out.append({**base, "use": use, "key_ops": ops})
    # private members inside an epk
    out.append({**EPK_EC, "d": KEYS_JSON["ec256"]["d"]})
    out.append({**EPK_EC, "d": "AA"})
    out.append({**EPK_EC, "d": ""})
    out.append({**EPK_EC, "crv": "P-999", "d": "AA"})
    out.append({**EPK_X, "d": KEYS_JSON["x25519"]["d"]})
    out.append({**EPK_X, "d": "AA"})
    out.append({**EPK_X, "crv": "X999", "d": "AA"})
    out += [dict(EPK_EC384), dict(EPK_X448), dict(EPK_ED), dict(KEYS_JSON["rsa"]), dict(KEYS_JSON["oct16"]),
            {"kty": "EC"}, {"kty": "OKP"}, {"kty": "oct", "k": "AA"}, {"use": "sig", "key_ops": ["sign"], **EPK_EC},
            {"use": "enc", "key_ops": "deriveKey", **EPK_EC}, {"use": "enc", "key_ops": ["deriveKey"], **EPK_X},
            {"use": "sig", **EPK_EC}, {"key_ops": ["sign"], **EPK_X}, {"use": "bad", "key_ops": [], **EPK_EC}]
    return out


MEMBER_VALUES = {
    "alg": JWS_ALGS + JWE_ALGS + ["HS257", "hs256", " HS256", "ECDH-1PU", "C20P"],
    "enc": JWE_ENCS + ["A128GCMX", "a128gcm", "C20P", "dir"],
    "zip": ["DEF", "GZ", "def"],
    "crit": [["alg"], ["b64"], ["exp"], ["alg", "b64"], ["b64", 1], ["b64", []], ["b64", {}], [None], "alg", "b64", "a",
             ["kid"], ["crit"], {"alg": 1}, {"b64": 1}, [["alg"]], [True], [1.5], "\ud800"],
    "kid": KEY_NAMES + ["nope", "", 0, None],
    "b64": [True, False],
    "typ": ["JWT", "JOSE"],
    "cty": ["JWT"],
    "jwk": [dict(EPK_EC), {"kty": "oct"}],
    "jku": ["https://a/b", "ftp://a", "http://"],
    "x5u": ["https://a/b"],
    "x5c": [["a", "b"], ["a", 1], []],
    "x5t": ["a"], "x5t#S256": ["a"],
    "apu": ["QQ", "", "!!", "A", "QUJD", "\u00e9", "\ud800", b64u(b"a" * 3000)],
    "apv": ["QQ", "", "!!", "A", "QUJD", "\u00e9", "\ud800"],
    "p2s": ["QQ", "", "!!", "A", b64u(b"s" * 16), "\u00e9", "\ud800", b64u(b"a" * 3000)],
    # NOTE: counts in (100000, 2**31) are excluded: they are accepted by the backend and
    # run for minutes to hours (a resource question, not an exception-class question)
    "p2c": [1, 2, 1000, 4096, 0, -1, -2 ** 31, 2 ** 31, 2 ** 32, 2 ** 63 - 1, 2 ** 63, 2 ** 64, 10 ** 30, -10 ** 30],
    "iv": ["", "AA", b64u(bytes(12)), b64u(bytes(16)), b64u(bytes(11)), "!!", "A", "\u00e9", "\ud800"],
    "tag": ["", "AA", b64u(bytes(16)), b64u(bytes(12)), b64u(bytes(3)), b64u(bytes(4)), b64u(bytes(17)), "!!", "A",
            "\u00e9", "\ud800"],
    "skid": ["oct16", 1],
    "epk": None,   # filled lazily
    "unknown": [1, "x"],
}
MEMBERS = list(MEMBER_VALUES)


def member_values(m):
    if m == "epk":
        return epk_variants() + SHAPES
    return MEMBER_VALUES[m] + SHAPES


# header values standing in for the whole header object (not a JSON object, or odd objects)
HEADER_OBJECTS = SHAPES + [
    "alg", "algenc", "enc alg", "xalgx", ["alg"], ["alg", "enc"], ["alg", "enc", "b64"], [["alg", "HS256"]],
    [["alg", "dir"], ["enc", "A128GCM"]], ["al", "en"], {"alg": "HS256"}, {"enc": "A128GCM"}, {"alg": "dir"},
    {"enc": "A128GCM", "alg": "dir"}, {"alg": None}, {"b64": False}, {"b64": True}, {"crit": ["b64"], "b64": False},
    {"Alg": "HS256"}, 10 ** 40, -0.0, 1e308, [["alg", []]], [[[], 1]], ["alg", ["enc"]], "b64alg", ["b64", "alg"],
    {"alg": "HS256", "b64": False, "crit": ["b64"]}, {"alg": "HS256", "b64": "x", "crit": ["b64"]},
    {"alg": "HS256", "b64": False, "crit": "b64"}, {"alg": "HS256", "b64": False}, {"alg": "HS256", "b64": True},
    {"alg": "HS256", "b64": None, "crit": ["b64"]}, {"alg": "HS256", "b64": True, "crit": ["b64"]},
]
HEADER_RAW = [b"", b" ", b"{", b"}", b"[", b"nul", b"null ", b"\xff", b"\xc3", b"{\"alg\":\"HS256\"", b"{\"alg\":\"HS256\"}x",
              b"{\"alg\":\"HS256\",\"alg\":\"none\"}", b"\xef\xbb\xbf{\"alg\":\"HS256\"}", b"NaN", b"Infinity", b"-Infinity",
              b"{\"alg\":NaN}", b"[" * 200 + b"]" * 200, b"[" * 100000, b"{\"a\":" * 50000, b"1" * 5000, b"-" + b"9" * 5000,
              b"1e999999", b"\"\\ud800\"", b"{\"alg\":\"\\ud800\"}", b"{\"alg\":\"HS256\",\"kid\":\"\\ud800\"}",
              b"{\"alg\":\"dir\",\"enc\":\"A128GCM\",\"kid\":\"\\udfff\"}", b"\x00", b"{\"alg\":\"HS256\"}\x00", b"'alg'",
              b"{'alg':'HS256'}", b"{\"alg\" \"HS256\"}", b"\"alg", b"{\"alg\":\"HS256\",}", b"[1,]", b"0x10", b"01", b"+1",
              b"1.", b".5", b"true false", b"{\"alg\":\"HS256\"}{}", b"[\"alg\"]" + b" " * 5000,
              b"{\"alg\":\"dir\",\"enc\":\"A128GCM\",\"zip\":\"DEF\",\"x\":" + b"[" * 100000]


# ---------------------------------------------------------------------------
# base headers per algorithm family
# ---------------------------------------------------------------------------
JWS_FAMILIES = [("HS256", "oct32"), ("RS256", "rsa"), ("ES256", "ec256"), ("EdDSA", "ed25519")]
JWS_FAMILIES_MORE = [("HS384", "oct64"), ("HS512", "oct64"), ("PS256", "rsa"), ("ES384", "ec384"), ("ES512", "ec521"),
                     ("none", "oct32")]


def jwe_base_headers():
    """(header, recipient keyname) for every key-management family; the content part of
    these tokens is only authentic for 'dir' (key management is what the header feeds)"""
    return [
        ({"alg": "dir", "enc": "A128GCM"}, "oct16"),
        ({"alg": "dir", "enc": "A128CBC-HS256"}, "oct32"),
        ({"alg": "A128KW", "enc": "A128GCM"}, "oct16"),
        ({"alg": "A128GCMKW", "enc": "A128GCM", "iv": b64u(bytes(12)), "tag": b64u(bytes(16))}, "oct16"),
        ({"alg": "RSA-OAEP", "enc": "A128GCM"}, "rsa"),
        ({"alg": "RSA1_5", "enc": "A128CBC-HS256"}, "rsa"),
        ({"alg": "ECDH-ES", "enc": "A128GCM", "epk": dict(EPK_EC)}, "ec256"),
        ({"alg": "ECDH-ES", "enc": "A256GCM", "epk": dict(EPK_X)}, "x25519"),
        ({"alg": "ECDH-ES+A128KW", "enc": "A128GCM", "epk": dict(EPK_EC), "apu": "QWxpY2U", "apv": "Qm9i"}, "ec256"),
        ({"alg": "ECDH-ES+A128KW", "enc": "A128GCM", "epk": dict(EPK_X448)}, "x448"),
        ({"alg": "PBES2-HS256+A128KW", "enc": "A128GCM", "p2s": b64u(b"salt" * 4), "p2c": 8}, "oct16"),
    ]


_valid_cache = {}


def valid_jwe_compact(header, keyname, plaintext=b"hello"):
    """a genuinely valid token for this header, produced by joserfc itself (only used as a
    mutation base so that key management succeeds; all authentic-malformed tokens are
    produced by the independent producers above)"""
    from joserfc import jwe
    k = (json.dumps(header, sort_keys=True), keyname, plaintext)
    if k not in _valid_cache:
        h = {m: v for m, v in header.items() if m not in ("epk", "iv", "tag")}
        _valid_cache[k] = jwe.encrypt_compact(h, plaintext, keys()[keyname], algorithms=JWE_ALL)
    return _valid_cache[k]


def with_header(token: str, header, header_raw=None) -> str:
    parts = token.split(".")
    parts[0] = b64u(header_raw if header_raw is not None else jdump(header))
    return ".".join(parts)


def header_of(token: str):
    return json.loads(b64u_dec(token.split(".")[0]))


# ---------------------------------------------------------------------------
# generators: each yields (entry, value, keyname, reg, tag) ; tag = stream/kind label
# ---------------------------------------------------------------------------
ALPH = "ABCDEFGHIJKLMNOPQRSTUVWXYZabcdefghijklmnopqrstuvwxyz0123456789-_"


def stream1(rng, n):
    """random and grammar-generated strings / bytes for the compact entry points"""
    hdrs = [b64u(jdump(h)) for h in ({"alg": "HS256"}, {"alg": "dir", "enc": "A128GCM"}, {"alg": "none"},
                                     {"alg": "HS256", "b64": False, "crit": ["b64"]}, ["alg"], "algenc", 7)]

    def seg():
        k = rng.randrange(12)
        if k == 0:
            return ""
        if k == 1:
            return rng.choice(hdrs)
        if k == 2:
            return "".join(rng.choice(ALPH) for _ in range(rng.randrange(1, 40)))
        if k == 3:
            return "".join(chr(rng.randrange(0, 256)) for _ in range(rng.randrange(1, 12)))
        if k == 4:
            return "".join(rng.choice("=+/ \n\t.\x00~") for _ in range(rng.randrange(1, 5)))
        if k == 5:
            return rng.choice(["é", "中文", "\U0001F600", "\ud800", "\udfff", "𐀀", "\x7f", "\x80"]) \
                * rng.randrange(1, 4)
        if k == 6:
            return "A" * rng.choice([1, 2, 3, 4, 5, 1000, 4096, 70000])
        if k == 7:
            return b64u(bytes(rng.randrange(256) for _ in range(rng.randrange(0, 48))))
        if k == 8:
            return rng.choice(hdrs) + rng.choice(["=", "==", "A", " ", "\n"])
        if k == 9:
            return b64u(jdump({"alg": rng.choice(JWS_ALGS + JWE_ALGS), "enc": rng.choice(JWE_ENCS)}))
        if k == 10:
            return b64u(rng.choice(HEADER_RAW[:40]))
        return b64u(bytes(12)) if rng.random() < .5 else b64u(bytes(16))
    out = []
    fixed = ["", ".", "..", "...", "....", ".....", "......", ".......", "a", "a.b", "a.b.c", "a.b.c.d", "a.b.c.d.e",
             "\ud800", "\ud800.\ud800.\ud800", "é.é.é", "\x00", " . . ", "\n", "e30.e30.e30", "e30.e30.e30.e30.e30",
             "W10.W10.W10", "W10.W10.W10.W10.W10", "ImFsZyI.e30.e30", "ImFsZ2VuYyI....", "ImFsZ2VuYyI.AA.AA.AA.AA"]
    for s in fixed:
        out.append(s)
        try:
            out.append(s.encode("utf-8"))
        except UnicodeEncodeError:
            pass
    for _ in range(n):
        nseg = rng.choice([0, 1, 2, 3, 3, 3, 4, 5, 5, 5, 6, 7])
        s = ".".join(seg() for _ in range(nseg))
        if rng.random() < 0.5:
            try:
                out.append(s.encode("latin1") if rng.random() < .5 else s.encode("utf-8"))
                continue
            except UnicodeEncodeError:
                pass
        out.append(s)
    calls = []
    for i, v in enumerate(out):
        for e in ENTRIES_COMPACT:
            kn = rng.choice(["oct32", "oct16", "rsa", "ec256", "ed25519", "x25519", "set:all", "set:oct16", "set:empty", "set:nokid2"])
            calls.append((e, v, kn, rng.choice(["default", "all", "lax"]), "s1"))
    return calls


def pick_keys(rng, natural, quick=True):
    """the natural key of the token's algorithm, the full key set, and a few keys of other kinds"""
    others = [k for k in KEY_NAMES if k != natural]
    ks = [natural, "set:all"]
    ks += rng.sample(others, 2 if quick else 5)
    if rng.random() < 0.3:
        ks.append(rng.choice(["set:oct16", "set:empty", "set:nokid2"]))
    return ks


def jws_mutants(rng, quick=True):
    """(header value, alg used for the real signature, keyname) for JWS"""
    fams = JWS_FAMILIES + ([] if quick else JWS_FAMILIES_MORE)
    out = []
    for alg, kn in fams:
        base = {"alg": alg}
        out.append((dict(base), alg, kn, "valid"))
        for m in MEMBERS:
            vals = member_values(m)
            if m == "epk" and quick:
                vals = rng.sample(vals, 12)
            elif quick and alg != "HS256" and len(vals) > 14:
                vals = rng.sample(vals, 14)
            for v in vals:
                h = dict(base); h[m] = v
                out.append((h, alg, kn, "member:" + m))
        out.append(({}, alg, kn, "member:alg-removed"))
        # rfc7797 combinations
        for b in (False, True, None, "x", 0, []):
            for crit in (["b64"], ["b64", "alg"], "b64", None, [], ["alg"], [1, "b64"], {"b64": 1}):
                h = {"alg": alg, "b64": b}
                if crit is not None:
                    h["crit"] = crit
                out.append((h, alg, kn, "b64"))
    for ho in HEADER_OBJECTS:
        out.append((ho, "HS256", "oct32", "headerobj"))
    return out


def stream2_jws_compact(rng, quick=True):
    calls = []
    payload = b'{"iss":"a","exp":99999999999}'
    for h, alg, kn, kind in jws_mutants(rng, quick):
        for unenc in (False, True):
            if unenc and kind not in ("b64", "headerobj", "member:crit", "member:b64", "member:alg", "valid", "member:kid"):
                continue
            pl = b"$.02" if unenc else payload
            tok = jws_compact(h, pl, alg, kn, unencoded=unenc)
            regs = ["all"] + ([rng.choice(["default", "lax"])] if quick else ["default", "lax"])
            for e in ("jws.deserialize_compact", "rfc7797.deserialize_compact", "jwt.decode/jws"):
                if unenc and e != "rfc7797.deserialize_compact" and rng.random() < 0.7:
                    continue
                for k in pick_keys(rng, kn, quick):
                    for reg in regs:
                        calls.append((e, tok, k, reg, "s2/jws/" + kind))
    for raw in HEADER_RAW:
        tok = jws_compact(None, payload, "HS256", "oct32", header_raw=raw)
        for e in ("jws.deserialize_compact", "rfc7797.deserialize_compact", "jwt.decode/jws"):
            for k in ("oct32", "set:all"):
                calls.append((e, tok, k, "all", "s2/jws/headerraw"))
    # segment contents
    good = jws_compact({"alg": "HS256"}, payload, "HS256", "oct32")
    hs, ps, ss = good.split(".")
    for segs in ([hs, "", ss], [hs, ps, ""], [hs, "!!", ss], [hs, ps, "!!"], [hs, ps, "A"], [hs, "A", ss], [hs, ps, ss + "A"],
                 [hs, ps, "A" * 70000], [hs, "A" * 70001, ss], [hs, ps + "=", ss], [hs, ps, ss + "="], [hs, ps, ss + "=="],
                 [hs, ps, "é"], [hs, "é", ss], [hs + "=", ps, ss], ["", ps, ss], [hs, ps, ss, ""], [hs, ps]):
        tok = ".".join(segs)
        for e in ("jws.deserialize_compact", "rfc7797.deserialize_compact", "jwt.decode/jws"):
            for k in ("oct32", "set:all", "rsa"):
                calls.append((e, tok, k, "all", "s2/jws/segments"))
    # signature lengths for every family (wrong-size signatures reach the primitives)
    for alg, kn in JWS_FAMILIES + JWS_FAMILIES_MORE:
        tok = jws_compact({"alg": alg}, payload, alg, kn)
        hs, ps, ss = tok.split(".")
        sig = b64u_dec(ss)
        for s2 in (b"", sig[:-1], sig + b"\x00", sig[:1], bytes(len(sig)), b"\xff" * len(sig), sig[: len(sig) // 2], bytes(64), bytes(63),
                   bytes(65), bytes(256), bytes(132), bytes(114)):
            t2 = ".".join([hs, ps, b64u(s2)])
            for k in [kn, "set:all"] + rng.sample(KEY_NAMES, 2 if quick else 6):
                calls.append(("jws.deserialize_compact", t2, k, "all", "s2/jws/siglen"))
    return calls


def split_positions(rng, h, m=None):
    """ways of distributing a header dict over (protected, unprotected-or-header)"""
    out = [(dict(h), None)]
    if isinstance(h, dict):
        out.append(({}, dict(h)))
        out.append((None, dict(h)))           # None = member "protected" absent
        if m is not None and m in h:
            rest = {k: v for k, v in h.items() if k != m}
            out.append((rest, {m: h[m]}))
            out.append(({m: h[m]}, rest))
            # conflicting spellings: validated view (merged) differs from the protected view
            good = {"alg": None, "enc": "A128GCM", "zip": "DEF", "crit": ["alg"], "b64": True}.get(m, "x")
            if good is not None:
                out.append((dict(h), {m: good}))
                out.append(({**rest, m: good}, {m: h[m]}))
    return out


def stream2_jws_json(rng, quick=True):
    calls = []
    payload = b'{"iss":"a"}'
    pseg = b64u(payload)
    muts = jws_mutants(rng, quick)
    for h, alg, kn, kind in muts:
        m = kind.split(":", 1)[1] if kind.startswith("member:") else None
        splits = split_positions(rng, h, m) if isinstance(h, dict) else [(h, None), (h, {"alg": "HS256"}), (h, {})]
        if quick and len(splits) > 3:
            splits = splits[:1] + rng.sample(splits[1:], 2)
        for prot, hdr in splits:
            for unenc in ((False, True) if kind in ("b64", "headerobj", "member:b64", "member:crit") else (False,)):
                ps = "$.02" if unenc else pseg
                mem = jws_member(prot, hdr, ps, alg, kn, omit_protected=prot is None)
                flat = {"payload": ps, **mem}
                gen = {"payload": ps, "signatures": [mem]}
                for e, v in (("jws.deserialize_json", flat), ("jws.deserialize_json", gen), ("rfc7797.deserialize_json", flat),
                             ("rfc7797.deserialize_json", gen)):
                    if quick and rng.random() < 0.5:
                        continue
                    for k in pick_keys(rng, kn, quick)[: 3 if quick else 9]:
                        calls.append((e, v, k, rng.choice(["all", "all", "default", "lax"]), "s2/jwsjson/" + kind))
    # documented_shape sweeps: every member with arbitrary str / dict contents, optional members absent
    good = jws_member({"alg": "HS256"}, {"kid": "oct32"}, pseg, "HS256", "oct32")
    strs = ["", "A", "!!", "é", "\ud800", "e30", "W10", "ImFsZyI", "A" * 70000, good["protected"], good["signature"], " ", "AA=="]
    dicts = [{}, {"alg": "HS256"}, {"kid": "oct32"}, {"alg": 1}, {"crit": 1}, {"crit": ["kid"]}, {"b64": False}, {"a": {"b": []}},
             {"kid": []}, {"kid": {}}, {"alg": []}, {"b64": False, "crit": ["b64"]}, {"": ""}, {"\ud800": 1}, {"jwk": []}]
    for mname, vals in (("protected", strs), ("signature", strs), ("header", dicts)):
        for v in vals:
            mem = dict(good); mem[mname] = v
            for pl in (pseg, "", "!!", "é", "\ud800", "A"):
                if pl != pseg and quick and rng.random() < 0.6:
                    continue
                flat = {"payload": pl, **mem}
                gen = {"payload": pl, "signatures": [mem]}
                gen2 = {"payload": pl, "signatures": [good, mem]}
                for e in ("jws.deserialize_json", "rfc7797.deserialize_json"):
                    for val in (flat, gen, gen2):
                        for k in ("oct32", "set:all"):
                            calls.append((e, val, k, "all", "s2/jwsjson/shape"))
    for mem in ({"signature": good["signature"]}, {"signature": good["signature"], "header": {"alg": "HS256"}},
                {"signature": "", "header": {}}, {"signature": good["signature"], "protected": good["protected"]},
                {"signature": "", "header": {"alg": "none"}}, {"signature": good["signature"], "header": {"alg": "HS256", "b64": False, "crit": ["b64"]}}):
        for val in ({"payload": pseg, **mem}, {"payload": pseg, "signatures": [mem]}, {"payload": pseg, "signatures": []},
                    {"payload": pseg, "signatures": [mem, mem, mem]}):
            for e in ("jws.deserialize_json", "rfc7797.deserialize_json"):
                for k in ("oct32", "set:all", "rsa", "set:empty"):
                    calls.append((e, val, k, "all", "s2/jwsjson/optional"))
    return calls


def jwe_mutants(rng, quick=True):
    out = []
    for base, kn in jwe_base_headers():
        out.append((dict(base), base, kn, "valid"))
        alg = base["alg"]
        for m in MEMBERS:
            vals = member_values(m)
            relevant = (m in ("alg", "enc", "zip", "crit", "kid") or m in base)
            if not relevant:
                vals = rng.sample(vals, 4 if quick else 12)
            elif quick and alg not in ("dir",) and m in ("alg", "kid", "crit", "zip", "enc"):
                vals = rng.sample(vals, 10)
            elif quick and m == "epk":
                vals = rng.sample(vals, 120)
            for v in vals:
                h = dict(base); h[m] = v
                out.append((h, base, kn, "member:" + m))
        for m in base:
            h = dict(base); h.pop(m)
            out.append((h, base, kn, "member:%s-removed" % m))
        if "epk" in base:
            for mm in ("kty", "crv", "x", "y"):
                for v in SHAPES:
                    h = dict(base); h["epk"] = {**base["epk"], mm: v}
                    out.append((h, base, kn, "member:epk." + mm))
    for ho in HEADER_OBJECTS:
        out.append((ho, {"alg": "dir", "enc": "A128GCM"}, "oct16", "headerobj"))
    return out


def stream2_jwe_compact(rng, quick=True):
    calls = []
    pt = b'{"iss":"a"}'
    for h, base, kn, kind in jwe_mutants(rng, quick):
        if base["alg"] == "dir":
            enc = base["enc"]
            tok = jwe_dir_compact(h, pt, enc, kn)            # authentic whatever h is
        else:
            tok = with_header(valid_jwe_compact(base, kn, pt), h)   # key management reachable
        for e in ("jwe.decrypt_compact", "jwt.decode/jwe"):
            if e != "jwe.decrypt_compact" and quick and rng.random() < 0.6:
                continue
            ks = pick_keys(rng, kn, quick)
            for k in (ks[:3] if quick else ks):
                calls.append((e, tok, k, rng.choice(["all", "all", "lax", "default"]), "s2/jwe/" + kind))
    for raw in HEADER_RAW:
        tok = jwe_dir_compact(None, pt, "A128GCM", "oct16", header_raw=raw)
        for e in ("jwe.decrypt_compact", "jwt.decode/jwe"):
            for k in ("oct16", "set:all"):
                calls.append((e, tok, k, "all", "s2/jwe/headerraw"))
    # segments of valid tokens of every family
    for base, kn in jwe_base_headers():
        tok = valid_jwe_compact(base, kn, pt)
        hs, ek, iv, ct, tg = tok.split(".")
        variants = [[hs, "", iv, ct, tg], [hs, ek, "", ct, tg], [hs, ek, iv, "", tg], [hs, ek, iv, ct, ""], [hs, "!!", iv, ct, tg],
                    [hs, ek, "!!", ct, tg], [hs, ek, iv, "!!", tg], [hs, ek, iv, ct, "!!"], [hs, "A", iv, ct, tg], [hs, ek, "A", ct, tg],
                    [hs, ek, iv, "A", tg], [hs, ek, iv, ct, "A"], [hs, "AA", iv, ct, tg], [hs, b64u(bytes(24)), iv, ct, tg],
                    [hs, b64u(bytes(40)), iv, ct, tg], [hs, b64u(bytes(23)), iv, ct, tg], [hs, b64u(bytes(256)), iv, ct, tg],
                    [hs, b64u(b"\xff" * 256), iv, ct, tg], [hs, b64u(bytes(255)), iv, ct, tg], [hs, ek, b64u(bytes(11)), ct, tg],
                    [hs, ek, b64u(bytes(13)), ct, tg], [hs, ek, b64u(bytes(16)), ct, tg], [hs, ek, iv, ct, b64u(bytes(1))],
                    [hs, ek, iv, ct, b64u(bytes(3))], [hs, ek, iv, ct, b64u(bytes(4))], [hs, ek, iv, ct, b64u(bytes(15))],
                    [hs, ek, iv, ct, b64u(bytes(17))], [hs, ek, iv, ct, b64u(bytes(32))], [hs, ek, iv, ct + "AA", tg],
                    [hs, ek + "AA", iv, ct, tg], [hs, ek, iv, "A" * 70000, tg], [hs, "A" * 70000, iv, ct, tg], [hs, "é", iv, ct, tg]]
        for segs in variants:
            t2 = ".".join(segs)
            for k in (kn, "set:all", rng.choice(KEY_NAMES)):
                calls.append(("jwe.decrypt_compact", t2, k, "all", "s2/jwe/segments"))
    # every enc with direct encryption: authentic, then content segments damaged
    for enc, n in ENC_CEK.items():
        if n not in DIR_KEY:
            continue
        kn = DIR_KEY[n]
        for h in ({"alg": "dir", "enc": enc}, {"alg": "dir", "enc": enc, "zip": "DEF"}):
            body = raw_deflate(pt) if "zip" in h else pt
            tok = jwe_dir_compact(h, body, enc, kn)
            hs, ek, iv, ct, tg = tok.split(".")
            for segs in ([hs, ek, iv, ct, tg], [hs, ek, iv, ct[:-2], tg], [hs, ek, iv, ct, tg[:-2]], [hs, ek, iv[:-2], ct, tg],
                         [hs, ek, iv, "", tg], [hs, ek, iv, ct, ""], [hs, ek, "", ct, tg], [hs, "AA", iv, ct, tg]):
                for k in (kn, "set:all", "oct16", "oct32", "oct64"):
                    if n == 32 and k == "oct32" and kn != "oct32":
                        continue
                    for e in ("jwe.decrypt_compact", "jwt.decode/jwe"):
                        calls.append((e, ".".join(segs), k, "all", "s2/jwe/enc"))
    return calls


def stream2_jwe_json(rng, quick=True):
    calls = []
    pt = b'{"iss":"a"}'
    from joserfc import jwe
    for h, base, kn, kind in jwe_mutants(rng, quick):
        m = kind.split(":", 1)[1] if kind.startswith("member:") else None
        if m and "." in m:
            m = "epk"
        if m and m.endswith("-removed"):
            m = None
        splits = split_positions(rng, h, m) if isinstance(h, dict) else [(h, None), (h, {"alg": "dir"}), (h, {"alg": "dir", "enc": "A128GCM"})]
        splits = [s for s in splits if s[0] is not None]       # "protected" is always emitted by the library
        if quick and len(splits) > 3:
            splits = splits[:1] + rng.sample(splits[1:], 2)
        if base["alg"] != "dir":
            tok = valid_jwe_compact(base, kn, pt)
            _, ek, iv, ct, tg = tok.split(".")
        for prot, other in splits:
            for where in ("header", "unprotected"):
                for general in (False, True):
                    if quick and rng.random() < 0.55:
                        continue
                    if base["alg"] == "dir":
                        d = jwe_dir_json(prot, pt, base["enc"], kn, unprotected=other if where == "unprotected" else None,
                                         header=other if where == "header" else None, general=general)
                    else:
                        d = {"protected": b64u(jdump(prot)), "iv": iv, "ciphertext": ct, "tag": tg}
                        r = {"encrypted_key": ek} if ek else {}
                        if other is not None:
                            if where == "header":
                                r["header"] = other
                            else:
                                d["unprotected"] = other
                        if general:
                            d["recipients"] = [r]
                        else:
                            d.update(r)
                    ks = pick_keys(rng, kn, quick)
                    for k in (ks[:2] if quick else ks):
                        calls.append(("jwe.decrypt_json", d, k, rng.choice(["all", "all", "lax", "any1", "default"]), "s2/jwejson/" + kind))
    # documented_shape sweeps
    strs = ["", "A", "!!", "é", "\ud800", "e30", "W10", "ImFsZ2VuYyI", "A" * 70000, " ", "AA==", b64u(bytes(12)), b64u(bytes(16)), b64u(bytes(24))]
    dicts = [{}, {"alg": "dir"}, {"alg": "A128KW"}, {"kid": "oct16"}, {"alg": 1}, {"crit": 1}, {"enc": []}, {"zip": "DEF"}, {"zip": []},
             {"kid": []}, {"epk": 1}, {"a": {"b": []}}, {"\ud800": 1}, {"alg": "A128KW", "kid": "oct16"}, {"enc": "A128GCM"},
             {"alg": "PBES2-HS256+A128KW", "p2c": -1, "p2s": "AA"}, {"alg": "ECDH-ES", "epk": {"kty": "EC", "crv": "P-999", "x": "AA", "y": "AA"}}]
    for base, kn in jwe_base_headers()[:1] + jwe_base_headers()[2:5] + jwe_base_headers()[6:7] + jwe_base_headers()[10:]:
        if base["alg"] == "dir":
            good = jwe_dir_json(base, pt, base["enc"], kn)
            ek = ""
        else:
            tok = valid_jwe_compact(base, kn, pt)
            hs, ek, iv, ct, tg = tok.split(".")
            good = {"protected": hs, "iv": iv, "ciphertext": ct, "tag": tg, "encrypted_key": ek}
        for mname, vals in (("protected", strs), ("iv", strs), ("ciphertext", strs), ("tag", strs), ("aad", strs), ("encrypted_key", strs),
                            ("unprotected", dicts), ("header", dicts)):
            for v in vals:
                flat = dict(good); flat[mname] = v
                gen = {k: x for k, x in flat.items() if k not in ("header", "encrypted_key")}
                r = {k: flat[k] for k in ("header", "encrypted_key") if k in flat}
                gen["recipients"] = [r]
                gen2 = dict(gen); gen2["recipients"] = [r, {"header": {"alg": "A128KW"}, "encrypted_key": b64u(bytes(24))}]
                gen3 = dict(gen); gen3["recipients"] = [{"header": {"alg": "dir"}}, r]
                for val in (flat, gen, gen2, gen3):
                    if quick and val is not flat and rng.random() < 0.5:
                        continue
                    for k in (kn, "set:all"):
                        calls.append(("jwe.decrypt_json", val, k, rng.choice(["all", "any1", "lax"]), "s2/jwejson/shape"))
        # optional members absent / empty containers
        core = {k: good[k] for k in ("protected", "iv", "ciphertext", "tag")}
        for val in (core, {**core, "recipients": []}, {**core, "recipients": [{}]}, {**core, "recipients": [{}, {}]},
                    {**core, "header": {}}, {**core, "unprotected": {}}, {**core, "recipients": [{"header": {}}]},
                    {**core, "recipients": [{"encrypted_key": ""}]}, {**core, "encrypted_key": ""}, {**core, "aad": ""},
                    {**core, "recipients": [{"header": {"alg": "A128KW"}}]}, {**core, "header": {"alg": "A128KW"}},
                    {**core, "header": {"alg": "RSA-OAEP"}}, {**core, "header": {"alg": "A128GCMKW", "iv": b64u(bytes(12)), "tag": b64u(bytes(16))}},
                    {**core, "header": {"alg": "ECDH-ES+A128KW", "epk": dict(EPK_EC)}}, {**core, "header": {"alg": "PBES2-HS256+A128KW", "p2s": "AAAA", "p2c": 2}},
                    {**core, "header": {"alg": "ECDH-ES", "epk": dict(EPK_EC)}}, {**core, "header": {"alg": "dir"}}):
            for k in (kn, "set:all", "oct16", "rsa", "ec256", "x25519"):
                for reg in ("all", "any1"):
                    calls.append(("jwe.decrypt_json", val, k, reg, "s2/jwejson/optional"))
    return calls


def stream3(rng, quick=True):
    """authenticated-but-malformed inner data"""
    calls = []
    good = raw_deflate(b'{"iss":"a"}' * 20)
    z = zlib.compress(b'{"iss":"a"}' * 20)
    big = raw_deflate(b"\x00" * 300000)
    edge = raw_deflate(b"a" * 256000)
    edge1 = raw_deflate(b"a" * 256001)
    streams = [b"", b"\x00", b"\xff", b"\x78\x9c", b"\x78\x9c\x00", b"\x78\x9cgarbage", b"garbage", good[:-1], good[:-5], good[:1],
               good + b"trailing", good + good, z, z[:-1], z[:-4], z + b"x", z[:2] + z[3:], b"\x78\x9c" + good, good[1:],
               bytes([good[0] ^ 0x06]) + good[1:], big, edge, edge1, b"\x78\x9c" + big, zlib.compress(b"\x00" * 300000),
               bytes(rng.randrange(256) for _ in range(40)), b"\x03\x00", b"\x01\x00\x00\xff\xff", b"\x01\x01\x00\xfe\xff",
               b"\x01\x05\x00\xfa\xffab", b"\x05" + bytes(20), b"\x07", b"\x78\x01", b"\x78\xda" + good, b"\x08\x1d" + good]
    for _ in range(20 if quick else 400):
        b = bytearray(good)
        for _ in range(rng.randrange(1, 4)):
            b[rng.randrange(len(b))] ^= 1 << rng.randrange(8)
        streams.append(bytes(b))
    for enc, kn in (("A128GCM", "oct16"), ("A128CBC-HS256", "oct32")):
        for s in streams:
            hdr = {"alg": "dir", "enc": enc, "zip": "DEF"}
            tok = jwe_dir_compact(hdr, s, enc, kn)
            for e in ("jwe.decrypt_compact", "jwt.decode/jwe"):
                for k in (kn, "set:all"):
                    calls.append((e, tok, k, "all", "s3/deflate"))
            for general in (False, True):
                d = jwe_dir_json({"enc": enc, "zip": "DEF"}, s, enc, kn, header={"alg": "dir"}, general=general, aad=b"x" if general else None)
                calls.append(("jwe.decrypt_json", d, kn, "all", "s3/deflate"))
    claims = [b"", b" ", b"x", b"{", b"[1,2]", b'"x"', b"1", b"null", b"true", b"1.5", b"{}", b'{"a":1}', b"\xff", b"\xc3\x28", b'{"a":"\xff"}',
              b"\xef\xbb\xbf{}", b"{}x", b"{} ", b"[" * 100000, b'{"a":' * 50000, b"9" * 5000, b"-" + b"9" * 5000, b'{"a":NaN}', b"NaN",
              b'{"exp":"x"}', b'{"exp":true}', b'{"iss":[]}', b"\x00", b"{}\x00", b'{"a":1e999}', b'{"\\ud800":1}', b"'a'",
              b'{"a":1,"a":2}', "{\"é\":1}".encode("latin1"), "{\"é\":1}".encode("utf-16"), b"\xfe\xff\x00{\x00}", b"[" * 900 + b"]" * 900]
    for c in claims:
        tok = jws_compact({"alg": "HS256"}, c, "HS256", "oct32")
        tok2 = jws_compact({"alg": "HS256", "typ": "JWT"}, c, "HS256", "oct32")
        for k in ("oct32", "set:all"):
            calls.append(("jwt.decode/jws", tok, k, "default", "s3/claims"))
            calls.append(("jwt.decode/jws", tok2, k, "all", "s3/claims"))
            calls.append(("jws.deserialize_compact", tok, k, "default", "s3/claims"))
        for hdr, body in (({"alg": "dir", "enc": "A128GCM"}, c), ({"alg": "dir", "enc": "A128GCM", "zip": "DEF"}, raw_deflate(c))):
            tok = jwe_dir_compact(hdr, body, "A128GCM", "oct16")
            for k in ("oct16", "set:all"):
                calls.append(("jwt.decode/jwe", tok, k, "all", "s3/claims"))
                calls.append(("jwt.decode/jwe", tok, k, "default", "s3/claims"))
    return calls


def all_calls(rng, quick=True):
    calls = []
    calls += stream1(rng, 600 if quick else 20000)
    calls += stream2_jws_compact(rng, quick)
    calls += stream2_jws_json(rng, quick)
    calls += stream2_jwe_compact(rng, quick)
    calls += stream2_jwe_json(rng, quick)
    calls += stream3(rng, quick)
    calls += stream_keys(rng, quick)
    calls += stream_deep(rng, quick)
    calls += stream_boundaries(rng, quick)
    lib_calls, cov = stream_library(rng, quick)
    calls += lib_calls
    LAST_COVERAGE.clear(); LAST_COVERAGE.update(cov)
    calls += stream_last_recipient(rng, quick)
    return widen(rng, calls, quick)


def stream_last_recipient(rng, quick=True):
    """general JWE JSON with a valid FIRST recipient and the hostile header in the LAST one (and the reverse),
    general JWS JSON with the hostile header in the last signature"""
    calls = []
    pt = b'{"iss":"a"}'
    muts = [x for x in jwe_mutants(rng, True) if isinstance(x[0], dict) and x[3].startswith("member:")]
    if quick:
        muts = rng.sample(muts, min(len(muts), 700))
    for h, base, kn, kind in muts:
        m = kind.split(":", 1)[1].split(".")[0].replace("-removed", "")
        if m in ("enc", "zip") or m not in h:
            continue
        good = {"header": {"alg": "dir", "kid": "oct16"}}
        bad = {"header": {"alg": base["alg"], m: h[m]}}
        if base["alg"] != "dir":
            bad["encrypted_key"] = b64u(bytes(24))
        for recs in ([good, bad], [bad, good], [good, good, bad]):
            d = jwe_dir_json({"enc": "A128GCM"}, pt, "A128GCM", "oct16", general=True)
            d["recipients"] = recs
            for k in ("oct16", "set:all"):
                calls.append(("jwe.decrypt_json", d, k, rng.choice(["all", "any1", "lax"]), "lastrec/jwe"))
    pseg = b64u(pt)
    good = jws_member({"alg": "HS256"}, {"kid": "oct32"}, pseg, "HS256", "oct32")
    _jm = jws_mutants(rng, True)
    for h, alg, kn, kind in rng.sample(_jm, min(len(_jm), 400 if quick else 4000)):
        if not isinstance(h, dict):
            continue
        mem = jws_member({"alg": alg}, {k: v for k, v in h.items() if k != "alg"}, pseg, alg, kn)
        for sigs in ([good, mem], [mem, good], [good, good, mem]):
            for e in ("jws.deserialize_json", "rfc7797.deserialize_json"):
                calls.append((e, {"payload": pseg, "signatures": sigs}, rng.choice(["oct32", "set:all", kn]), rng.choice(["all", "lax"]), "lastrec/jws"))
    return calls


def widen(rng, calls, quick=True):
    """every generated call also reaches: the two-step extract/validate and detach-then-verify entries, token inputs of
    type bytearray / memoryview, restricted `algorithms=` lists, nested key callables, and (history) the same hostile
    token a second time on the same registries and keys"""
    out = []
    for c in calls:
        out.append(c)
        e, v, k, reg, tag = c
        r = rng.random()
        if e == "jws.deserialize_compact" and r < 0.12:
            out.append(("jws.extract+validate", v, k.split("+s:")[0], reg if reg != "few" else "all", tag + "|2step"))
        elif e == "jws.deserialize_compact" and r < 0.16 and isinstance(v, str):
            out.append(("jws.detach+verify", v, k.split("+s:")[0], reg, tag + "|detach"))
        elif r < 0.19 and isinstance(v, (str, bytes)) and e in ENTRIES_COMPACT:
            try:
                b = v if isinstance(v, bytes) else v.encode("utf-8")
                out.append((e, bytearray(b) if rng.random() < 0.6 else memoryview(b), k, reg, tag + "|buffer"))
            except UnicodeEncodeError:
                pass
        elif r < 0.22:
            out.append((e, v, k, "few", tag + "|few"))
        elif r < 0.235 and "+s:" not in k and not k.startswith("call:") and e not in ("jws.extract+validate", "jws.detach+verify"):
            out.append((e, v, "call:nested:" + k, reg, tag + "|nested"))
        elif r < 0.255:
            out.append((e, v, k, reg, tag + "|twice"))
    return out


LAST_COVERAGE = {}



# ---------------------------------------------------------------------------
# round 2: sender keys (ECDH-1PU), callable keys, tokens produced by the library under every
# registered algorithm (incl. drafts) and then mutated
# ---------------------------------------------------------------------------
JWS_ROW_KEY = {"none": "oct32", "HS256": "oct32", "HS384": "oct64", "HS512": "oct64", "RS256": "rsa", "RS384": "rsa", "RS512": "rsa",
               "PS256": "rsa", "PS384": "rsa", "PS512": "rsa", "ES256": "ec256", "ES384": "ec384", "ES512": "ec521", "ES256K": "ec256k",
               "EdDSA": "ed25519"}


def jwe_row_key(alg):
    """(recipient key, sender key or None) candidates for a key-management algorithm"""
    if alg.startswith("RSA"):
        return [("rsa", None)]
    if alg in ("A128KW", "A128GCMKW"):
        return [("oct16", None)]
    if alg in ("A192KW", "A192GCMKW"):
        return [("oct24", None)]
    if alg in ("A256KW", "A256GCMKW"):
        return [("oct32", None)]
    if alg == "dir":
        return [(None, None)]          # by enc
    if alg.startswith("ECDH-ES"):
        return [("ec256", None), ("x25519", None), ("ec384", None), ("x448", None)]
    if alg.startswith("ECDH-1PU"):
        return [("ec256", "ec256b"), ("x25519", "x25519b"), ("x448", "x448b")]
    if alg.startswith("PBES2"):
        return [("oct16", None), ("oct64", None)]
    raise KeyError(alg)


def library_tokens(rng, quick=True):
    """tokens produced by joserfc itself under every registered alg / enc (incl. drafts).
    -> (list of dicts, coverage per table row)"""
    from joserfc import jws, jwe
    from joserfc.jwk import OctKey
    ensure_drafts()
    ks = keys()
    if "oct24" not in ks:
        ks["oct24"] = OctKey.import_key({"kty": "oct", "k": b64u(bytes(range(24))), "kid": "oct24"})
    out = []
    cov = {}
    payload = b'{"iss":"a","exp":99999999999}'
    for alg in [a.name for a in jws.JWSRegistry.algorithms.values()]:
        kn = JWS_ROW_KEY[alg]
        row = "jws:" + alg
        cov[row] = 0
        try:
            c = jws.serialize_compact({"alg": alg, "kid": kn}, payload, ks[kn], algorithms=[alg])
            f = jws.serialize_json({"protected": {"alg": alg}, "header": {"kid": kn}}, payload, ks[kn], algorithms=[alg])
            g = jws.serialize_json([{"protected": {"alg": alg}, "header": {"kid": kn}}], payload, ks[kn], algorithms=[alg])
        except Exception as e:  # noqa
            cov[row] = "producer failed: %r" % (e,)
            continue
        out.append({"kind": "jws", "row": row, "alg": alg, "key": kn, "compact": c, "flat": f, "general": g})
        cov[row] += 3
    algs = list(jwe.JWERegistry.algorithms["alg"])
    encs = list(jwe.JWERegistry.algorithms["enc"])
    for alg in algs:
        cov["jwe-alg:" + alg] = 0
    for enc in encs:
        cov["jwe-enc:" + enc] = 0
    for alg in algs:
        enc_list = encs if (not quick or alg in ("dir", "A128KW", "ECDH-ES", "ECDH-1PU")) else \
            [e for e in encs if e in ("A128CBC-HS256", "A256GCM", "C20P")]
        for enc in enc_list:
            for kn, sn in jwe_row_key(alg):
                if alg == "dir":
                    kn = {16: "oct16", 24: "oct24", 32: "oct32", 48: None, 64: "oct64"}[ENC_CEK[enc]]
                    if kn is None:
                        ks.setdefault("oct48", OctKey.import_key({"kty": "oct", "k": b64u(bytes(range(48))), "kid": "oct48"}))
                        kn = "oct48"
                for zip_ in (False, True):
                    if zip_ and (quick and rng.random() < 0.7):
                        continue
                    h = {"alg": alg, "enc": enc, "kid": kn}
                    if zip_:
                        h["zip"] = "DEF"
                    if alg.startswith("PBES2"):
                        h["p2c"] = 8
                    kw = {"algorithms": JWE_ALL}
                    if sn:
                        kw["sender_key"] = ks[sn]
                    try:
                        c = jwe.encrypt_compact(h, payload, ks[kn], **kw)
                        o = jwe.FlattenedJSONEncryption({k: v for k, v in h.items() if k != "kid"}, payload, None, b"aad")
                        o.add_recipient({"kid": kn})
                        f = jwe.encrypt_json(o, ks[kn], **kw)
                        o = jwe.GeneralJSONEncryption({"enc": enc, **({"zip": "DEF"} if zip_ else {})}, payload, {"alg": alg})
                        o.add_recipient({"kid": kn, **({"p2c": 8} if alg.startswith("PBES2") else {})})
                        g = jwe.encrypt_json(o, ks[kn], **kw)
                    except Exception as e:  # noqa  (e.g. ECDH-1PU+KW with a non-CBC enc is refused by the producer)
                        cov.setdefault("producer refused", []).append("%s/%s/%s: %s" % (alg, enc, kn, type(e).__name__))
                        continue
                    out.append({"kind": "jwe", "row": "jwe-alg:" + alg, "alg": alg, "enc": enc, "key": kn, "sender": sn,
                                "compact": c, "flat": f, "general": g})
                    cov["jwe-alg:" + alg] += 3
                    cov["jwe-enc:" + enc] += 3
    if isinstance(cov.get("producer refused"), list):
        cov["producer refused"] = sorted(set(cov["producer refused"]))
    return out, cov


def mutate_json_value(rng, v, depth=0):
    """a structural mutation somewhere inside a JSON value"""
    if isinstance(v, dict) and v and rng.random() < 0.8:
        k = rng.choice(list(v))
        w = dict(v)
        r = rng.random()
        if r < 0.25:
            w.pop(k)
        elif r < 0.6 or not isinstance(v[k], (dict, list)):
            w[k] = rng.choice(SHAPES)
        else:
            w[k] = mutate_json_value(rng, v[k], depth + 1)
        return w
    if isinstance(v, list) and v and rng.random() < 0.8:
        i = rng.randrange(len(v))
        w = list(v)
        w[i] = mutate_json_value(rng, v[i], depth + 1) if rng.random() < 0.6 else rng.choice(SHAPES)
        return w
    return rng.choice(SHAPES)


def stream_library(rng, quick=True):
    toks, cov = library_tokens(rng, quick)
    calls = []
    nmut = 3 if quick else 25
    for t in toks:
        if t["kind"] == "jws":
            kn = t["key"]
            entries = [("jws.deserialize_compact", t["compact"]), ("rfc7797.deserialize_compact", t["compact"]), ("jwt.decode/jws", t["compact"]),
                       ("jws.deserialize_json", t["flat"]), ("jws.deserialize_json", t["general"]), ("rfc7797.deserialize_json", t["flat"])]
            keysel = [kn, "set:all", "call:set:all", rng.choice(KEY_NAMES)]
            for e, v in entries:
                for k in keysel:
                    calls.append((e, v, k, "all", "lib/valid"))
            h = header_of(t["compact"])
            for _ in range(nmut):
                m = mutate_json_value(rng, h)
                calls.append((rng.choice(["jws.deserialize_compact", "rfc7797.deserialize_compact", "jwt.decode/jws"]), with_header(t["compact"], m),
                              rng.choice(keysel), rng.choice(["all", "lax"]), "lib/mut"))
                fm = dict(t["flat"]); fm["protected"] = b64u(jdump(mutate_json_value(rng, {"alg": t["alg"]})))
                calls.append((rng.choice(["jws.deserialize_json", "rfc7797.deserialize_json"]), fm, rng.choice(keysel), "all", "lib/mut"))
                gm = {"payload": t["general"]["payload"], "signatures": [mutate_json_value(rng, dict(t["general"]["signatures"][0]))]}
                if isinstance(gm["signatures"][0], dict) and isinstance(gm["signatures"][0].get("signature"), str) and \
                        isinstance(gm["signatures"][0].get("protected", ""), str) and isinstance(gm["signatures"][0].get("header", {}), dict):
                    calls.append(("jws.deserialize_json", gm, rng.choice(keysel), "all", "lib/mut"))
        else:
            kn, sn = t["key"], t["sender"]
            suffix = "+s:" + sn if sn else ""
            keysel = [kn + suffix, "set:all" + ("+s:set:all" if sn else ""), "call:set:all" + suffix, rng.choice(KEY_NAMES) + suffix]
            if sn:
                keysel += [kn, kn + "+s:set:empty", kn + "+s:" + rng.choice(KEY_NAMES), kn + "+s:rsa", "set:all+s:" + sn]
            for e, v in (("jwe.decrypt_compact", t["compact"]), ("jwt.decode/jwe", t["compact"]), ("jwe.decrypt_json", t["flat"]),
                         ("jwe.decrypt_json", t["general"])):
                for k in keysel:
                    calls.append((e, v, k, "all", "lib/valid"))
            h = header_of(t["compact"])
            for _ in range(nmut):
                m = mutate_json_value(rng, h)
                calls.append((rng.choice(["jwe.decrypt_compact", "jwt.decode/jwe"]), with_header(t["compact"], m), rng.choice(keysel),
                              rng.choice(["all", "lax"]), "lib/mut"))
                for base in (t["flat"], t["general"]):
                    d = dict(base)
                    which = rng.choice(["protected", "unprotected", "header", "recipients", "other"])
                    if which == "protected":
                        d["protected"] = b64u(jdump(mutate_json_value(rng, json.loads(b64u_dec(base["protected"])))))
                    elif which == "unprotected":
                        d["unprotected"] = mutate_json_value(rng, dict(base.get("unprotected") or {"alg": t["alg"]}))
                        if not isinstance(d["unprotected"], dict):
                            continue
                    elif which == "header":
                        if "recipients" in d:
                            r0 = dict(d["recipients"][0]); r0["header"] = mutate_json_value(rng, dict(r0.get("header") or {"kid": kn}))
                            if not isinstance(r0["header"], dict):
                                continue
                            d["recipients"] = [r0] + list(d["recipients"][1:])
                        else:
                            d["header"] = mutate_json_value(rng, dict(d.get("header") or {"kid": kn}))
                            if not isinstance(d["header"], dict):
                                continue
                    elif which == "recipients" and "recipients" in d:
                        d["recipients"] = rng.choice([[], [{}], d["recipients"] * 2, d["recipients"] + [{"header": {"alg": "dir"}}],
                                                      [{"header": {"alg": "A128KW"}, "encrypted_key": b64u(bytes(24))}] + d["recipients"]])
                    else:
                        k2 = rng.choice(["iv", "ciphertext", "tag", "aad", "encrypted_key"])
                        d[k2] = rng.choice(["", "A", "!!", "AA", b64u(bytes(12)), b64u(bytes(16)), "\ud800", base.get(k2, "AA")[:-2]])
                    calls.append(("jwe.decrypt_json", d, rng.choice(keysel), rng.choice(["all", "any1", "lax"]), "lib/mut"))
    return calls, cov


def stream_keys(rng, quick=True):
    """callable keys, sender keys with skid of every JSON type, kid of every JSON type in every position with key sets"""
    calls = []
    payload = b'{"iss":"a"}'
    good_jws = jws_compact({"alg": "HS256"}, payload, "HS256", "oct32")
    good_jwe = jwe_dir_compact({"alg": "dir", "enc": "A128GCM"}, payload, "A128GCM", "oct16")
    flat_jws = {"payload": b64u(payload), **jws_member({"alg": "HS256"}, None, b64u(payload), "HS256", "oct32")}
    flat_jwe = jwe_dir_json({"alg": "dir", "enc": "A128GCM"}, payload, "A128GCM", "oct16")
    for c in CALLABLES:
        for e, v in (("jws.deserialize_compact", good_jws), ("rfc7797.deserialize_compact", good_jws), ("jwt.decode/jws", good_jws),
                     ("jws.deserialize_json", flat_jws), ("rfc7797.deserialize_json", flat_jws), ("jwe.decrypt_compact", good_jwe),
                     ("jwt.decode/jwe", good_jwe), ("jwe.decrypt_json", flat_jwe)):
            calls.append((e, v, c, "all", "keys/callable"))
    # kid of every JSON type, every position, with key sets
    kids = KEY_NAMES + ["nope", ""] + [x for x in SHAPES]
    for kid in kids:
        tok = jws_compact({"alg": "HS256", "kid": kid}, payload, "HS256", "oct32")
        for k in ("set:all", "set:oct16", "set:empty", "set:nokid2", "call:set:all"):
            for e in ("jws.deserialize_compact", "rfc7797.deserialize_compact", "jwt.decode/jws"):
                calls.append((e, tok, k, rng.choice(["all", "lax"]), "keys/kid"))
        for prot, hdr in (({"alg": "HS256", "kid": kid}, None), ({"alg": "HS256"}, {"kid": kid}), ({"alg": "HS256", "kid": "oct32"}, {"kid": kid}),
                          ({"alg": "HS256", "kid": kid}, {"kid": "oct32"}), (None, {"alg": "HS256", "kid": kid})):
            mem = jws_member(prot, hdr, b64u(payload), "HS256", "oct32", omit_protected=prot is None)
            for val in ({"payload": b64u(payload), **mem}, {"payload": b64u(payload), "signatures": [mem, mem]}):
                for k in ("set:all", "set:nokid2", "set:empty"):
                    for e in ("jws.deserialize_json", "rfc7797.deserialize_json"):
                        calls.append((e, val, k, "lax", "keys/kid"))
        tokj = jwe_dir_compact({"alg": "dir", "enc": "A128GCM", "kid": kid}, payload, "A128GCM", "oct16")
        for k in ("set:all", "set:oct16", "set:empty", "set:nokid2"):
            calls.append(("jwe.decrypt_compact", tokj, k, "lax", "keys/kid"))
            calls.append(("jwt.decode/jwe", tokj, k, "lax", "keys/kid"))
        for where in ("protected", "unprotected", "header"):
            for general in (False, True):
                prot = {"alg": "dir", "enc": "A128GCM"}
                un = hd = None
                if where == "protected":
                    prot["kid"] = kid
                elif where == "unprotected":
                    un = {"kid": kid}
                else:
                    hd = {"kid": kid}
                d = jwe_dir_json(prot, payload, "A128GCM", "oct16", unprotected=un, header=hd, general=general)
                for k in ("set:all", "set:oct16", "set:nokid2"):
                    calls.append(("jwe.decrypt_json", d, k, "lax", "keys/kid"))
    # ECDH-1PU: skid of every JSON type in every position, sender given as Key / KeySet
    from joserfc import jwe
    ks = keys()
    for rk, sk in (("ec256", "ec256b"), ("x25519", "x25519b")):
        for alg, enc in (("ECDH-1PU", "A128GCM"), ("ECDH-1PU+A128KW", "A128CBC-HS256"), ("ECDH-1PU+A128KW", "A128GCM")):
            try:
                base = jwe.encrypt_compact({"alg": alg, "enc": enc}, payload, ks[rk], algorithms=JWE_ALL, sender_key=ks[sk])
            except Exception:  # noqa  (the producer refuses KW + non-CBC)
                base = with_header(jwe.encrypt_compact({"alg": "ECDH-1PU+A128KW", "enc": "A128CBC-HS256"}, payload, ks[rk], algorithms=JWE_ALL,
                                                       sender_key=ks[sk]), {"alg": alg, "enc": enc, "epk": dict(EPK_EC if rk == "ec256" else EPK_X)})
            h0 = header_of(base)
            senders = [sk, "set:all", "set:empty", "set:nokid2", "rsa", "oct16", "ed25519", "ec384", "x448", rk]
            for skid in [None, sk, rk, "rsa", "oct16", "nope", ""] + list(SHAPES):
                h = dict(h0)
                if skid is not None:
                    h["skid"] = skid
                tok = with_header(base, h)
                hs, ek, iv, ct, tg = tok.split(".")
                for s in (senders if skid in (None, sk, "rsa") or not quick else rng.sample(senders, 3)):
                    for k in (rk, "set:all"):
                        calls.append(("jwe.decrypt_compact", tok, "%s+s:%s" % (k, s), rng.choice(["all", "lax"]), "keys/skid"))
                    for where in ("unprotected", "header"):
                        hh = {m: v for m, v in h.items() if m != "skid"}
                        d = {"protected": b64u(jdump(hh)), "iv": iv, "ciphertext": ct, "tag": tg}
                        r = {"encrypted_key": ek} if ek else {}
                        if skid is not None:
                            if where == "header":
                                r["header"] = {"skid": skid}
                            else:
                                d["unprotected"] = {"skid": skid}
                        d.update(r)
                        calls.append(("jwe.decrypt_json", d, "%s+s:%s" % (rk, s), rng.choice(["all", "lax", "any1"]), "keys/skid"))
                # no sender key at all
                calls.append(("jwe.decrypt_compact", tok, rk, "all", "keys/skid"))
                calls.append(("jwt.decode/jwe", tok, rk, "all", "keys/skid"))
    # two faults at once (a key of the wrong type / length AND a malformed header member or segment):
    # which error comes first is part of the end-to-end correspondence
    for base, kn in jwe_base_headers():
        tokv = valid_jwe_compact(base, kn, payload)
        hs, ek, iv, ct, tg = tokv.split(".")
        hmuts = [dict(base)]
        for m, vals in (("iv", ["!!", "", b64u(bytes(5))]), ("tag", ["!!", b64u(bytes(3))]), ("p2s", ["!!", ""]), ("p2c", [-1, 0, 2 ** 31]),
                        ("epk", [{"kty": "EC", "crv": "P-999", "x": "AA", "y": "AA"}, {"kty": "EC"}, dict(EPK_X), dict(EPK_EC)]),
                        ("apu", ["!!"]), ("zip", ["GZ", "DEF"]), ("crit", [["alg"], ["x"]])):
            if m in base or m in ("zip", "crit", "apu"):
                for v in vals:
                    h = dict(base); h[m] = v
                    hmuts.append(h)
        for h in hmuts:
            for segs in ([ek, iv, ct, tg], ["", iv, ct, tg], ["AA", iv, ct, tg], [ek, "AA", ct, tg], [b64u(bytes(24)), iv, ct, tg]):
                t2 = ".".join([b64u(jdump(h))] + segs)
                for k in ("oct16", "oct32", "oct64", "rsa", "ec256", "ec384", "x25519", "x448", "ed25519", "set:all"):
                    if quick and k != kn and rng.random() < 0.55:
                        continue
                    calls.append(("jwe.decrypt_compact", t2, k, "all", "keys/twofaults"))
    return calls



def nested_text(n, kind="list"):
    return (b"[" * n + b"]" * n) if kind == "list" else (b'{"a":' * n + b"1" + b"}" * n)


def stream_deep(rng, quick=True):
    """deep / long values in every attacker-controlled position of the JSON serializations, and deeply nested
    member values inside the JSON text of compact headers"""
    calls = []
    payload = b'{"iss":"a"}'
    pseg = b64u(payload)
    dv = deep_values()
    names_jws = ["kid", "crit", "jwk", "x5c", "typ", "zz", "alg", "b64", "jku"]
    for v in dv:
        for m in names_jws:
            hdr = {m: v}
            mem = jws_member({"alg": "HS256"}, hdr, pseg, "HS256", "oct32")
            mem2 = jws_member(None, {"alg": "HS256", **hdr}, pseg, "HS256", "oct32", omit_protected=True)
            good = jws_member({"alg": "HS256"}, {"kid": "oct32"}, pseg, "HS256", "oct32")
            vals = [{"payload": pseg, **mem}, {"payload": pseg, "signatures": [mem]}, {"payload": pseg, "signatures": [good, mem]},
                    {"payload": pseg, **mem2}, {"payload": pseg, **good, "zz": v}, {"payload": pseg, "signatures": [good], "zz": v}]
            for val in vals:
                for e in ("jws.deserialize_json", "rfc7797.deserialize_json"):
                    for k in ("oct32", "set:all"):
                        for reg in ("all", "lax"):
                            if quick and rng.random() < 0.6:
                                continue
                            calls.append((e, val, k, reg, "deep/jwsjson"))
        # a deep value INSIDE a member value
        for hdr in ({"jwk": {"kty": "oct", "zz": v}}, {"x5c": ["a", v]}, {"crit": ["kid", v], "kid": "oct32"}, {"zz": {"y": [v]}}):
            mem = jws_member({"alg": "HS256"}, hdr, pseg, "HS256", "oct32")
            for val in ({"payload": pseg, **mem}, {"payload": pseg, "signatures": [mem]}):
                for e in ("jws.deserialize_json", "rfc7797.deserialize_json"):
                    calls.append((e, val, rng.choice(["oct32", "set:all"]), rng.choice(["all", "lax"]), "deep/jwsjson"))
    names_jwe = ["kid", "skid", "epk", "apu", "apv", "p2s", "p2c", "iv", "tag", "crit", "zip", "enc", "alg", "jwk", "x5c", "zz"]
    bases = [({"alg": "dir", "enc": "A128GCM"}, "oct16")]
    for b, kn in jwe_base_headers():
        if b["alg"] in ("ECDH-ES", "ECDH-ES+A128KW", "PBES2-HS256+A128KW", "A128GCMKW", "A128KW") and kn in ("ec256", "oct16"):
            bases.append((b, kn))
    for base, kn in bases:
        if base["alg"] == "dir":
            core = None
        else:
            tok = valid_jwe_compact(base, kn, payload)
            hs, ek, iv, ct, tg = tok.split(".")
        for v in dv:
            for m in names_jwe:
                variants = [{m: v}]
                if m == "epk":
                    variants += [{"epk": {**EPK_EC, mm: v}} for mm in ("kty", "crv", "x", "y", "d", "use", "key_ops", "zz")]
                for other in variants:
                    for where in ("unprotected", "header", "recipient", "recipient2", "top"):
                        if quick and rng.random() < (0.5 if base["alg"] == "dir" else 0.8):
                            continue
                        prot = {k: x for k, x in base.items() if k not in other}
                        if base["alg"] == "dir":
                            d = jwe_dir_json(prot, payload, "A128GCM", "oct16", general=where.startswith("recipient"))
                        else:
                            d = {"protected": b64u(jdump(prot)), "iv": iv, "ciphertext": ct, "tag": tg}
                            r = {"encrypted_key": ek} if ek else {}
                            if where.startswith("recipient"):
                                d["recipients"] = [r]
                            else:
                                d.update(r)
                        if where == "unprotected":
                            d["unprotected"] = other
                        elif where == "header":
                            d["header"] = other
                        elif where == "recipient":
                            d["recipients"] = [{**d["recipients"][0], "header": other}]
                        elif where == "recipient2":
                            d["recipients"] = [d["recipients"][0], {"header": other}]
                        else:
                            d["zz"] = v
                        for k in (kn, "set:all"):
                            sfx = "+s:set:all" if m == "skid" else ""
                            calls.append(("jwe.decrypt_json", d, k + sfx, rng.choice(["all", "lax", "any1"]), "deep/jwejson"))
    # compact: deeply nested member values in the JSON text of the header (depths json.loads accepts, and beyond)
    for n in (200, 900, 5000):
        for kind in ("list", "dict"):
            nt = nested_text(n, kind)
            for m in ("kid", "crit", "zz", "jwk", "x5c", "typ", "b64"):
                raw = b'{"alg":"HS256","' + m.encode() + b'":' + nt + b"}"
                tok = jws_compact(None, payload, "HS256", "oct32", header_raw=raw)
                for e in ("jws.deserialize_compact", "rfc7797.deserialize_compact", "jwt.decode/jws"):
                    for k in ("oct32", "set:all"):
                        calls.append((e, tok, k, rng.choice(["all", "lax"]), "deep/compact"))
                flat = {"payload": pseg, **jws_member(None, None, pseg, "HS256", "oct32", omit_protected=True)}
            for m in ("kid", "crit", "zz", "enc", "zip", "epk", "apu", "p2s", "p2c", "iv", "tag", "skid", "alg"):
                hdr = b'{"alg":"dir","enc":"A128GCM","zip":"DEF"'
                raw = hdr + b',"' + m.encode() + b'":' + nt + b"}" if m not in ("alg", "enc", "zip") else \
                    hdr.replace(b'"%s":"%s"' % (m.encode(), {"alg": b"dir", "enc": b"A128GCM", "zip": b"DEF"}[m]), b'"' + m.encode() + b'":' + nt) + b"}"
                tok = jwe_dir_compact(None, raw_deflate(payload), "A128GCM", "oct16", header_raw=raw)
                for e in ("jwe.decrypt_compact", "jwt.decode/jwe"):
                    for k in ("oct16", "set:all"):
                        calls.append((e, tok, k, rng.choice(["all", "lax"]), "deep/compact"))
                d = {"protected": tok.split(".")[0], "iv": tok.split(".")[2], "ciphertext": tok.split(".")[3], "tag": tok.split(".")[4]}
                calls.append(("jwe.decrypt_json", d, "oct16", rng.choice(["all", "lax"]), "deep/compact"))
            # claims
            for hdr, body in (({"alg": "dir", "enc": "A128GCM"}, nt),):
                calls.append(("jwt.decode/jwe", jwe_dir_compact(hdr, body, "A128GCM", "oct16"), "oct16", "all", "deep/compact"))
            calls.append(("jwt.decode/jws", jws_compact({"alg": "HS256"}, b'{"a":' + nt + b"}", "HS256", "oct32"), "oct32", "all", "deep/compact"))
    return calls



# ---------------------------------------------------------------------------
# wave 3: boundaries of the content-encryption and key-management layers under GENUINE tags
# ---------------------------------------------------------------------------
def oct_raw(name):
    return bytes(range(24)) if name == "oct24" else bytes(range(48)) if name == "oct48" else b64u_dec(KEYS_JSON[name]["k"])


def cbc_raw_encrypt(ekey, iv, blocks):
    """AES-CBC of whole blocks WITHOUT padding: the decryption of the result is exactly `blocks`"""
    from cryptography.hazmat.primitives.ciphers import Cipher, algorithms, modes
    e = Cipher(algorithms.AES(ekey), modes.CBC(iv)).encryptor()
    return e.update(blocks) + e.finalize()


def cbc_tag(cek, aad, iv, ct):
    n = len(cek) // 2
    hname = {16: "sha256", 24: "sha384", 32: "sha512"}[n]
    return hmac.new(cek[:n], aad + iv + ct + struct.pack(">Q", len(aad) * 8), getattr(hashlib, hname)).digest()[:n]


def cbc_ciphertexts(rng, ekey, iv):
    """(label, ciphertext) : every boundary of the unpadding step; the tag is computed by the caller"""
    out = [("ct-len-0", b"")]
    for n in (1, 2, 7, 8, 15, 17, 31, 33):
        out.append(("ct-len-%d" % n, bytes(rng.randrange(256) for _ in range(n))))
    body = bytes(range(1, 16))
    for v in (0x00, 0x01, 0x02, 0x0f, 0x10, 0x11, 0x20, 0x80, 0xff):
        out.append(("last-octet-%02x" % v, cbc_raw_encrypt(ekey, iv, body + bytes([v]))))
    out.append(("pad-3-corrupt", cbc_raw_encrypt(ekey, iv, bytes(13) + bytes([3, 2, 3]))))
    out.append(("pad-3-ok", cbc_raw_encrypt(ekey, iv, b'{"a":1}      ' + bytes([3, 3, 3]))))
    out.append(("pad-16-all", cbc_raw_encrypt(ekey, iv, bytes([16]) * 16)))
    out.append(("pad-16-corrupt", cbc_raw_encrypt(ekey, iv, bytes([16]) * 7 + bytes([15]) + bytes([16]) * 8)))
    out.append(("len-32-fullpad", cbc_raw_encrypt(ekey, iv, b'{"iss":"abcdef"}' + bytes([16]) * 16)))
    out.append(("len-32-pad-17", cbc_raw_encrypt(ekey, iv, bytes(15) + bytes([17]) * 17)))
    out.append(("len-48", cbc_raw_encrypt(ekey, iv, b'{"iss":"abcdef","sub":"0123456789abcdefghij"}' + bytes([3]) * 3)))
    out.append(("len-48-zero", cbc_raw_encrypt(ekey, iv, bytes(48))))
    return out


def ecdh_es_cek(enc, bits, recipient, apu=b"", apv=b""):
    """own ECDH-ES (direct) composer: ephemeral key, pyca exchange, Concat KDF -> (epk JWK, cek)"""
    from cryptography.hazmat.primitives.asymmetric import ec, x25519
    from cryptography.hazmat.primitives import hashes
    from cryptography.hazmat.primitives.kdf.concatkdf import ConcatKDFHash
    j = KEYS_JSON[recipient]
    u32 = lambda b: struct.pack(">I", len(b)) + b
    if j["kty"] == "EC":
        pub = ec.EllipticCurvePublicNumbers(int.from_bytes(b64u_dec(j["x"]), "big"), int.from_bytes(b64u_dec(j["y"]), "big"), ec.SECP256R1()).public_key()
        eph = ec.generate_private_key(ec.SECP256R1())
        shared = eph.exchange(ec.ECDH(), pub)
        n = eph.public_key().public_numbers()
        epk = {"kty": "EC", "crv": "P-256", "x": b64u(n.x.to_bytes(32, "big")), "y": b64u(n.y.to_bytes(32, "big"))}
    else:
        from cryptography.hazmat.primitives import serialization
        pub = x25519.X25519PublicKey.from_public_bytes(b64u_dec(j["x"]))
        eph = x25519.X25519PrivateKey.generate()
        shared = eph.exchange(pub)
        epk = {"kty": "OKP", "crv": "X25519", "x": b64u(eph.public_key().public_bytes(serialization.Encoding.Raw, serialization.PublicFormat.Raw))}
    info = u32(enc.encode()) + u32(apu) + u32(apv) + struct.pack(">I", bits)
    cek = ConcatKDFHash(hashes.SHA256(), bits // 8, info).derive(shared)
    return epk, cek


def rsa_oaep_wrap(cek):
    from cryptography.hazmat.primitives.asymmetric import padding
    from cryptography.hazmat.primitives import hashes
    return priv("rsa").public_key().encrypt(cek, padding.OAEP(padding.MGF1(hashes.SHA1()), hashes.SHA1(), None))


def stream_boundaries(rng, quick=True):
    calls = []
    from joserfc import jwe
    ks = keys()
    # --- CBC-HS: genuine tag over every boundary ciphertext ; dir, RSA-OAEP and ECDH-ES recipients
    for enc, n, dirkey in (("A128CBC-HS256", 32, "oct32"), ("A192CBC-HS384", 48, "oct48"), ("A256CBC-HS512", 64, "oct64")):
        recips = [("dir", dirkey, oct_raw(dirkey), {"alg": "dir", "enc": enc, "kid": dirkey}, b"")]
        cek = bytes(rng.randrange(256) for _ in range(n))
        recips.append(("RSA-OAEP", "rsa", cek, {"alg": "RSA-OAEP", "enc": enc, "kid": "rsa"}, rsa_oaep_wrap(cek)))
        for rk in ("ec256", "x25519"):
            epk, cek2 = ecdh_es_cek(enc, n * 8, rk)
            recips.append(("ECDH-ES", rk, cek2, {"alg": "ECDH-ES", "enc": enc, "epk": epk, "kid": rk}, b""))
        for alg, kn, cek_, hdr, ek in recips:
            iv = bytes(range(16))
            hs = b64u(jdump(hdr))
            for label, ct in cbc_ciphertexts(rng, cek_[n // 2:], iv):
                for aadlabel, aad in (("", None), ("+aad", b"x" * 7)):
                    a = hs.encode() if aad is None else hs.encode() + b"." + b64u(aad).encode()
                    tag = cbc_tag(cek_, a, iv, ct)
                    t = "bnd/cbc/%s%s" % (label, aadlabel)
                    if aad is None:
                        tok = ".".join([hs, b64u(ek), b64u(iv), b64u(ct), b64u(tag)])
                        for e in ("jwe.decrypt_compact", "jwt.decode/jwe"):
                            for k in (kn, "set:all"):
                                calls.append((e, tok, k, "all", t))
                    d = {"protected": hs, "iv": b64u(iv), "ciphertext": b64u(ct), "tag": b64u(tag)}
                    if ek:
                        d["encrypted_key"] = b64u(ek)
                    if aad is not None:
                        d["aad"] = b64u(aad)
                    calls.append(("jwe.decrypt_json", d, kn, "all", t))
                    calls.append(("jwe.decrypt_json", {k: v for k, v in d.items() if k != "encrypted_key"} | {"recipients": [{"encrypted_key": b64u(ek)} if ek else {}]},
                                  kn, "all", t))
    # --- JWS with an empty payload (genuinely signed), every family
    for alg, kn in JWS_FAMILIES + JWS_FAMILIES_MORE:
        tok = jws_compact({"alg": alg}, b"", alg, kn)
        for e in ("jws.deserialize_compact", "rfc7797.deserialize_compact", "jwt.decode/jws"):
            calls.append((e, tok, kn, "all", "bnd/jws/empty-payload"))
        mem = jws_member({"alg": alg}, None, "", alg, kn)
        for e in ("jws.deserialize_json", "rfc7797.deserialize_json"):
            calls.append((e, {"payload": "", **mem}, kn, "all", "bnd/jws/empty-payload"))
            calls.append((e, {"payload": "", "signatures": [mem]}, kn, "all", "bnd/jws/empty-payload"))
    # --- GCM / ChaCha: empty ciphertext with a genuine tag, huge AAD
    for enc in ("A128GCM", "A192GCM", "A256GCM", "C20P", "XC20P"):
        kn = {16: "oct16", 24: "oct24", 32: "oct32"}[ENC_CEK[enc]]
        for label, pt, aad in (("empty-ct", b"", None), ("empty-ct+aad", b"", b"a"), ("huge-aad", b'{"a":1}', b"A" * 100000), ("one-octet", b"x", None)):
            t = "bnd/aead/%s/%s" % (enc, label)
            if aad is None:
                tok = jwe_dir_compact({"alg": "dir", "enc": enc}, pt, enc, kn)
                for e in ("jwe.decrypt_compact", "jwt.decode/jwe"):
                    calls.append((e, tok, kn, "all", t))
            d = jwe_dir_json({"alg": "dir", "enc": enc}, pt, enc, kn, aad=aad)
            calls.append(("jwe.decrypt_json", d, kn, "all", t))
    # --- key wrapping / key encryption: encrypted_key lengths
    for alg, kn in (("A128KW", "oct16"), ("A192KW", "oct24"), ("A256KW", "oct32"), ("RSA-OAEP", "rsa"), ("RSA1_5", "rsa"), ("RSA-OAEP-256", "rsa"),
                    ("ECDH-ES+A128KW", "ec256"), ("ECDH-ES+A256KW", "x25519"), ("PBES2-HS256+A128KW", "oct16"), ("A128GCMKW", "oct16")):
        h = {"alg": alg, "enc": "A128CBC-HS256"}
        if alg.startswith("PBES2"):
            h["p2c"] = 8
        tok = jwe.encrypt_compact(h, b'{"a":1}', ks[kn], algorithms=JWE_ALL)
        hs, ek, iv, ct, tg = tok.split(".")
        for n in (0, 1, 8, 16, 23, 24, 25, 32, 39, 40, 41, 48, 255, 256, 257):
            t = "bnd/ek/%s/len-%d" % (alg, n)
            for fill in (bytes(n), bytes(rng.randrange(256) for _ in range(n)), b64u_dec(ek)[:n].ljust(n, b"\xa6")):
                t2 = ".".join([hs, b64u(fill), iv, ct, tg])
                calls.append(("jwe.decrypt_compact", t2, kn, "all", t))
                calls.append(("jwe.decrypt_json", {"protected": hs, "iv": iv, "ciphertext": ct, "tag": tg, "encrypted_key": b64u(fill)}, kn, "all", t))
    # --- PBES2: salt input empty / one octet ; ECDH: apu / apv empty, one octet, 10^5 octets (all genuine, produced by the library)
    for p2s in ("", "AQ", "AA", b64u(b"s" * 16)):
        for alg in ("PBES2-HS256+A128KW", "PBES2-HS512+A256KW"):
            kn = "oct16"
            try:
                tok = jwe.encrypt_compact({"alg": alg, "enc": "A128GCM", "p2s": p2s, "p2c": 4}, b'{"a":1}', ks[kn], algorithms=JWE_ALL)
            except Exception:  # noqa
                continue
            for e in ("jwe.decrypt_compact", "jwt.decode/jwe"):
                calls.append((e, tok, kn, "all", "bnd/p2s/len-%d" % len(b64u_dec(p2s))))
    for alg, enc in (("ECDH-ES", "A128GCM"), ("ECDH-ES+A128KW", "A128CBC-HS256"), ("ECDH-1PU", "A256GCM")):
        for rk, sk in (("ec256", "ec256b"), ("x25519", "x25519b")):
            for un in (0, 1, 100000):
                for vn in (0, 1, 100000):
                    if quick and un == 100000 and vn == 100000 and rk != "ec256":
                        continue
                    h = {"alg": alg, "enc": enc, "apu": b64u(b"u" * un), "apv": b64u(b"v" * vn)}
                    kw = {"sender_key": ks[sk]} if "1PU" in alg else {}
                    try:
                        tok = jwe.encrypt_compact(h, b'{"a":1}', ks[rk], algorithms=JWE_ALL, **kw)
                    except Exception:  # noqa
                        continue
                    kname = rk + ("+s:" + sk if "1PU" in alg else "")
                    calls.append(("jwe.decrypt_compact", tok, kname, "all", "bnd/apuv/%s/%d-%d" % (alg, un, vn)))
                    if "1PU" not in alg:
                        calls.append(("jwt.decode/jwe", tok, kname, "all", "bnd/apuv/%s/%d-%d" % (alg, un, vn)))
    return calls
