"""C20 — calls sharing keys, key sets and registries are independent and thread-safe.

Three ties to the code:
 (1) sequential histories over shared objects, every call compared with the same call on
     fresh objects, with frozen-state snapshots of every singleton / class table;
 (2) a deterministic line-granular scheduler (sys.settrace + per-thread semaphores): every
     schedule of two operations with <= 2 preemptions (thorough: three threads, 4 preemptions)
     over the lines of the modelled shared-state functions; every executed schedule is also
     replayed in the Coq step model (labels of every step, results, final key state);
 (3) stress with real threads (thorough only; supporting evidence).
"""
import sys, os, threading, inspect, json, time, functools, itertools
import lib
from lib import c_str, c_bool, c_list, c_opt, c_pv, c_exn, exn_class, c_N, c_nat

# --------------------------------------------------------------------------------------
# source lines of the modelled functions -> step labels of coq/model/C20Model.v
# (text, label) in order of appearance; a text that occurs twice lists two labels
# --------------------------------------------------------------------------------------
L_DV = [("if self._dict_value:", "dv.if"), ("return self._dict_value", "dv.ret"),
        ("data = self.binding.convert_raw_key_to_dict(self.raw_value, self.is_private)", "dv.convert"),
        ("if self.extra_parameters is not None:", "dv.ifextra"), ("data.update(self.extra_parameters)", "dv.extra"),
        ('data["kty"] = self.key_type', "dv.kty"), ("self.validate_dict_key(data)", "dv.validate"),
        ("self._dict_value = data", "dv.assign"), ("return data", "dv.retdata"),
        ("self._dict_value.update(data)", "dv.update"), ("return self._dict_value", "dv.ret2")]
L_AD = [("if private and not self.is_private:", "ad.ifpriv"), ('raise ValueError("This key is not a private key.")', "ad.raise"),
        ("data = self.dict_value.copy()", "ad.copy"), ("if private is not False:", "ad.ifnotfalse"),
        ("data.update(params)", "ad.update1"), ("return data", "ad.ret1"),
        ("for k in self.dict_value:", "ad.for"), ("for k in list(data):", "ad.for"),
        ("if k in self.value_registry and self.value_registry[k].private:", "ad.ifk"), ("del data[k]", "ad.del"),
        ("data.update(params)", "ad.update2"), ("return data", "ad.ret2")]
L_PUB = [("if isinstance(self.raw_value,", "pub.if"), ("return self.raw_value.public_key()", "pub.ret"),
         ("return self.raw_value", "pub.ret")]
WT = {"jwe.cek", "jwe.iv", "dv.if", "dv.ret", "dv.ret2", "dv.assign", "dv.retdata", "dv.update", "r.ret", "ad.for",
      "gok.retpub", "pub.ret", "prk.choice"}     # steps that read or write mutable shared state


def label_specs():
    from joserfc.rfc7517.models import BaseKey
    from joserfc.jwk import guess_key, KeySet, ECKey, RSAKey, OKPKey
    from joserfc.rfc7515.registry import JWSRegistry
    import joserfc.rfc7638 as r7638
    import joserfc.rfc7516.message as M16
    return [
        ("dict_value", BaseKey.dict_value, L_DV, False),
        ("ensure_kid", BaseKey.ensure_kid, [('if "kid" not in self.dict_value:', "ek.if"),
                                            ('self._dict_value["kid"] = self.thumbprint()', "ek.set")], False),
        ("kid", BaseKey.kid, [('return t.cast(t.Optional[str], self.get("kid"))', "kid.ret")], False),
        ("get", BaseKey.get, [("return self.dict_value.get(k, default)", "get.ret")], False),
        ("thumbprint", BaseKey.thumbprint,
         [("fields = [k for k in self.value_registry if self.value_registry[k].required]", "tp.fields"),
          ('fields.append("kty")', "tp.append"),
          ("return thumbprint(self.dict_value, fields, self.thumbprint_digest_method)", "tp.ret")], False),
        ("rfc7638", r7638.thumbprint,
         [("sorted_fields = sorted(fields)", "r.sorted"), ("data = OrderedDict()", "r.data"), ("for k in sorted_fields:", "r.for"),
          ("data[k] = dict_value[k]", "r.set"), ('json_data = json.dumps(data, ensure_ascii=True, separators=(",", ":"))', "r.json"),
          ("hash_value = hashlib.new(digest_method, to_bytes(json_data))", "r.hash"), ("digest_data = hash_value.digest()", "r.digest"),
          ('return urlsafe_b64encode(digest_data).decode("utf-8")', "r.ret")], False),
        ("as_dict", BaseKey.as_dict, L_AD, False),
        ("check_key_op", BaseKey.check_key_op,
         [('key_ops = self.get("key_ops")', "cko.get"), ("if key_ops is not None and operation not in key_ops:", "cko.if"),
          ("raise UnsupportedKeyOperationError(f'Unsupported key_op \"{operation}\"')", "cko.raise"),
          ("assert operation in self.operation_registry", "cko.assert"), ("reg = self.operation_registry[operation]", "cko.reg"),
          ("if reg.private and not self.is_private:", "cko.ifpriv"),
          ("raise UnsupportedKeyOperationError(f'Invalid key_op \"{operation}\" for public key')", "cko.raise2")], False),
        ("get_op_key", BaseKey.get_op_key,
         [("self.check_key_op(operation)", "gok.check"), ("reg = self.operation_registry[operation]", "gok.reg"),
          ("if reg.private:", "gok.ifpriv"), ("assert self.private_key is not None", "gok.assert"),
          ("return self.private_key", "gok.retpriv"), ("return self.public_key", "gok.retpub")], False),
        ("ECKey.public_key", ECKey.__dict__["public_key"], L_PUB, False),
        ("RSAKey.public_key", RSAKey.__dict__["public_key"], L_PUB, False),
        ("OKPKey.public_key", OKPKey.__dict__["public_key"], L_PUB, False),
        ("KeySet.__init__", KeySet.__init__, [("for key in keys:", "ks.for"), ("key.ensure_kid()", "ks.ensure"),
                                              ("self.keys = keys", "ks.assign")], False),
        ("KeySet.as_dict", KeySet.as_dict,
         [("keys: list[DictKey] = []", "ksd.init"), ("for key in self.keys:", "ksd.for"), ("key.ensure_kid()", "ksd.ensure"),
          ("keys.append(key.as_dict(private=private, **params))", "ksd.append"), ('return {"keys": keys}', "ksd.ret")], False),
        ("get_by_kid", KeySet.get_by_kid,
         [("if kid is None and len(self.keys) == 1:", "gbk.if"), ("return self.keys[0]", "gbk.ret0"), ("for key in self.keys:", "gbk.for"),
          ("if key.kid == kid:", "gbk.ifkid"), ("return key", "gbk.retkey"),
          ("if kid is not None and not isinstance(kid, str):", "gbk.ifstr"),
          ("raise InvalidKeyIdError('No key for the given \"kid\": it is not a string')", "gbk.raise"),
          ("raise InvalidKeyIdError(f'No key for kid: \"{kid}\"')", "gbk.raise")], False),
        ("pick_random_key", KeySet.pick_random_key,
         [("key_types = self.algorithm_keys.get(algorithm)", "prk.algkeys"), ("if key_types:", "prk.if"),
          ("keys = [k for k in self.keys if k.key_type in key_types]", "prk.comp"), ("keys = self.keys", "prk.all"),
          ("if keys:", "prk.ifkeys"), ("return random.choice(keys)", "prk.choice"), ("return None", "prk.retnone")], False),
        ("guess_key", guess_key,
         [("if callable(key):", "gk.callable"), ("_norm_key = _normalize_key(key(obj))", "gk.norm"), ("_norm_key = _normalize_key(key)", "gk.norm"),
          ("if isinstance(_norm_key, KeySet):", "gk.isset"), ("headers = obj.headers()", "gk.headers"), ('kid = headers.get("kid")', "gk.kid"),
          ("if not kid and use_random:", "gk.ifrandom"), ('rv_key = _norm_key.pick_random_key(headers["alg"])', "gk.pick"),
          ("if rv_key is None:", "gk.ifnone"), ('raise ValueError("Invalid key")', "gk.raise"), ("rv_key.ensure_kid()", "gk.ensure"),
          ("assert rv_key.kid is not None", "gk.assert"), ("obj.set_kid(rv_key.kid)", "gk.setkid"),
          ("rv_key = _norm_key.get_by_kid(kid)", "gk.getbykid"),
          ("elif isinstance(_norm_key, (OctKey, RSAKey, ECKey, OKPKey)):", "gk.iskey"), ("rv_key = _norm_key", "gk.rvkey"),
          ('raise ValueError("Invalid key")', "gk.raise"), ("return rv_key", "gk.ret")], False),
        # JWE: the registry reads and the draws of a producer (partial: only these lines are steps)
        ("perform_encrypt", M16.perform_encrypt, [('enc = registry.get_enc(obj.protected["enc"])', "jwe.reg"), ("iv = enc.generate_iv()", "jwe.iv")], True),
        ("_perform_decrypt", M16._perform_decrypt, [('enc = registry.get_enc(obj.protected["enc"])', "jwe.reg")], True),
        ("pre_encrypt_recipients", M16.pre_encrypt_recipients, [("cek = enc.generate_cek()", "jwe.cek")], True),
        # only the first line of get_alg is a step (reads of class tables / the singleton)
        ("get_alg", JWSRegistry.get_alg, [("<first>", "jws.getalg")], True),
    ]


# --------------------------------------------------------------------------------------
# accesses to MUTABLE shared locations, logged in execution order (thread, key index | None = a draw):
# the `_dict_value` attribute of every key (a data descriptor put on BaseKey by the harness; the value still
# lives in the instance dict), random.choice, the CEK / IV draws.  The access-level correspondence
# (C20Cases.c20acc) is keyed to these accesses, not to source lines.
# --------------------------------------------------------------------------------------
ACCESS = {"log": None, "keys": {}}
_TLS = threading.local()
DRAW_LABELS = ("jwe.cek", "jwe.iv")


def log_access(what):
    log = ACCESS["log"]
    tid = getattr(_TLS, "tid", None)
    if log is not None and tid is not None:
        log.append((tid, what))


class DictValueSlot:
    """data descriptor standing in for the plain instance attribute BaseKey._dict_value"""

    def __get__(self, obj, cls=None):
        if obj is None:
            return self
        k = ACCESS["keys"].get(id(obj))
        if k is not None:
            log_access(k)
        try:
            return obj.__dict__["_dict_value"]
        except KeyError:
            raise AttributeError("_dict_value") from None

    def __set__(self, obj, value):
        k = ACCESS["keys"].get(id(obj))
        if k is not None:
            log_access(k)
        obj.__dict__["_dict_value"] = value

    def __delete__(self, obj):
        del obj.__dict__["_dict_value"]


def install_access_tracing():
    from joserfc.rfc7517.models import BaseKey
    if not isinstance(BaseKey.__dict__.get("_dict_value"), DictValueSlot):
        BaseKey._dict_value = DictValueSlot()


def _unwrap(f):
    return getattr(f, "fget", None) or getattr(f, "func", None) or getattr(f, "__func__", None) or f


class Stops:
    """(filename, lineno) -> label for every line of the modelled functions.
    Unknown lines of a fully modelled function get the label "?<func>|<text>" (still a stop)."""

    def __init__(self):
        self.map, self.codes, self.unknown = {}, set(), []
        for name, f, spec, partial in label_specs():
            f = _unwrap(f)
            code = f.__code__
            lines, start = inspect.getsourcelines(f)
            self.codes.add(code)
            used = {}
            first = True
            for ln in sorted({ln for _, _, ln in code.co_lines() if ln is not None and ln != code.co_firstlineno}):
                txt = lines[ln - start].strip()
                if "  #" in txt:
                    txt = txt.split("  #")[0].strip()
                cands = [lab for (t, lab) in spec if txt == t or (t.endswith(",") and txt.startswith(t)) or (t == "<first>" and first)]
                first = False
                if cands:
                    n = used.get(txt, 0)
                    used[txt] = n + 1
                    self.map[(code.co_filename, ln)] = cands[min(n, len(cands) - 1)]
                elif not partial:
                    lab = "?%s|%s" % (name, txt)
                    self.unknown.append(lab)
                    self.map[(code.co_filename, ln)] = lab
            # generator expressions / lambdas / nested functions of a modelled function run in frames of their own:
            # they are traced too, so that a thread can be preempted BETWEEN the items of an iteration over shared data
            stack = [code]
            while stack:
                for c in stack.pop().co_consts:
                    if not hasattr(c, "co_code"):
                        continue
                    stack.append(c)
                    self.codes.add(c)
                    for ln in sorted({ln for _, _, ln in c.co_lines() if ln is not None}):
                        if (c.co_filename, ln) in self.map or partial or not (0 <= ln - start < len(lines)):
                            continue
                        lab = "?%s|%s" % (name, lines[ln - start].strip())
                        self.unknown.append(lab)
                        self.map[(c.co_filename, ln)] = lab


class Sched:
    """Token passing: exactly one thread runs; at every stop it asks the policy who goes next."""

    def __init__(self, stops, timeout=20.0):
        self.stops, self.timeout = stops, timeout

    def run(self, thunks, policy):
        n = len(thunks)
        sems = [threading.Semaphore(0) for _ in range(n)]
        fin = threading.Event()
        pos, started, done, results = [None] * n, [False] * n, [False] * n, [None] * n
        stops, codes = self.stops.map, self.stops.codes
        trace, err = [], []

        def handoff(i):
            for j in range(n):
                if not started[j]:
                    started[j] = True
                    sems[j].release()
                    if not done[i]:
                        sems[i].acquire()
                    return
            if all(done):
                fin.set()
                return
            try:
                j = policy(pos, trace)
                assert j is not None and not done[j]
            except BaseException as e:   # noqa
                err.append(e)
                fin.set()
                return
            trace.append((j, pos[j]))
            if j == i:
                return
            sems[j].release()
            if not done[i]:
                sems[i].acquire()

        def mk_tracer(i):
            def local(frame, event, arg):
                if event == "line":
                    lab = stops.get((frame.f_code.co_filename, frame.f_lineno))
                    if lab is not None:
                        pos[i] = lab
                        handoff(i)
                        if lab in DRAW_LABELS:
                            log_access(None)
                return local

            def glob(frame, event, arg):
                return local if frame.f_code in codes else None
            return glob

        def worker(i):
            sems[i].acquire()
            _TLS.tid = i
            sys.settrace(mk_tracer(i))
            try:
                try:
                    results[i] = ("ok", thunks[i]())
                except BaseException as e:   # noqa
                    results[i] = ("err", e)
            finally:
                sys.settrace(None)
                done[i] = True
                pos[i] = None
                handoff(i)

        ths = [threading.Thread(target=worker, args=(i,), daemon=True) for i in range(n)]
        for t in ths:
            t.start()
        started[0] = True
        sems[0].release()
        if not fin.wait(self.timeout):
            raise RuntimeError("scheduler timeout (a thread blocked outside the scheduler) pos=%r" % (pos,))
        if err:
            raise err[0]
        for t in ths:
            t.join(self.timeout)
        return results, trace


def seg_policy(segments, wt_only):
    """segments [(tid, n or None)]: run tid for n steps (wt_only: until it has done n
    shared-state steps and stands before the next one), None = to completion; afterwards the
    lowest unfinished thread runs to completion."""
    segs = [list(s) for s in segments]

    def policy(pos, trace):
        while segs:
            t, k = segs[0]
            if pos[t] is None:
                segs.pop(0)
                continue
            if k is None:
                return t
            is_wt = (pos[t] in WT or pos[t].startswith("?")) if wt_only else True
            if is_wt:
                if k <= 0:
                    segs.pop(0)
                    continue
                segs[0][1] -= 1
            return t
        for i, p in enumerate(pos):
            if p is not None:
                return i
    return policy


def list_policy(sched):
    it = iter(list(sched))

    def policy(pos, trace):
        for t in it:
            if pos[t] is not None:
                return t
        for i, p in enumerate(pos):
            if p is not None:
                return i
    return policy


# --------------------------------------------------------------------------------------
# worlds: key specs -> fresh key objects, key sets, operations
# --------------------------------------------------------------------------------------
class KeyMaterial:
    def __init__(self, rng):
        from joserfc.jwk import OctKey, RSAKey, ECKey, OKPKey
        self.oct = [bytes(rng.randrange(256) for _ in range(32)) for _ in range(3)]
        ec = [ECKey.generate_key("P-256") for _ in range(2)]
        self.ec_priv = [k.as_pem(private=True) for k in ec]
        self.ec_pub = [k.as_pem(private=False) for k in ec]
        self.ec_jwk = [k.as_dict(private=True) for k in ec]
        rsa = RSAKey.generate_key(2048)
        self.rsa_priv, self.rsa_pub = rsa.as_pem(private=True), rsa.as_pem(private=False)
        okp = OKPKey.generate_key("Ed25519")
        self.okp_priv = okp.as_pem(private=True)
        self.oct_jwk = [OctKey.import_key(b).as_dict() for b in self.oct]
        self.oct16 = [bytes(rng.randrange(256) for _ in range(16)) for _ in range(2)]
        okp2 = OKPKey.generate_key("Ed25519")
        self.okp2_priv = okp2.as_pem(private=True)
        rsa2 = RSAKey.generate_key(2048)
        self.rsa2_priv = rsa2.as_pem(private=True)


def key_specs(mat):
    """name -> (constructor of a FRESH key object, prefilled?)"""
    from joserfc.jwk import OctKey, RSAKey, ECKey, OKPKey
    S = {}
    for i, b in enumerate(mat.oct):
        S["oct%d" % i] = (lambda b=b: OctKey.import_key(b), False)
    S["oct0sig"] = (lambda: OctKey.import_key(mat.oct[0], {"use": "sig", "alg": "HS256"}), False)
    S["oct0enc"] = (lambda: OctKey.import_key(mat.oct[0], {"use": "enc"}), False)
    S["oct0ops"] = (lambda: OctKey.import_key(mat.oct[0], {"key_ops": ["verify"]}), False)
    S["oct0kid"] = (lambda: OctKey.import_key(mat.oct[0], {"kid": "mine"}), False)
    S["oct0bad"] = (lambda: OctKey.import_key(mat.oct[0], {"use": "bogus"}), False)
    S["oct1jwk"] = (lambda: OctKey.import_key(dict(mat.oct_jwk[1])), True)
    S["oct2jwkkid"] = (lambda: OctKey.import_key(dict(mat.oct_jwk[2], kid="k2")), True)
    for i in range(2):
        S["ec%d" % i] = (lambda i=i: ECKey.import_key(mat.ec_priv[i]), False)
        S["ec%dpub" % i] = (lambda i=i: ECKey.import_key(mat.ec_pub[i]), False)
    S["ec1jwk"] = (lambda: ECKey.import_key(dict(mat.ec_jwk[1])), True)
    S["rsa"] = (lambda: RSAKey.import_key(mat.rsa_priv), False)
    S["rsapub"] = (lambda: RSAKey.import_key(mat.rsa_pub), False)
    S["okp"] = (lambda: OKPKey.import_key(mat.okp_priv), False)
    S["okp2"] = (lambda: OKPKey.import_key(mat.okp2_priv), False)
    S["rsa2"] = (lambda: RSAKey.import_key(mat.rsa2_priv), False)
    for i, b in enumerate(mat.oct16):
        S["oct16_%d" % i] = (lambda b=b: OctKey.import_key(b), False)
    return S


def kimm_of(mk):
    """immutable facts about a key, computed on a fresh object without touching its lazy slots"""
    k = mk()
    data = k.binding.convert_raw_key_to_dict(k.raw_value, k.is_private)
    if k.extra_parameters is not None:
        data.update(k.extra_parameters)
    data["kty"] = k.key_type
    if k._dict_value:
        data = dict(k._dict_value)
    try:
        k.validate_dict_key(dict(data))
        valid = True
    except ValueError:
        valid = False
    from joserfc.rfc7638 import thumbprint
    try:
        fields = [f for f in k.value_registry if k.value_registry[f].required] + ["kty"]
        tp = thumbprint(data, fields, k.thumbprint_digest_method)
    except Exception:   # noqa
        tp = ""
    return {"kty": k.key_type, "view": data, "extra": k.extra_parameters is not None, "valid": valid,
            "private": bool(k.is_private), "tp": tp}


def c_kimm(ki):
    d = "[" + "; ".join("(%s, %s)" % (c_str(k), c_pv(v)) for k, v in ki["view"].items()) + "]"
    return '{| ki_kty := "%s"%%string; ki_view := %s; ki_extra := %s; ki_valid := %s; ki_private := %s; ki_tp := %s |}' % (
        ki["kty"], d, c_bool(ki["extra"]), c_bool(ki["valid"]), c_bool(ki["private"]), c_str(ki["tp"]))


def c_ostr(s):
    return "None" if s is None else "(Some %s)" % c_str(s)


def c_cstr(s):
    return '"%s"%%string' % s


def c_allowed(a):
    return "(ROwn %s)" % ("None" if a is None else "(Some %s)" % c_list([c_cstr(x) for x in a]))


# the JWSRegistry instances every world shares between its calls (allow-list); index = RShared i of the model
STD_REGS = [None, ["HS256", "ES256", "HS384", "RS256", "EdDSA"], ["HS384"]]


def c_regref(reg, allowed):
    return "(RShared %d)" % reg if reg is not None else c_allowed(allowed)


def coq_of(op, r):
    if not op.crypto:
        return op.coq
    if op.crypto == "jwe":     # the primitive's verdict (unwrap / tag check) is an oracle
        return op.coq + (" (Some DecodeError)" if r == ("err", "EJose DecodeError") else " None")
    return op.coq + (" (Some BadSignatureError)" if r == ("err", "EJose BadSignatureError") else " None")


class Op:
    """one API call: `coq` = the model's call term, `thunk(env)` runs it on env (fresh objects)"""

    def __init__(self, name, coq, fn, modelled=True, kidfree=False, rand=False, kidsens=False):
        self.name, self.coq, self.fn, self.modelled, self.kidfree = name, coq, fn, modelled, kidfree
        self.crypto = False       # verify: the primitive's verdict is passed to the model as an oracle
        self.rand = rand          # the outcome depends on random.choice: compare with the set of isolated outcomes
        self.kidsens = kidsens    # looks keys up by kid: on a set of kid-less keys the outcome legitimately follows the lazy kid


def mk_ops(tokens):
    """operation constructors; k = key index, s = set index in the world"""
    from joserfc import jws, jwe, jwt
    O = {}

    def as_dict(k, private=None):
        cp = "None" if private is None else "(Some %s)" % c_bool(private)
        kw = {} if private is None else {"private": private}
        return Op("as_dict(%d,%r)" % (k, private), "CAsDict %d %s" % (k, cp), lambda env: env.keys[k].as_dict(**kw), kidfree=True)

    def thumb(k):
        return Op("thumbprint(%d)" % k, "CThumb %d" % k, lambda env: env.keys[k].thumbprint())

    def ensure(k):
        return Op("ensure_kid(%d)" % k, "CEnsureKid %d" % k, lambda env: env.keys[k].ensure_kid())

    def kid(k):
        return Op("kid(%d)" % k, "CKid %d" % k, lambda env: env.keys[k].kid, kidfree=True)

    def newset(ks):
        from joserfc.jwk import KeySet

        def fn(env):
            s = KeySet([env.keys[k] for k in ks])
            return [x.kid for x in s.keys]
        return Op("KeySet(%r)" % (ks,), "CNewSet %s" % c_list(["%d%%nat" % k for k in ks]), fn)

    def get_by_kid(s, kidv):
        def fn(env):
            key = env.sets[s].get_by_kid(kidv)
            return [i for i, x in enumerate(env.keys) if x is key][0]
        return Op("get_by_kid(%d,%r)" % (s, kidv), "CGetByKid %d %s" % (s, c_ostr(kidv)), fn, kidsens=True)

    def pick(s, alg):
        def fn(env):
            key = env.sets[s].pick_random_key(alg)
            return None if key is None else [i for i, x in enumerate(env.keys) if x is key][0]
        return Op("pick(%d,%s)" % (s, alg), "CPick %d %s" % (s, c_cstr(alg)), fn, rand=True)

    def set_as_dict(s, private=None):
        cp = "None" if private is None else "(Some %s)" % c_bool(private)
        kw = {} if private is None else {"private": private}
        return Op("KeySet.as_dict(%d,%r)" % (s, private), "CSetAsDict %d %s" % (s, cp), lambda env: env.sets[s].as_dict(**kw))

    def kr(ref):
        return ("(KKey %d)" % ref[1]) if ref[0] == "k" else ("(KSet %d)" % ref[1])

    def obj(env, ref):
        return env.keys[ref[1]] if ref[0] == "k" else env.sets[ref[1]]

    def sign(ref, alg, kidv=None, allowed=None, payload=b"payload", reg=None):
        def fn(env):
            hdr = {"alg": alg}
            if kidv is not None:
                hdr["kid"] = kidv
            kw = {} if reg is None else {"registry": env.regs[reg]}      # with registry= given, algorithms= is ignored by jws
            tok = jws.serialize_compact(hdr, payload, obj(env, ref), algorithms=allowed, **kw)
            env.tokens.append((tok, alg, payload, hdr.get("kid")))
            return hdr.get("kid")
        tag = "" if reg is None else ",reg=%d,algs=%r" % (reg, allowed)
        return Op("sign(%s,%s,%r%s)" % (ref, alg, kidv, tag), "CJws true %s %s %s %s None" % (kr(ref), c_ostr(kidv), c_cstr(alg), c_regref(reg, allowed)), fn,
                  rand=(ref[0] == "s" and not kidv), kidsens=(ref[0] == "s" and bool(kidv)))

    def verify(ref, tokname, allowed=None, reg=None):
        tok, alg, payload, kidv = tokens[tokname]

        def fn(env):
            kw = {} if reg is None else {"registry": env.regs[reg]}
            o = jws.deserialize_compact(tok, obj(env, ref), algorithms=allowed, **kw)
            if o.payload != payload:
                raise RuntimeError("verified payload differs")
            return o.headers().get("kid")
        tag = "" if reg is None else ",reg=%d,algs=%r" % (reg, allowed)
        o = Op("verify(%s,%s%s)" % (ref, tokname, tag), "CJws false %s %s %s %s" % (kr(ref), c_ostr(kidv), c_cstr(alg), c_regref(reg, allowed)), fn,
               kidsens=(ref[0] == "s"))
        o.crypto = True
        return o

    def jwe_enc(ref, alg, enc, kidv=None):
        def fn(env):
            hdr = {"alg": alg, "enc": enc}
            if kidv is not None:
                hdr["kid"] = kidv
            tok = jwe.encrypt_compact(hdr, b"secret", obj(env, ref), algorithms=[alg, enc])
            env.jwe_tokens.append((tok, alg, enc))
            return json.loads(lib_b64(tok.split(".")[0])).get("kid")
        return Op("jwe_enc(%s,%s,%s,%r)" % (ref, alg, enc, kidv),
                  "CJwe true %s %s %s %s %s None" % (kr(ref), c_ostr(kidv), c_cstr(alg), c_cstr(enc), c_allowed([alg, enc])), fn,
                  rand=(ref[0] == "s" and not kidv), kidsens=(ref[0] == "s" and bool(kidv)))

    def jwe_dec(ref, tokname):
        tok, alg, enc, kidv = tokens[tokname]

        def fn(env):
            o = jwe.decrypt_compact(tok, obj(env, ref), algorithms=[alg, enc])
            if o.plaintext != b"secret":
                raise RuntimeError("decrypted plaintext differs")
            return o.headers().get("kid")
        o = Op("jwe_dec(%s,%s)" % (ref, tokname),
               "CJwe false %s %s %s %s %s" % (kr(ref), c_ostr(kidv), c_cstr(alg), c_cstr(enc), c_allowed([alg, enc])), fn,
               kidsens=(ref[0] == "s"))
        o.crypto = "jwe"
        return o

    def raw(name, fn):
        return Op(name, None, fn, modelled=False)
    O.update(jwe_enc=jwe_enc, jwe_dec=jwe_dec, set_as_dict=set_as_dict, as_dict=as_dict, thumb=thumb, ensure=ensure, kid=kid, newset=newset, get_by_kid=get_by_kid, pick=pick,
             sign=sign, verify=verify, raw=raw)
    return O


class Env:
    def __init__(self, world):
        self.keys = [mk() for (mk, _) in world["keys"]]
        from joserfc.jwk import KeySet
        self.sets = []
        for members, lazy in world["sets"]:
            if lazy:
                s = KeySet([])
                s.keys.extend(self.keys[i] for i in members)     # a set over keys whose lazy slots are still empty
            else:
                s = KeySet([self.keys[i] for i in members])
            self.sets.append(s)
        self.tokens = []
        self.jwe_tokens = []
        from joserfc.jws import JWSRegistry
        self.regs = [JWSRegistry(algorithms=a) for a in STD_REGS]


class Shim:
    """stands in for the `random` module inside joserfc._keys: records every choice"""

    def __init__(self, real, forced=None):
        self.real, self.picks, self.forced = real, [], forced

    def choice(self, seq):
        log_access(None)
        x = self.real.choice(seq) if self.forced is None else seq[self.forced % len(seq)]
        self.picks.append([i for i, y in enumerate(seq) if y is x][0])
        return x

    def __getattr__(self, n):
        return getattr(self.real, n)


def norm(r):
    """('ok', value) | ('err', class)"""
    if r[0] == "ok":
        return ("ok", r[1])
    return ("err", exn_class(r[1]))


def c_result(r):
    if r[0] == "ok":
        v = r[1]
        if isinstance(v, bool) or not isinstance(v, int):
            return "(Ok %s)" % c_pv(v)
        return "(Ok (PInt %d%%Z))" % v
    return "(Err %s)" % c_exn(r[1])


def strip_kid(v, tps):
    """drop a thumbprint kid (the documented lazy assignment) from a result"""
    if isinstance(v, dict) and v.get("kid") in tps:
        v = dict(v)
        del v["kid"]
        return v
    if isinstance(v, str) and v in tps:
        return None
    return v


def key_final(k):
    d = k._dict_value
    return (bool(d), "kid" in d, "public_key" in k.__dict__)


# --------------------------------------------------------------------------------------
# frozen-state snapshots
# --------------------------------------------------------------------------------------
def fingerprint(v, depth=0):
    if isinstance(v, (str, bytes, int, float, bool, type(None))):
        return v
    if depth > 3:
        return ("id", id(v))
    if isinstance(v, dict):
        return ("dict", id(v), tuple((repr(k), fingerprint(x, depth + 1)) for k, x in v.items()))
    if isinstance(v, (list, tuple, set, frozenset)):
        return (type(v).__name__, id(v), tuple(fingerprint(x, depth + 1) for x in (sorted(v, key=repr) if isinstance(v, (set, frozenset)) else v)))
    return ("obj", type(v).__name__, id(v))


def snapshot_objects():
    """every object that is shared by all calls: algorithm singletons, class tables, default registries, classes"""
    from joserfc import jws, jwe, jwt, jwk
    from joserfc.rfc7518.jws_algs import JWS_ALGORITHMS
    from joserfc.rfc7518.jwe_algs import JWE_ALG_MODELS
    from joserfc.rfc7518.jwe_encs import JWE_ENC_MODELS
    from joserfc.rfc7518.jwe_zips import JWE_ZIP_MODELS
    from joserfc.rfc8037.jws_eddsa import EdDSA
    from joserfc.rfc8812 import ES256K
    from joserfc.rfc7515.registry import JWSRegistry, default_registry as jws_default
    from joserfc.rfc7516.registry import JWERegistry, default_registry as jwe_default
    from joserfc.rfc7515 import model as m15
    from joserfc.rfc7516 import models as m16
    from joserfc.rfc7517.models import BaseKey, NativeKeyBinding
    from joserfc.rfc7518.ec_key import ECBinding
    from joserfc import registry as reg
    objs = {}
    for a in list(JWS_ALGORITHMS) + [EdDSA, ES256K] + list(JWE_ALG_MODELS) + list(JWE_ENC_MODELS) + list(JWE_ZIP_MODELS):
        objs["singleton:%s:%s" % (type(a).__name__, getattr(a, "name", "?"))] = a
        objs["singleton-class:%s" % type(a).__name__] = type(a)
    objs["jws.default_registry"] = jws_default
    objs["jwe.default_registry"] = jwe_default
    for c in (JWSRegistry, JWERegistry, jwk.KeySet, jwk.JWKRegistry, BaseKey, NativeKeyBinding, ECBinding, jwk.OctKey, jwk.RSAKey,
              jwk.ECKey, jwk.OKPKey, m15.CompactSignature, m15.FlattenedJSONSignature, m15.GeneralJSONSignature, m15.HeaderMember,
              m16.CompactEncryption, m16.FlattenedJSONEncryption, m16.GeneralJSONEncryption, m16.Recipient):
        objs["class:%s" % c.__name__] = c
    for n in ("JWS_HEADER_REGISTRY", "JWE_HEADER_REGISTRY", "JWK_PARAMETER_REGISTRY", "JWK_OPERATION_REGISTRY"):
        objs["registry.%s" % n] = getattr(reg, n)
    return objs


def take_snapshot(objs):
    snap = {}
    for name, o in objs.items():
        d = o if isinstance(o, dict) else vars(o)
        snap[name] = {k: fingerprint(v) for k, v in d.items() if not (k.startswith("__") and k.endswith("__")) and k != "_abc_impl"}
    return snap


def diff_snapshot(a, b):
    out = []
    for name in a:
        if a[name] != b[name]:
            ks = [k for k in set(a[name]) | set(b[name]) if a[name].get(k, "<absent>") != b[name].get(k, "<absent>")]
            out.append((name, sorted(ks)))
    return out


# --------------------------------------------------------------------------------------
# worlds and operation pairs
# --------------------------------------------------------------------------------------
def build_worlds(specs):
    def W(keys, sets=()):
        return {"keynames": list(keys), "keys": [specs[k] for k in keys], "sets": list(sets)}
    return {
        "oct-lazyset": W(["oct0"], [([0], True)]),
        "oct": W(["oct0"]),
        "oct-set": W(["oct0"], [([0], False)]),
        "ec": W(["ec0"]),
        "ec-lazyset": W(["ec0", "oct1"], [([0, 1], True)]),
        "ecpub": W(["ec0pub"]),
        "mixed-set": W(["ec0", "oct0", "oct2jwkkid", "ec1jwk"], [([0, 1, 2, 3], False)]),
        "two-oct-lazy": W(["oct0", "oct1"], [([0, 1], True)]),
        "params": W(["oct0sig", "oct0kid", "oct0bad", "oct0ops", "oct0enc"]),
        "rsa": W(["rsa", "rsapub"]),
        "okp": W(["okp"]),
        "jwk": W(["oct1jwk", "ec1jwk"], [([0, 1], False)]),
        "oct16": W(["oct16_0"]),
        "oct16-lazyset": W(["oct16_0", "ec0"], [([0, 1], True)]),
        "oct16-set": W(["oct16_0", "oct16_1"], [([0, 1], False)]),
    }


def make_tokens(worlds):
    """valid tokens (made on private fresh objects) for the verify operations"""
    from joserfc import jws
    toks = {}

    def mk(name, world, k, alg, kidv=None):
        env = Env(worlds[world])
        hdr = {"alg": alg}
        if kidv == "tp":
            kidv = env.keys[k].thumbprint()
        if kidv:
            hdr["kid"] = kidv
        payload = ("payload-" + name).encode()
        toks[name] = (jws.serialize_compact(hdr, payload, env.keys[k], algorithms=[alg]), alg, payload, kidv)
    mk("hs-nokid", "oct", 0, "HS256")
    mk("hs-tp", "oct", 0, "HS256", "tp")
    mk("es-nokid", "ec", 0, "ES256")
    mk("es-tp", "ec", 0, "ES256", "tp")
    mk("hs-k2", "mixed-set", 2, "HS256", "k2")
    mk("es-mixed-tp", "mixed-set", 0, "ES256", "tp")
    mk("rs-nokid", "rsa", 0, "RS256")
    mk("ed-nokid", "okp", 0, "EdDSA")
    from joserfc import jwe

    def mke(name, world, k, alg, enc, kidv=None):
        env = Env(worlds[world])
        hdr = {"alg": alg, "enc": enc}
        if kidv == "tp":
            kidv = env.keys[k].thumbprint()
        if kidv:
            hdr["kid"] = kidv
        toks[name] = (jwe.encrypt_compact(hdr, b"secret", env.keys[k], algorithms=[alg, enc]), alg, enc, kidv)
    mke("kw-nokid", "oct16", 0, "A128KW", "A128GCM")
    mke("kw-tp", "oct16", 0, "A128KW", "A128CBC-HS256", "tp")
    mke("dir-nokid", "oct", 0, "dir", "A128CBC-HS256")
    mke("dir16-nokid", "oct16", 0, "dir", "A128GCM")
    return toks


def pairs_quick(O):
    K, S = lambda i: ("k", i), lambda i: ("s", i)
    P = [
        ("oct-lazyset", [O["sign"](S(0), "HS256"), O["as_dict"](0)]),               # the schedule of the lost kid
        ("oct-lazyset", [O["sign"](S(0), "HS256"), O["as_dict"](0, False)]),
        ("oct-lazyset", [O["sign"](S(0), "HS256"), O["sign"](S(0), "HS256")]),
        ("oct-lazyset", [O["sign"](S(0), "HS256"), O["verify"](K(0), "hs-nokid")]),
        ("oct", [O["newset"]([0]), O["sign"](K(0), "HS256")]),
        ("oct", [O["newset"]([0]), O["as_dict"](0, False)]),
        ("oct", [O["ensure"](0), O["verify"](K(0), "hs-nokid")]),
        ("oct", [O["ensure"](0), O["kid"](0)]),
        ("oct", [O["thumb"](0), O["ensure"](0)]),
        ("oct", [O["thumb"](0), O["newset"]([0])]),
        ("okp", [O["kid"](0), O["newset"]([0])]),
        ("oct-set", [O["verify"](S(0), "hs-tp"), O["as_dict"](0, False)]),
        ("ec", [O["sign"](K(0), "ES256", allowed=["ES256"]), O["as_dict"](0, False)]),
        ("ec", [O["verify"](K(0), "es-nokid"), O["verify"](K(0), "es-nokid")]),   # cached public_key filled twice
        ("ecpub", [O["verify"](K(0), "es-nokid"), O["as_dict"](0, True)]),
        ("ec-lazyset", [O["sign"](S(0), "ES256"), O["newset"]([0, 1])]),
        ("two-oct-lazy", [O["sign"](S(0), "HS256"), O["get_by_kid"](0, None)]),
        ("mixed-set", [O["verify"](S(0), "hs-k2"), O["sign"](S(0), "ES256")]),
        ("mixed-set", [O["verify"](S(0), "es-mixed-tp"), O["pick"](0, "HS256")]),
        ("params", [O["sign"](K(0), "HS256"), O["as_dict"](1)]),
        ("params", [O["ensure"](1), O["as_dict"](2)]),
        ("jwk", [O["sign"](S(0), "ES256"), O["as_dict"](1, False)]),
        ("oct", [O["verify"](K(0), "hs-nokid", allowed=["HS384"], reg=0), O["verify"](K(0), "hs-nokid", reg=0)]),
        ("oct", [O["sign"](K(0), "HS384", allowed=["HS256"], reg=2), O["sign"](K(0), "HS256", reg=2)]),
        ("oct-set", [O["verify"](S(0), "hs-tp", allowed=["HS512"], reg=1), O["sign"](S(0), "HS256", reg=1)]),
        ("oct16-lazyset", [O["jwe_enc"](S(0), "A128KW", "A128GCM"), O["as_dict"](0, False)]),
        ("oct16", [O["jwe_enc"](K(0), "A128KW", "A128CBC-HS256"), O["jwe_dec"](K(0), "kw-nokid")]),
        ("oct16-set", [O["jwe_dec"](S(0), "kw-tp"), O["jwe_enc"](S(0), "A128KW", "A128GCM")]),
        ("oct", [O["jwe_enc"](K(0), "dir", "A128CBC-HS256"), O["jwe_dec"](K(0), "dir-nokid")]),
        ("two-oct-lazy", [O["set_as_dict"](0, False), O["sign"](S(0), "HS256")]),
        ("mixed-set", [O["set_as_dict"](0, None), O["as_dict"](1, False)]),
    ]
    return P


def jwe_pairs(O, mat):
    """direct-oracle only (not in the step model): concurrent JWE producers sharing a key"""
    from joserfc import jwe
    from joserfc.jwk import ECKey, OctKey

    def enc(k, alg, encn):
        def fn(env):
            tok = jwe.encrypt_compact({"alg": alg, "enc": encn}, b"secret", env.keys[k])
            env.tokens.append(("jwe", tok, alg, k))
            return "token"
        return O["raw"]("encrypt(%d,%s)" % (k, alg), fn)
    return [("ecpub", [enc(0, "ECDH-ES", "A128GCM"), enc(0, "ECDH-ES+A128KW", "A128CBC-HS256")]),
            ("oct", [enc(0, "dir", "A256GCM"), enc(0, "A256KW", "A128GCM")]),
            ("oct", [enc(0, "PBES2-HS256+A128KW", "A128GCM"), O["as_dict"](0, False)])]


# --------------------------------------------------------------------------------------
class Runner:
    def __init__(self, ctx, mat=None):
        self.ctx = ctx
        self.stops = Stops()
        self.sched = Sched(self.stops)
        self.mat = mat or KeyMaterial(ctx.rng)
        self.specs = key_specs(self.mat)
        self.worlds = build_worlds(self.specs)
        self.tokens = make_tokens(self.worlds)
        self.O = mk_ops(self.tokens)
        self.kimms = {}
        self.cases, self.meta = [], []
        self.acc_cases, self.acc_meta = [], []
        # does the line-label table still describe the source?  (every line of every modelled function is known)
        self.table_ok = not self.stops.unknown
        self.last_accesses = []
        install_access_tracing()
        self.nsched = 0
        import joserfc._keys as _keys
        self._keys = _keys

    def kimm(self, name):
        if name not in self.kimms:
            self.kimms[name] = kimm_of(self.specs[name][0])
        return self.kimms[name]

    def wid(self, wname):
        return wname.replace("-", "_")

    def preamble(self):
        out = ["Definition regs_std : list creg := %s." % c_list(
            ["{| cr_allowed := %s; cr_strict := true; cr_verify_all := true |}" % ("None" if a is None else "(Some %s)" % c_list([c_cstr(x) for x in a])) for a in STD_REGS])]
        for wname, world in self.worlds.items():
            wid = self.wid(wname)
            out.append("Definition im_%s : imm := %s." % (wid, c_list([c_kimm(self.kimm(n)) for n in world["keynames"]])))
            out.append("Definition pre_%s : list bool := %s." % (wid, c_list([c_bool(p) for (_, p) in world["keys"]])))
            out.append("Definition sets_%s : list (list nat) := %s." % (wid, c_list([c_list(["%d%%nat" % i for i in m]) for m, _ in world["sets"]])))
        return "\n".join(out)

    def tps(self, world):
        return {self.kimm(n)["tp"] for n in world["keynames"]}

    def isolated(self, wname, op):
        """the call on fresh objects, alone; for a call that draws from random.choice: one outcome per possible pick"""
        outs = []
        for forced in (range(4) if op.rand else [None]):
            env = Env(self.worlds[wname])
            real = self._keys.random
            self._keys.random = Shim(real.real if isinstance(real, Shim) else real, forced)
            try:
                r = norm(("ok", op.fn(env)))
            except BaseException as e:   # noqa
                r = norm(("err", e))
            finally:
                self._keys.random = real
            if r not in outs:
                outs.append(r)
        return outs, env

    def same(self, wname, op, a, outs):
        tps = self.tps(self.worlds[wname])
        if op.kidsens and any(lazy for _, lazy in self.worlds[wname]["sets"]):
            return True
        for b in outs:
            if a == b or (a[0] == b[0] == "ok" and op.kidfree and strip_kid(a[1], tps) == strip_kid(b[1], tps)):
                return True
        return False

    def run_schedule(self, wname, ops, policy):
        world = self.worlds[wname]
        env = Env(world)
        shim = Shim(self._keys.random if not isinstance(self._keys.random, Shim) else self._keys.random.real)
        self._keys.random = shim
        ACCESS["keys"] = {id(k): i for i, k in enumerate(env.keys)}
        ACCESS["log"] = []
        watch_registries({"registry[%d]" % i: r for i, r in enumerate(env.regs)})
        try:
            res, trace = self.sched.run([(lambda op=op: op.fn(env)) for op in ops], policy)
        finally:
            self._keys.random = shim.real
            self.last_accesses, ACCESS["log"], ACCESS["keys"] = ACCESS["log"], None, {}
        self.nsched += 1
        return env, [norm(r) for r in res], trace, shim.picks

    # ---- the direct oracle: every thread's outcome equals its isolated outcome ----
    def judge(self, wname, ops, env, res, trace, iso, kind):
        ctx = self.ctx
        replay = {"kind": "schedule", "world": wname, "ops": [op.name for op in ops], "schedule": [t for t, _ in trace],
                  "pair_kind": kind}
        for i, op in enumerate(ops):
            a, b = res[i], iso[i][0]
            if not self.same(wname, op, a, iso[i]):
                where = next((lab for t, lab in reversed(trace) if t == i), "?")
                ctx.violation({"kind": "outcome-differs-under-interleaving", "isolated": b[1] if b[0] == "err" else "ok",
                               "interleaved": a[1] if a[0] == "err" else "ok", "op": op.name.split("(")[0]},
                              "thread %d (%s) gives %r when interleaved with %s but %r in isolation (world %s; last step of the thread: %s)" % (
                                  i, op.name, a, [o.name for j, o in enumerate(ops) if j != i], b, wname, where),
                              dict(replay, thread=i))
        # a key that completed ensure_kid (directly, via KeySet(...) or via a random pick) keeps its kid
        for i, op in enumerate(ops):
            if res[i][0] != "ok":
                continue
            n = op.name
            ks = []
            if n.startswith("ensure_kid("):
                ks = [int(n[len("ensure_kid("):-1])]
            elif n.startswith("KeySet("):
                ks = json.loads(n[len("KeySet("):-1])
            elif n.startswith("sign(('s'") and res[i][1] is not None:
                ks = [j for j, k in enumerate(env.keys) if k._dict_value.get("kid") == res[i][1] or self.kimm(self.worlds[wname]["keynames"][j])["tp"] == res[i][1]]
                ks = ks[:1] if len(ks) == 1 else []
            for k in ks:
                if env.keys[k].kid is None:
                    ctx.violation({"kind": "kid-lost", "op": n.split("(")[0]},
                                  "after %s completed in thread %d, key %d of world %s has no kid any more (other threads: %s)" % (
                                      n, i, k, wname, [o.name for j, o in enumerate(ops) if j != i]),
                                  dict(replay, thread=i, key=k))
        # produced tokens verify / decrypt on fresh keys; per-call randomness is distinct
        from joserfc import jws, jwe
        fresh = Env(self.worlds[wname])
        ivs = []
        for t in env.tokens:
            try:
                if t[0] == "jwe":
                    o = jwe.decrypt_compact(t[1], fresh.keys[t[3]] if not t[2].startswith("ECDH") else Env(self.worlds["ec"]).keys[0])
                    assert o.plaintext == b"secret"
                    parts = t[1].split(".")
                    ivs.append(("iv", parts[2]))
                    hdr = json.loads(lib_b64(parts[0]))
                    if "epk" in hdr:
                        ivs.append(("epk", json.dumps(hdr["epk"], sort_keys=True)))
                    if "p2s" in hdr:
                        ivs.append(("p2s", hdr["p2s"]))
                    if parts[1]:
                        ivs.append(("ek", parts[1]))
                else:
                    tok, alg, payload, kidv = t
                    key = [k for k in fresh.keys if alg_fits(k, alg)]
                    ok = False
                    for k in key:
                        try:
                            if jws.deserialize_compact(tok, k, algorithms=[alg]).payload == payload:
                                ok = True
                        except Exception:   # noqa
                            pass
                    assert ok, "no fresh key verifies the token"
                    hdr = json.loads(lib_b64(tok.split(".")[0]))
                    if "kid" in hdr and hdr["kid"] is None:
                        raise AssertionError("token header carries kid null")
            except Exception as e:   # noqa
                ctx.violation({"kind": "token-invalid-under-interleaving"},
                              "a token produced under the interleaving is not accepted by fresh keys: %r (%s, world %s)" % (
                                  e, [o.name for o in ops], wname), dict(replay, token=t[1] if t[0] == "jwe" else t[0]))
        wr = take_registry_writes()
        if wr:
            ctx.violation({"kind": "shared-object-written", "object": "caller-registry attribute (during the call)", "attr": wr[0][1]},
                          "a call of %r wrote attribute(s) %r of a shared registry (world %s)" % ([o.name for o in ops], sorted({(w0, a) for w0, a, _ in wr}), wname), replay)
        for tok, alg, enc in env.jwe_tokens:
            note_random(ctx, tok, "%s in world %s, schedule %r" % ([o.name for o in ops], wname, replay["schedule"][:20]))
            good = False
            for fk in fresh.keys:
                try:
                    good = good or jwe.decrypt_compact(tok, fk, algorithms=[alg, enc]).plaintext == b"secret"
                except Exception:   # noqa
                    pass
            parts = tok.split(".")
            ivs.append(("iv", parts[2]))
            if parts[1]:
                ivs.append(("ek", parts[1]))
            if not good:
                ctx.violation({"kind": "token-invalid-under-interleaving"},
                              "a JWE produced under the interleaving is not opened by fresh keys (%s, world %s)" % ([o.name for o in ops], wname),
                              dict(replay, token=tok))
        if len(set(ivs)) != len(ivs):
            ctx.violation({"kind": "randomness-reused"}, "IV / epk / salt / encrypted key repeated across concurrent producers: %r" % (ivs,), replay)

    # ---- the model case of one executed schedule ----
    def emit(self, variant, wname, ops, env, res, trace, picks):
        world = self.worlds[wname]
        wid = self.wid(wname)
        setup = c_list(["CNewSet %s" % c_list(["%d%%nat" % i for i in m]) for m, lazy in world["sets"] if not lazy])
        term = "CSched %s im_%s pre_%s sets_%s regs_std %s %s %s %s %s %s %s %s" % (
            c_bool(variant == "fixed"), wid, wid, wid, c_list(["%d%%nat" % p for p in picks]), setup,
            c_list([coq_of(op, r) for op, r in zip(ops, res)]), c_cstr("".join(str(t) for t, _ in trace)),
            c_cstr(" ".join((lab if '"' not in lab and " " not in lab else "?") for _, lab in trace)),
            c_list([c_result(r) for r in res]),
            c_list(["(%s, %s, %s)" % tuple(c_bool(x) for x in key_final(k)) for k in env.keys]),
            c_N(len(picks) + sum(1 for _, lab in trace if lab in ("jwe.cek", "jwe.iv"))))
        self.cases.append(term)
        self.meta.append({"world": wname, "ops": [op.name for op in ops], "schedule": [t for t, _ in trace]})

    def emit_acc(self, variant, wname, ops, env, res, trace, picks, accesses):
        """the access-level case of one executed schedule: which thread accessed which key's slot / drew, in order"""
        world = self.worlds[wname]
        wid = self.wid(wname)
        setup = c_list(["CNewSet %s" % c_list(["%d%%nat" % i for i in m]) for m, lazy in world["sets"] if not lazy])
        acc = c_list(["(%d%%nat, %s)" % (t, "None" if k is None else "(Some %d%%nat)" % k) for t, k in accesses])
        self.acc_cases.append("CAcc %s im_%s pre_%s sets_%s regs_std %s %s %s %s %s %s" % (
            c_bool(variant == "fixed"), wid, wid, wid, c_list(["%d%%nat" % p for p in picks]), setup,
            c_list([coq_of(op, r) for op, r in zip(ops, res)]), acc, c_list([c_result(r) for r in res]),
            c_list(["(%s, %s, %s)" % tuple(c_bool(x) for x in key_final(k)) for k in env.keys])))
        self.acc_meta.append({"world": wname, "ops": [op.name for op in ops], "schedule": [t for t, _ in trace]})

    def pair(self, variant, wname, ops, kind, max_pre, all_lines):
        """every schedule of the operations with <= max_pre preemptions (2 threads: 2; 3 threads: sampled)"""
        ctx = self.ctx
        iso = [self.isolated(wname, op)[0] for op in ops]
        modelled = all(op.modelled for op in ops)
        # step counts of the sequential run
        env, res, trace, picks = self.run_schedule(wname, ops, seg_policy([], True))
        wt = lambda lab: (lab in WT or lab.startswith("?")) or all_lines
        cnt = [sum(1 for t, lab in trace if t == i and wt(lab)) for i in range(len(ops))]
        seen = set()

        def go(segments):
            env, res, trace, picks = self.run_schedule(wname, ops, seg_policy(segments, not all_lines))
            key = tuple(t for t, _ in trace)
            if key in seen:
                return
            seen.add(key)
            ctx.note_case((wname, tuple(op.name for op in ops), key))
            nv = len(ctx.violations) + len(ctx.known_hits)
            self.judge(wname, ops, env, res, trace, iso, kind)
            interesting = (len(ctx.violations) + len(ctx.known_hits) != nv) or any(r not in i for r, i in zip(res, iso))
            if modelled and (interesting and emitted[1] < 25 or len(seen) % stride == 0):
                emitted[1] += 1 if interesting else 0
                if self.table_ok:
                    self.emit(variant, wname, ops, env, res, trace, picks)
                if not self.table_ok or interesting or len(seen) % (stride * 3) == 0:
                    self.emit_acc(variant, wname, ops, env, res, trace, picks, self.last_accesses)
        emitted = [0, 0]
        stride = 6 if ctx.quick else (12 if all_lines else 3)
        go([])
        n = len(ops)
        if n == 2:
            for first in (0, 1):
                other = 1 - first
                for i in range(0, cnt[first] + 1):
                    for j in range(1, cnt[other] + 2):
                        if max_pre >= 2:
                            go([(first, i), (other, j), (first, None)])
                    go([(first, i), (other, None)])
            if max_pre >= 4:
                for _ in range(ctx.scale(0, 300)):
                    first = ctx.rng.randrange(2)
                    segs = []
                    t = first
                    for _ in range(4):
                        segs.append((t, ctx.rng.randrange(0, max(cnt) + 1)))
                        t = 1 - t
                    go(segs)
        else:
            for _ in range(ctx.scale(150, 1500)):
                segs = []
                for _ in range(max_pre):
                    t = ctx.rng.randrange(n)
                    segs.append((t, ctx.rng.randrange(0, max(cnt) + 1)))
                go(segs)
        return len(seen)


def lib_b64(s):
    import base64
    return base64.urlsafe_b64decode(s + "=" * (-len(s) % 4))


def alg_fits(k, alg):
    return {"H": "oct", "R": "RSA", "P": "RSA"}.get(alg[0], "EC" if alg.startswith("ES") else "OKP") == k.key_type


# the schedule that the model's refuted lemma exhibits (coq/proofs/C20Proofs.v c20_lost_kid_schedule):
# thread 1 (as_dict) tests the empty slot, thread 0 (sign through the key set) runs until it has
# finished ensure_kid, thread 1 assigns its dict without kid, thread 0 reads the kid.
def refuting_policy():
    state = {"phase": 0}

    def policy(pos, trace):
        ph = state["phase"]
        if ph == 0:           # thread 1 up to (not including) its assignment / update
            if pos[1] is not None and pos[1] not in ("dv.assign", "dv.update"):
                return 1
            state["phase"] = 1
        if state["phase"] == 1:    # thread 0 until it stands at the assert
            if pos[0] is not None and pos[0] != "gk.assert":
                return 0
            state["phase"] = 2
        if state["phase"] == 2:    # thread 1 to completion
            if pos[1] is not None:
                return 1
            state["phase"] = 3
        for i, p in enumerate(pos):
            if p is not None:
                return i
    return policy


def detect_variant(runner):
    src = inspect.getsource(_unwrap(__import__("joserfc.rfc7517.models", fromlist=["BaseKey"]).BaseKey.dict_value))
    return "fixed" if "self._dict_value.update(data)" in src and "self._dict_value = data" not in src else "orig"


def env_snapshot(env):
    """every object the harness created and shares between the calls of a history: keys (everything but the two lazy
    slots), key sets (which keys, in which order), registries (allow-list, header table, flags)"""
    snap = {}
    for i, k in enumerate(env.keys):
        snap["key[%d]" % i] = {a: deep_fingerprint(v) for a, v in vars(k).items() if a not in ("_dict_value", "public_key")}
        snap["key[%d]" % i]["<dict minus kid>"] = deep_fingerprint({a: v for a, v in k._dict_value.items() if a != "kid"}) if k._dict_value else None
    for i, ks in enumerate(env.sets):
        snap["keyset[%d]" % i] = dict({a: deep_fingerprint(v) for a, v in vars(ks).items() if a != "keys"}, keys=tuple(id(x) for x in ks.keys))
    for i, r in enumerate(env.regs):
        snap["registry[%d]" % i] = {a: deep_fingerprint(v) for a, v in vars(r).items()}
    return snap


def env_diff(a, b):
    out = []
    for name in a:
        for attr in set(a[name]) | set(b[name]):
            x, y = a[name].get(attr, "<absent>"), b[name].get(attr, "<absent>")
            if x != y and not (attr == "<dict minus kid>" and x is None):      # the lazy fill of _dict_value is the documented footprint
                out.append((name, attr))
    return out


def sequential_histories(runner, ctx, variant):
    """random call histories on ONE set of shared objects; every call compared with the same call on
    fresh objects; frozen-state snapshot of all singletons / tables / classes around every call"""
    O = runner.O
    K, S = lambda i: ("k", i), lambda i: ("s", i)
    objs = snapshot_objects()
    from joserfc import jws, jwe, jwt
    from joserfc.jwk import KeySet
    base = take_snapshot(objs)
    nh = ctx.scale(12, 150)
    dist = {}
    for h in range(nh):
        wname = ctx.rng.choice(["mixed-set", "oct-lazyset", "ec-lazyset", "params", "jwk", "two-oct-lazy", "rsa" if h % 6 == 0 else "oct-set"])
        world = runner.worlds[wname]
        nk, ns = len(world["keys"]), len(world["sets"])
        ops = []
        for _ in range(ctx.rng.randrange(3, 9)):
            k = ctx.rng.randrange(nk)
            kty = runner.kimm(world["keynames"][k])["kty"]
            alg = {"oct": "HS256", "EC": "ES256", "RSA": "RS256", "OKP": "EdDSA"}[kty]
            c = ctx.rng.randrange(13)
            if c == 12 and ns:
                ops.append(O["set_as_dict"](0, ctx.rng.choice([None, False, True])))
            elif c == 0:
                ops.append(O["as_dict"](k, ctx.rng.choice([None, True, False])))
            elif c == 1:
                ops.append(O["thumb"](k))
            elif c == 2:
                ops.append(O["ensure"](k))
            elif c == 3:
                ops.append(O["kid"](k))
            elif c == 4:
                ops.append(O["newset"](sorted(ctx.rng.sample(range(nk), ctx.rng.randrange(1, nk + 1)))))
            elif c == 5 and ns:
                ops.append(O["get_by_kid"](0, ctx.rng.choice([None, "k2", "nope", runner.kimm(world["keynames"][k])["tp"]])))
            elif c == 6 and ns:
                ops.append(O["pick"](0, ctx.rng.choice(["HS256", "ES256", "RS256", "zzz"])))
            elif c in (7, 8):
                ref = S(0) if ns and ctx.rng.random() < 0.6 else K(k)
                a = alg if ref[0] == "k" else ctx.rng.choice(["HS256", "ES256"])
                if a == "HS256":
                    a = ctx.rng.choice(["HS256", "HS256", "HS384", "HS512"])      # not recommended unless allowed by the call
                ops.append(O["sign"](ref, a, allowed=ctx.rng.choice([None, [a], [a], ["HS512"], []]), reg=ctx.rng.choice([None, None, 0, 1, 2]),
                                     kidv=ctx.rng.choice([None, None, "k2", ""]) if ref[0] == "s" else None))
            elif c in (9, 10):
                tn = ctx.rng.choice(sorted(t for t in runner.tokens if not t.startswith(("kw-", "dir"))))
                ops.append(O["verify"](S(0) if ns and ctx.rng.random() < 0.5 else K(k), tn, allowed=ctx.rng.choice([None, [runner.tokens[tn][1]], ["HS384"], []]), reg=ctx.rng.choice([None, None, 0, 1, 2])))
            else:
                ops.append(O["as_dict"](k, False))
        env = Env(world)
        shim = Shim(runner._keys.random)
        runner._keys.random = shim
        results = []
        tps = runner.tps(world)
        try:
            for idx, op in enumerate(ops):
                before = take_snapshot(objs)
                ebefore = env_snapshot(env)
                try:
                    r = norm(("ok", op.fn(env)))
                except BaseException as e:   # noqa
                    r = norm(("err", e))
                after = take_snapshot(objs)
                ed = env_diff(ebefore, env_snapshot(env))
                if ed:
                    ctx.violation({"kind": "shared-object-written", "object": "caller " + ed[0][0].split("[")[0]},
                                  "the call %s changed a shared object of the caller: %r (history %r in world %s)" % (op.name, ed[:4], [o.name for o in ops[:idx + 1]], wname),
                                  {"kind": "history", "world": wname, "ops": [o.name for o in ops[:idx + 1]]})
                results.append(r)
                dist[op.name.split("(")[0]] = dist.get(op.name.split("(")[0], 0) + 1
                ctx.note_case(("seq", wname, h, idx, op.name))
                d = diff_snapshot(before, after)
                if d:
                    ctx.violation({"kind": "shared-object-written", "object": d[0][0].split(":")[0]},
                                  "the call %s changed shared state %r (history %r in world %s)" % (op.name, d, [o.name for o in ops[:idx + 1]], wname),
                                  {"kind": "history", "world": wname, "ops": [o.name for o in ops[:idx + 1]]})
                while env.tokens:
                    tok, talg, tpayload, tkid = env.tokens.pop()
                    fresh = Env(world)
                    good = False
                    for fk in fresh.keys:
                        try:
                            good = good or jws.deserialize_compact(tok, fk, algorithms=[talg]).payload == tpayload
                        except Exception:   # noqa
                            pass
                    if not good:
                        ctx.violation({"kind": "token-invalid-after-history", "op": "sign"},
                                      "the token produced by %s after the history %r is not accepted by any fresh key (world %s)" % (
                                          op.name, [o.name for o in ops[:idx]], wname),
                                      {"kind": "history", "world": wname, "ops": [o.name for o in ops[:idx + 1]]})
                iso, _ = runner.isolated(wname, op)
                if not runner.same(wname, op, r, iso):
                    ctx.violation({"kind": "outcome-differs-after-history", "op": op.name.split("(")[0]},
                                  "call %s gives %r after the history %r but %r on fresh objects (world %s)" % (
                                      op.name, r, [o.name for o in ops[:idx]], iso[0], wname),
                                  {"kind": "history", "world": wname, "ops": [o.name for o in ops[:idx + 1]]})
        finally:
            runner._keys.random = shim.real
        wid = runner.wid(wname)
        setup = ["CNewSet %s" % c_list(["%d%%nat" % i for i in m]) for m, lazy in world["sets"] if not lazy]
        setup_res = ["(Ok %s)" % c_pv([env.keys[i]._dict_value.get("kid") for i in m]) for m, lazy in world["sets"] if not lazy]
        runner.cases.append("CSeq %s im_%s pre_%s sets_%s regs_std %s %s %s %s %s" % (
            c_bool(variant == "fixed"), wid, wid, wid, c_list(["%d%%nat" % p for p in shim.picks]),
            c_list(setup + [coq_of(op, r) for op, r in zip(ops, results)]), c_list(setup_res + [c_result(r) for r in results]),
            c_list(["(%s, %s, %s)" % tuple(c_bool(x) for x in key_final(k)) for k in env.keys]), c_N(len(shim.picks))))
        runner.meta.append({"world": wname, "ops": [op.name for op in ops], "history": True})
    final = take_snapshot(objs)
    d = diff_snapshot(base, final)
    if d:
        ctx.violation({"kind": "shared-object-written", "object": d[0][0].split(":")[0]},
                      "shared state differs at the end of all histories: %r" % (d,), {"kind": "history-all"})
    return dist, len(objs)


def stress(runner, ctx):
    """32 real threads under forced fine-grained switching: supporting evidence only"""
    old = sys.getswitchinterval()
    sys.setswitchinterval(1e-6)
    O = runner.O
    bad = []
    try:
        for rnd in range(40):
            wname = "oct-lazyset" if rnd % 2 == 0 else "ec-lazyset"
            env = Env(runner.worlds[wname])
            alg = "HS256" if rnd % 2 == 0 else "ES256"
            ops = [O["sign"](("s", 0), alg), O["as_dict"](0, False), O["as_dict"](0), O["ensure"](0), O["kid"](0), O["newset"]([0])]
            barrier = threading.Barrier(32)
            out = [None] * 32

            def work(i):
                op = ops[i % len(ops)]
                barrier.wait()
                try:
                    out[i] = ("ok", op.fn(env))
                except BaseException as e:   # noqa
                    out[i] = ("err", exn_class(e), op.name)
            ths = [threading.Thread(target=work, args=(i,)) for i in range(32)]
            [t.start() for t in ths]
            [t.join() for t in ths]
            bad += [o for o in out if o[0] == "err"]
            if env.keys[0].kid is None:
                bad.append(("kid-lost", wname))
    finally:
        sys.setswitchinterval(old)
    return bad



# ======================================================================================
# registry / algorithm-singleton part: calls described by JSON specs, executed in this
# process (after whatever history / under the scheduler) AND in a process forked from the
# pristine state (nothing but key generation has run there): order dependence and state
# left behind in class-level caches or singletons shows up as a verdict difference
# ======================================================================================
ALG_FILES_CORE = ("rfc7518/jwe_encs.py", "rfc7518/jwe_algs.py", "rfc7518/jws_algs.py", "rfc8037/jws_eddsa.py",
                  "drafts/jwe_chacha20.py", "drafts/jwe_ecdh_1pu.py", "rfc8812/__init__.py")
ALG_FILES_MORE = ("rfc7516/models.py", "rfc7516/message.py", "rfc7516/registry.py", "rfc7516/compact.py",
                  "rfc7515/model.py", "rfc7515/compact.py", "rfc7515/registry.py", "rfc7515/json.py",
                  "rfc7797/compact.py", "rfc7797/registry.py")


def make_registry(kind, r):
    if r is None:
        return None
    from joserfc.registry import HeaderParameter
    hr = {n: HeaderParameter("caller-registered header " + n, "str") for n in r.get("headers", [])} or None
    if kind == "jwe":
        from joserfc.jwe import JWERegistry
        return JWERegistry(header_registry=hr, algorithms=r.get("algorithms"),
                           verify_all_recipients=r.get("verify_all", True), strict_check_header=r.get("strict", True))
    if kind == "jws7797":
        from joserfc.rfc7797.registry import JWSRegistry as R7797
        return R7797(header_registry=hr, algorithms=r.get("algorithms"), strict_check_header=r.get("strict", True))
    from joserfc.jws import JWSRegistry
    return JWSRegistry(header_registry=hr, algorithms=r.get("algorithms"), strict_check_header=r.get("strict", True))


_mk_registry = make_registry


def verdict(f):
    try:
        return ["ok", f()]
    except BaseException as e:   # noqa
        return ["err", exn_class(e)]


# every value the library draws per call and that is visible in a token: content IV, encrypted key, key-wrap iv / tag
# (A*GCMKW), PBES2 salt, ephemeral public key.  Two calls -- sequential, concurrent, or in different processes forked from the
# same import -- must never produce the same value.
RAND_POOL = {}


def rand_values(token):
    vals = []

    def hdr(h, where):
        for f in ("iv", "tag", "p2s"):
            if isinstance(h.get(f), str) and h[f]:
                vals.append(("%s header %s" % (where, f), h[f]))
        if isinstance(h.get("epk"), dict):
            vals.append(("%s header epk" % where, json.dumps(h["epk"], sort_keys=True)))
    try:
        if isinstance(token, str):
            parts = token.split(".")
            if len(parts) != 5:
                return []
            hdr(json.loads(lib_b64(parts[0])), "protected")
            if parts[1]:
                vals.append(("encrypted_key", parts[1]))
            vals.append(("content iv", parts[2]))
        elif isinstance(token, dict) and "ciphertext" in token:
            if token.get("protected"):
                hdr(json.loads(lib_b64(token["protected"])), "protected")
            hdr(token.get("unprotected") or {}, "unprotected")
            vals.append(("content iv", token.get("iv")))
            for i, r in enumerate(token.get("recipients") or [token]):
                hdr(r.get("header") or {}, "recipient")
                if r.get("encrypted_key"):
                    vals.append(("encrypted_key", r["encrypted_key"]))
    except Exception:   # noqa
        return []
    return vals


def note_random(ctx, token, origin):
    """-> True when a per-call random value of this token was already produced by another call"""
    dup = False
    for name, v in rand_values(token):
        k = (name, v)
        if k in RAND_POOL and RAND_POOL[k] != origin:
            dup = True
            ctx.violation({"kind": "randomness-reused", "value": name},
                          "two calls produced the same %s %r: %s and %s" % (name, v[:40], RAND_POOL[k], origin),
                          {"kind": "randomness", "first": RAND_POOL[k], "second": origin, "value": name})
        RAND_POOL.setdefault(k, origin)
    return dup


# attribute writes on the registry instances the harness shares: a call must not write them, not even temporarily
REG_WATCH = {"ids": {}, "writes": []}


def install_registry_trap():
    from joserfc.jws import JWSRegistry
    from joserfc.jwe import JWERegistry
    from joserfc.rfc7797.registry import JWSRegistry as R7797
    for cls in (JWSRegistry, JWERegistry, R7797):
        if getattr(cls.__setattr__, "_c20_trap", False):
            continue

        def trap(self, name, value, _cls=cls):
            who = REG_WATCH["ids"].get(id(self))
            if who is not None:
                REG_WATCH["writes"].append((who, name, getattr(_TLS, "tid", None)))
            object.__setattr__(self, name, value)
        trap._c20_trap = True
        cls.__setattr__ = trap


def watch_registries(named):
    install_registry_trap()
    REG_WATCH["ids"] = {id(r): n for n, r in named.items() if r is not None}
    REG_WATCH["writes"] = []


def take_registry_writes():
    w, REG_WATCH["writes"] = REG_WATCH["writes"], []
    return w


def build_shared():
    """the registry instances the harness creates ONCE and shares between all calls of a history / schedule set"""
    return {(kind, i): make_registry(kind, r) for kind, regs in REGS.items() for i, r in enumerate(regs)}


def exec_spec(spec, specs, shared=None):
    """run one call on FRESH key objects; -> {"v": verdict, "token": produced token or None}.
    spec["regi"] = index into REGS[kind]: the SHARED instance when `shared` is given (this process), a fresh
    equal one otherwise (pristine process); spec["algs"] is passed as algorithms= in addition to registry="""
    from joserfc import jws, jwe, jwt
    from joserfc.rfc7797 import compact as c7797
    op = spec["op"]
    if op == "batch":
        return {"v": ["ok", "batch"], "token": None, "results": [exec_spec(x, specs)["v"] for x in spec["specs"]]}
    key = specs[spec["key"]][0]()
    out = {"v": None, "token": None}

    def make_registry(kind, r, _mk=_mk_registry):      # shadows the module function inside this call only
        if "regi" in spec:
            i = spec["regi"]
            return shared[(kind, i)] if shared is not None else _mk(kind, REGS[kind][i])
        return _mk(kind, r)
    akw = {} if spec.get("algs") is None else {"algorithms": spec["algs"]}
    if op == "jwt_encode":
        kind = spec["rkind"]
        reg = make_registry(kind, spec.get("reg"))
        hdr = dict({"alg": spec["alg"]}, **({"enc": spec["enc"]} if kind == "jwe" else {}))
        r = verdict(lambda: jwt.encode(hdr, {"sub": spec["pt"]}, key, registry=reg, **akw))
        if r[0] == "ok":
            out["token"] = r[1]
            r = ["ok", "token"]
        out["v"] = r
        return out
    if op == "jwt_decode":
        reg = make_registry(spec["rkind"], spec.get("reg"))
        out["v"] = verdict(lambda: jwt.decode(spec["token"], key, registry=reg, **akw).claims.get("sub"))
        return out
    if op == "jwe_enc":
        hdr = dict({"alg": spec["alg"], "enc": spec["enc"]}, **spec.get("extra", {}))
        reg = make_registry("jwe", spec.get("reg"))
        skw = {"sender_key": specs[spec["sender"]][0]()} if spec.get("sender") else {}
        r = verdict(lambda: jwe.encrypt_compact(hdr, spec["pt"].encode(), key, registry=reg, **akw, **skw))
        if r[0] == "ok":
            out["token"] = r[1]
            r = ["ok", "token"]
        out["v"] = r
    elif op == "jwe_dec":
        reg = make_registry("jwe", spec.get("reg"))
        skw = {"sender_key": specs[spec["sender"]][0]()} if spec.get("sender") else {}
        out["v"] = verdict(lambda: jwe.decrypt_compact(spec["token"], key, registry=reg, **akw, **skw).plaintext.decode("latin1"))
    elif op == "jwe_enc_json":
        from joserfc.jwe import GeneralJSONEncryption
        reg = make_registry("jwe", spec.get("reg"))
        key2 = specs[spec["key2"]][0]()

        def f():
            obj = GeneralJSONEncryption(dict({"enc": spec["enc"]}, **spec.get("extra", {})), spec["pt"].encode())
            obj.add_recipient({"alg": spec["alg"]}, key)
            obj.add_recipient({"alg": spec["alg2"]}, key2)
            return jwe.encrypt_json(obj, None, registry=reg, **akw)
        r = verdict(f)
        if r[0] == "ok":
            out["token"] = r[1]
            r = ["ok", "token"]
        out["v"] = r
    elif op == "jwe_dec_json":
        reg = make_registry("jwe", spec.get("reg"))
        out["v"] = verdict(lambda: jwe.decrypt_json(spec["token"], key, registry=reg, **akw).plaintext.decode("latin1"))
    elif op == "jws_sign":
        hdr = dict({"alg": spec["alg"]}, **spec.get("extra", {}))
        if spec.get("b64") is not None:
            hdr.update({"b64": spec["b64"], "crit": ["b64"]})
            reg = make_registry("jws7797", spec.get("reg"))
            r = verdict(lambda: c7797.serialize_compact(hdr, spec["pt"].encode(), key, registry=reg, **akw))
        else:
            reg = make_registry("jws", spec.get("reg"))
            r = verdict(lambda: jws.serialize_compact(hdr, spec["pt"].encode(), key, registry=reg, **akw))
        if r[0] == "ok":
            out["token"] = r[1]
            r = ["ok", "token"]
        out["v"] = r
    elif op == "jws_verify":
        if spec.get("b64") is not None:
            reg = make_registry("jws7797", spec.get("reg"))
            out["v"] = verdict(lambda: c7797.deserialize_compact(spec["token"], key, registry=reg, **akw).payload.decode("latin1"))
        else:
            reg = make_registry("jws", spec.get("reg"))
            out["v"] = verdict(lambda: jws.deserialize_compact(spec["token"], key, registry=reg, **akw).payload.decode("latin1"))
    else:
        raise RuntimeError("unknown spec op %r" % op)
    return out


def open_spec(spec, token):
    """the spec that must accept a token produced by `spec` (permissive registry: same header names, the algs allowed)"""
    reg = {"headers": ["custom", "other"], "strict": False, "algorithms": [a for a in (spec.get("alg"), spec.get("alg2"), spec.get("enc")) if a]}
    peer = {"rsapub": "rsa", "ec0pub": "ec0", "ec1pub": "ec1"}.get(spec["key"], spec["key"])
    if spec["op"] == "jwt_encode":
        return {"op": "jwt_decode", "key": peer, "token": token, "reg": reg, "rkind": spec["rkind"]}
    if spec["op"] == "jwe_enc":
        return dict({"op": "jwe_dec", "key": peer, "token": token, "reg": reg}, **({"sender": spec["sender"]} if spec.get("sender") else {}))
    if spec["op"] == "jwe_enc_json":
        return {"op": "jwe_dec_json", "key": peer, "token": token, "reg": dict(reg, verify_all=False)}
    return {"op": "jws_verify", "key": peer, "token": token, "reg": reg, "b64": spec.get("b64")}


class Pristine:
    """a process forked before any joserfc call other than key generation; every request is served by a
    further fork of it, so each call sees first-in-process state"""

    def __init__(self, handler):
        r1, w1 = os.pipe()
        r2, w2 = os.pipe()
        sys.stdout.flush()
        pid = os.fork()
        if pid == 0:
            try:
                os.close(w1)
                os.close(r2)
                fin, fout = os.fdopen(r1, "rb"), os.fdopen(w2, "wb")
                while True:
                    line = fin.readline()
                    if not line:
                        break
                    rr, ww = os.pipe()
                    c = os.fork()
                    if c == 0:
                        try:
                            os.close(rr)
                            try:
                                out = handler(json.loads(line))
                            except BaseException as e:   # noqa
                                out = {"harness_error": repr(e)}
                            data = json.dumps(out).encode()
                            while data:
                                n = os.write(ww, data)
                                data = data[n:]
                        finally:
                            os._exit(0)
                    os.close(ww)
                    data = b""
                    while True:
                        chunk = os.read(rr, 65536)
                        if not chunk:
                            break
                        data += chunk
                    os.close(rr)
                    os.waitpid(c, 0)
                    fout.write(data + b"\n")
                    fout.flush()
            finally:
                os._exit(0)
        os.close(r1)
        os.close(w2)
        self.pid, self.fout, self.fin = pid, os.fdopen(w1, "wb"), os.fdopen(r2, "rb")
        self.cache = {}

    def call(self, spec):
        k = json.dumps(spec, sort_keys=True)
        if k not in self.cache or spec["op"] in ("jwe_enc", "jwe_enc_json", "jws_sign", "jwt_encode", "batch"):
            self.fout.write(k.encode() + b"\n")
            self.fout.flush()
            out = json.loads(self.fin.readline())
            if "harness_error" in out:
                raise RuntimeError("pristine process: " + out["harness_error"])
            self.cache[k] = out
        return self.cache[k]

    def close(self):
        try:
            self.fout.close()
            os.waitpid(self.pid, 0)
        except Exception:   # noqa
            pass


def deep_fingerprint(v, depth=0):
    """contents, not identity (identity only for opaque leaf objects)"""
    if isinstance(v, (str, bytes, int, float, bool, type(None))):
        return v
    if depth > 4:
        return ("deep", type(v).__name__)
    if isinstance(v, dict):
        return ("dict", tuple((repr(k), deep_fingerprint(x, depth + 1)) for k, x in v.items()))
    if isinstance(v, (list, tuple)):
        return (type(v).__name__, tuple(deep_fingerprint(x, depth + 1) for x in v))
    if isinstance(v, (set, frozenset)):
        return ("set", tuple(sorted(repr(x) for x in v)))
    if isinstance(v, type) or callable(v) or inspect.ismodule(v):
        return ("ref", getattr(v, "__qualname__", getattr(v, "__name__", type(v).__name__)))
    d = getattr(v, "__dict__", None)
    if isinstance(d, dict) and type(v).__module__.startswith("joserfc"):
        return ("inst", type(v).__name__, tuple((k, deep_fingerprint(x, depth + 1)) for k, x in d.items()))
    return ("opaque", type(v).__name__, id(v))


def deep_objects():
    """vars() of every joserfc class (registries, message / model / key / algorithm classes), of every algorithm
    instance and registry instance reachable from module globals, and every container global of joserfc.*"""
    objs = {}
    for mname, mod in sorted(sys.modules.items()):
        if not (mname == "joserfc" or mname.startswith("joserfc.")) or mod is None:
            continue
        for gname, g in list(vars(mod).items()):
            if gname.startswith("__"):
                continue
            if isinstance(g, type):
                if g.__module__.startswith("joserfc"):
                    objs["class %s.%s" % (g.__module__, g.__qualname__)] = g
            elif isinstance(g, (dict, list, set)):
                objs["global %s.%s" % (mname, gname)] = {"<value>": g}
                for i, x in enumerate(g.values() if isinstance(g, dict) else g):
                    if hasattr(x, "__dict__") and type(x).__module__.startswith("joserfc"):
                        objs["instance %s.%s[%d] %s" % (mname, gname, i, getattr(x, "name", ""))] = x
            elif hasattr(g, "__dict__") and type(g).__module__.startswith("joserfc") and not callable(g):
                objs["instance %s.%s" % (mname, gname)] = g
    return objs


def deep_snapshot(objs):
    snap = {}
    for name, o in objs.items():
        d = o if isinstance(o, dict) else vars(o)
        snap[name] = {k: deep_fingerprint(v) for k, v in d.items()
                      if not (k.startswith("__") and k.endswith("__")) and k not in ("_abc_impl", "_is_protocol")}
    return snap


REGS_JWE = [None, {"headers": ["custom"]}, {"headers": ["custom"], "strict": False}, {"headers": ["other"], "verify_all": False},
            {"algorithms": ["A128GCMKW", "PBES2-HS256+A128KW", "ECDH-ES", "ECDH-ES+A128KW", "dir", "A128KW", "RSA-OAEP", "A256GCMKW", "ECDH-1PU", "ECDH-1PU+A128KW",
                            "A128CBC-HS256", "A128GCM", "A256GCM", "C20P"]},
            {"headers": ["custom"], "algorithms": ["A128GCMKW", "PBES2-HS256+A128KW", "ECDH-ES", "ECDH-ES+A128KW", "dir", "A128KW", "A256GCMKW", "ECDH-1PU", "ECDH-1PU+A128KW",
                                                   "A128CBC-HS256", "A128GCM", "C20P"]},
            {"strict": False, "verify_all": False}]
REGS_JWS = [None, {"headers": ["custom"]}, {"headers": ["custom"], "strict": False}, {"algorithms": ["HS256", "HS384", "ES256", "EdDSA", "RS256", "PS256"]},
            {"headers": ["other"], "algorithms": ["HS256", "ES256"]}]
REGS = {"jwe": REGS_JWE, "jws": REGS_JWS, "jws7797": REGS_JWS}
ALGS_SHAPES = [None, None, "own", "own", ["HS384"], [], "own+", ("A256GCM", "HS512")]      # shapes of the algorithms= argument


def algs_arg(rng, spec):
    sh = rng.choice(ALGS_SHAPES)
    own = [a for a in (spec.get("alg"), spec.get("alg2"), spec.get("enc")) if a]
    if sh == "own":
        return own
    if sh == "own+":
        return own + ["HS384", "A192KW"]
    return list(sh) if sh is not None else None


JWE_ALGS = [("A256GCMKW", "oct0"), ("ECDH-1PU", "ec0pub"), ("ECDH-1PU+A128KW", "ec0pub"), ("A128GCMKW", "oct16_0"), ("PBES2-HS256+A128KW", "oct0"), ("ECDH-ES", "ec0pub"), ("ECDH-ES+A128KW", "ec0pub"),
            ("dir", None), ("A128KW", "oct16_0"), ("RSA-OAEP", "rsapub")]
JWE_ENCS = ["A128CBC-HS256", "A128GCM", "A256GCM", "C20P"]
DIR_KEYS = {"A128CBC-HS256": ["oct0", "oct1"], "A128GCM": ["oct16_0", "oct16_1"], "A256GCM": ["oct0", "oct1"], "C20P": ["oct0", "oct1"]}
JWS_ALGS = [("HS256", "oct0"), ("HS384", "oct1"), ("ES256", "ec0"), ("EdDSA", "okp"), ("RS256", "rsa"), ("PS256", "rsa")]


def registry_histories(ctx, specs, pristine):
    """ONE long history of JWE / JWS / JWT calls through registry instances that the harness creates ONCE and shares
    (registry= alone, algorithms= alone, both, neither; algorithms lists of every shape); deep snapshot of every shared
    joserfc object AND of every shared caller registry around EVERY call; every verdict compared with the same call
    in the pristine process (which builds an equal, fresh registry)"""
    rng = ctx.rng
    shared = build_shared()
    objs = deep_objects()
    for (kind, i), r in shared.items():
        if r is not None:
            objs["caller-registry %s[%d]" % (kind, i)] = r
    before = deep_snapshot(objs)
    watch_registries({"caller-registry %s[%d]" % k: r for k, r in shared.items()})
    pool = []          # (spec that opens it)
    dist = {}
    hist = []
    n = ctx.scale(200, 1800)
    planned = []

    def fix_spec(spec):
        if str(spec.get("alg", "")).startswith("ECDH-1PU"):
            spec["sender"] = "ec1"
            if "+" in spec["alg"]:
                spec["enc"] = "A128CBC-HS256"
        return spec
    # N calls, N distinct values: every alg family three times in a row with the same arguments on the same shared registry
    for alg, kname in JWE_ALGS:
        for rep in range(3):
            enc = "A128GCM"
            planned.append(fix_spec({"op": "jwe_enc", "alg": alg, "enc": enc, "key": kname or DIR_KEYS[enc][0], "pt": "same", "regi": 4}))
    for i, (alg, kname) in enumerate(JWE_ALGS):
        enc = JWE_ENCS[i % len(JWE_ENCS)]
        k = kname or DIR_KEYS[enc][0]
        for ri in ([4, 5] if i % 2 == 0 else [5, 4]):
            planned.append(fix_spec({"op": "jwe_enc", "alg": alg, "enc": enc, "key": k, "pt": "planned", "regi": ri, "extra": {"custom": "v"}}))
    # every entry point once with BOTH registry= and algorithms= on a shared registry, then with registry= alone
    for op, kind, ri, a1, a2, k in [("jws_sign", "jws", 1, "HS384", "HS256", "oct0"), ("jwt_encode", "jws", 2, "HS384", "HS256", "oct0"),
                                     ("jwe_enc", "jwe", 1, "A128GCMKW", "A128KW", "oct16_0"), ("jwt_encode", "jwe", 3, "A128GCMKW", "A128KW", "oct16_0")]:
        for alg, algs in ((a1, [a1, "A128GCM"]), (a2, None), (a1, None)):
            sp = {"op": op, "alg": alg, "key": k, "pt": "both", "regi": ri, "algs": algs, "rkind": kind}
            if kind == "jwe":
                sp["enc"] = "A128GCM"
            planned.append(sp)

    def rand_reg(spec, kind):
        spec.pop("reg", None)
        spec["regi"] = rng.randrange(len(REGS[kind]))
        spec["algs"] = algs_arg(rng, spec)
        return spec
    for step in range(n):
        if planned:
            spec = planned.pop(0)
        else:
            c = rng.randrange(12)
            if c < 4 or not pool:
                alg, kname = rng.choice(JWE_ALGS)
                enc = rng.choice(JWE_ENCS)
                if alg == "RSA-OAEP" and rng.random() < 0.7:
                    alg, kname = "A128KW", "oct16_0"
                spec = fix_spec(rand_reg({"op": "jwe_enc", "alg": alg, "enc": enc, "key": kname or rng.choice(DIR_KEYS[enc]), "pt": "msg%d" % step,
                                          "extra": rng.choice([{}, {"custom": "v"}, {"custom": "v"}, {"other": "w"}])}, "jwe"))
            elif c == 4:
                enc = rng.choice(JWE_ENCS)
                spec = rand_reg({"op": "jwe_enc_json", "alg": "A128KW", "key": "oct16_0", "alg2": "ECDH-ES+A128KW", "key2": "ec0pub", "enc": enc,
                                 "pt": "json%d" % step, "extra": rng.choice([{}, {"other": "w"}])}, "jwe")
            elif c < 7:
                alg, kname = rng.choice(JWS_ALGS)
                if alg in ("RS256", "PS256") and rng.random() < 0.7:
                    alg, kname = "HS256", "oct0"
                b64 = rng.choice([None, None, None, False, True])
                spec = rand_reg({"op": "jws_sign", "alg": alg, "key": kname, "pt": "pay%d" % step,
                                 "extra": rng.choice([{}, {"custom": "v"}, {"other": "w"}]), "b64": b64}, "jws" if b64 is None else "jws7797")
            elif c == 7:
                kind = rng.choice(["jws", "jws", "jwe"])
                alg, kname = rng.choice([("HS256", "oct0"), ("HS384", "oct1"), ("ES256", "ec0")]) if kind == "jws" else rng.choice([("A128KW", "oct16_0"), ("dir", "oct16_0")])
                spec = rand_reg(dict({"op": "jwt_encode", "alg": alg, "key": kname, "pt": "sub%d" % step, "rkind": kind},
                                     **({"enc": "A128GCM"} if kind == "jwe" else {})), kind)
            else:
                spec = dict(rng.choice(pool))
                kind = spec.get("rkind") or ("jwe" if spec["op"].startswith("jwe") else ("jws" if spec.get("b64") is None else "jws7797"))
                rand_reg(spec, kind)
                if spec["algs"] is not None and rng.random() < 0.5:
                    spec["algs"] = list(spec.get("palgs", spec["algs"]))
                if rng.random() < 0.15:      # a valid token with the wrong key of the same kind
                    spec["key"] = {"oct0": "oct1", "oct1": "oct0", "oct16_0": "oct16_1", "oct16_1": "oct16_0", "ec0": "ec1", "okp": "okp2",
                                   "rsa": "rsa2"}.get(spec["key"], spec["key"])
        out = exec_spec(spec, specs, shared)
        after = deep_snapshot(objs)
        hist.append(spec)
        wr = take_registry_writes()
        if wr:
            ctx.violation({"kind": "shared-object-written", "object": "caller-registry attribute (during the call)", "attr": wr[0][1]},
                          "the call %s wrote attribute(s) %r of a registry instance the caller shares (even if restored afterwards)" % (
                              json.dumps({k: v for k, v in spec.items() if k != "token"}), sorted({(w0, a) for w0, a, _ in wr})),
                          {"kind": "reg-history", "calls": hist[-12:]})
        if out["token"] is not None:
            note_random(ctx, out["token"], "call %d of the registry history (%s %s key %s)" % (step, spec["op"], spec.get("alg"), spec["key"]))
        ctx.note_case(("reg-history", step, json.dumps(spec, sort_keys=True)[:200]))
        dist[spec["op"] + ":" + str(spec.get("alg", ""))] = dist.get(spec["op"] + ":" + str(spec.get("alg", "")), 0) + 1
        d = diff_snapshot(before, after)
        if d:
            ctx.violation({"kind": "shared-object-written", "object": d[0][0].split(" ")[0] + " " + d[0][0].split(".")[-1].split("[")[0]},
                          "the call %s changed shared state %r (call %d of the registry history)" % (json.dumps({k: v for k, v in spec.items() if k != "token"}), d[:3], step),
                          {"kind": "reg-history", "calls": hist[-12:]})
            before = after
        fresh = pristine.call(spec)
        if out["v"] != fresh["v"]:
            ctx.violation({"kind": "verdict-depends-on-history", "op": spec["op"], "here": out["v"][1] if out["v"][0] == "err" else "ok",
                           "first_in_process": fresh["v"][1] if fresh["v"][0] == "err" else "ok"},
                          "call %s gives %r after %d earlier calls on the shared registries but %r as the first call of a process" % (
                              json.dumps({k: v for k, v in spec.items() if k != "token"}), out["v"], step, fresh["v"]),
                          {"kind": "reg-history", "calls": hist[-12:]})
        if out["token"] is not None:
            o = open_spec(spec, out["token"])
            ok1 = pristine.call(o)["v"]
            ok2 = exec_spec(o, specs)["v"]
            if ok1 != ["ok", spec["pt"]] or ok2 != ["ok", spec["pt"]]:
                ctx.violation({"kind": "token-invalid-after-history", "op": spec["op"]},
                              "the token produced by %s (call %d) is opened as %r by a pristine process and as %r here" % (
                                  json.dumps(spec), step, ok1, ok2), {"kind": "reg-history", "calls": hist[-12:]})
            elif len(pool) < 80:
                o["palgs"] = [a for a in (spec.get("alg"), spec.get("alg2"), spec.get("enc")) if a]
                pool.append(o)
    return dist, len(objs)


def shared_registry_schedules(ctx, specs, pristine):
    """call A with BOTH registry=R and algorithms= || call B with registry=R only, R one shared object: for every
    single-preemption schedule (every line of jws.py / jwe.py / jwt.py / the registry modules) both verdicts must be
    the first-in-process ones; afterwards B, A, B run sequentially again; R is deep-compared"""
    files = ("jws.py", "jwe.py", "jwt.py", "rfc7515/registry.py", "rfc7516/registry.py", "rfc7797/registry.py", "rfc7797/compact.py",
             "rfc7515/compact.py", "rfc7516/compact.py", "registry.py")
    sched = Sched(FileStops(files), timeout=30.0)
    shared = build_shared()
    objs = {"caller-registry %s[%d]" % k: r for k, r in shared.items() if r is not None}
    base = deep_snapshot(objs)
    watch_registries(objs)
    P = []
    # decrypt_compact || decrypt_json (two recipients, the caller holds one key) and decrypt_compact || decrypt_compact on ONE
    # JWERegistry(verify_all_recipients=False)
    perm = {"algorithms": ["A128KW", "ECDH-ES+A128KW", "A128GCM"]}
    tj = pristine.call({"op": "jwe_enc_json", "alg": "A128KW", "key": "oct16_0", "alg2": "ECDH-ES+A128KW", "key2": "ec0pub", "enc": "A128GCM", "pt": "J", "reg": perm})
    tc = [pristine.call({"op": "jwe_enc", "alg": "A128KW", "enc": "A128GCM", "key": "oct16_0", "pt": "C%d" % i, "reg": perm}) for i in range(2)]
    if tj["token"] is None or any(t["token"] is None for t in tc):
        raise RuntimeError("shared-registry decrypt pair: producers fail in the pristine process")
    for ri in (6, 3):
        DJ = {"op": "jwe_dec_json", "key": "oct16_0", "token": tj["token"], "regi": ri}
        DC = [{"op": "jwe_dec", "key": "oct16_0", "token": t["token"], "regi": ri} for t in tc]
        P.append(("jwe_dec||jwe_dec_json/verify_all=False[%d]" % ri, DC[0], DJ))
        if ri == 6 or not ctx.quick:
            P.append(("jwe_dec||jwe_dec/verify_all=False[%d]" % ri, DC[0], DC[1]))
            P.append(("after: jwe_dec_json||jwe_dec_json/verify_all=False[%d]" % ri, DJ, DJ))
    for op, kind, ri, a1, a2, k, extra in [
            ("jws_sign", "jws", 1, "HS384", "HS256", "oct0", {}), ("jws_sign", "jws7797", 1, "HS384", "HS256", "oct0", {"b64": True}),
            ("jwt_encode", "jws", 2, "HS384", "HS256", "oct0", {"rkind": "jws"}),
            ("jwe_enc", "jwe", 1, "A128GCMKW", "A128KW", "oct16_0", {"enc": "A128GCM"}),
            ("jwt_encode", "jwe", 3, "A128GCMKW", "A128KW", "oct16_0", {"enc": "A128GCM", "rkind": "jwe"})]:
        A = dict({"op": op, "alg": a1, "key": k, "pt": "A", "regi": ri, "algs": [a1, "A128GCM"]}, **extra)
        B = dict({"op": op, "alg": a2, "key": k, "pt": "B", "regi": ri}, **extra)
        P.append((op + "/" + kind, A, B))
        # the consumers of the same entry point family: tokens made by a permissive pristine process
        ta = pristine.call(dict(A, **{"regi": None, "reg": {"algorithms": [a1, a2, "A128GCM"]}}) if False else
                           {k2: v for k2, v in dict(A, reg={"algorithms": [a1, a2, "A128GCM"]}, algs=None).items() if k2 != "regi"})
        tb = pristine.call({k2: v for k2, v in dict(B, reg={"algorithms": [a1, a2, "A128GCM"]}).items() if k2 != "regi"})
        if ta["token"] is None or tb["token"] is None:
            raise RuntimeError("shared-registry pair %s: producer fails in the pristine process: %r %r" % (op, ta["v"], tb["v"]))
        cop = {"jws_sign": "jws_verify", "jwt_encode": "jwt_decode", "jwe_enc": "jwe_dec"}[op]
        CA = dict({"op": cop, "key": k, "token": ta["token"], "regi": ri, "algs": [a1, "A128GCM"]}, **extra)
        CB = dict({"op": cop, "key": k, "token": tb["token"], "regi": ri}, **extra)
        P.append((cop + "/" + kind, CA, CB))
    stats, nrun = {}, 0
    for name, A, B in P:
        want = [pristine.call(A)["v"], pristine.call(B)["v"]]
        pending = []

        def judge(res, trace, what):
            for i, (spec, r) in enumerate(zip((A, B), res)):
                out = r[1] if r[0] == "ok" else {"v": ["err", exn_class(r[1])], "token": None}
                if out["v"] != want[i]:
                    ctx.violation({"kind": "shared-registry-" + ("race" if what == "interleaved" else "poisoned"), "entry": name},
                                  "%s: call %s (%s, algorithms=%r, registry=shared[%d]) %s gives %r but %r as the first call of a process (other call: algorithms=%r on the same registry)" % (
                                      name, "AB"[i], spec.get("alg") or "token", spec.get("algs"), spec["regi"], what, out["v"], want[i], (A, B)[1 - i].get("algs")),
                                  {"kind": "reg-schedule", "pair": name, "specs": [{k2: v for k2, v in x.items() if k2 != "token"} for x in (A, B)],
                                   "schedule": [t for t, _ in trace]})
                elif out["token"] is not None:
                    pending.append((open_spec(spec, out["token"]), spec))
                    note_random(ctx, out["token"], "%s call %s %s (%d tokens before)" % (name, "AB"[i], what, len(pending)))
            wr = take_registry_writes()
            if wr:
                ctx.violation({"kind": "shared-object-written", "object": "caller-registry attribute (during the call)", "attr": wr[0][1]},
                              "%s: a call wrote attribute(s) %r of the registry instance both calls share (even if restored afterwards)" % (
                                  name, sorted({(w0, a) for w0, a, _ in wr})),
                              {"kind": "reg-schedule", "pair": name, "schedule": [t for t, _ in trace]})
        th = lambda: [lambda: exec_spec(A, specs, shared), lambda: exec_spec(B, specs, shared)]
        res, trace = sched.run(th(), seg_policy([], False))
        nrun += 1
        judge(res, trace, "sequential")
        cnt = [sum(1 for t, _ in trace if t == i) for i in (0, 1)]
        seen = set()
        for first in (0, 1):
            for i in range(0, cnt[first] + 1):
                res, trace = sched.run(th(), core_policy(first, i, False))
                nrun += 1
                key = tuple(t for t, _ in trace)
                if key in seen:
                    continue
                seen.add(key)
                ctx.note_case(("reg-sched", name, key))
                judge(res, trace, "interleaved")
        for _ in range(ctx.scale(0, 80)):
            res, trace = sched.run(th(), multi_policy(ctx.rng, ctx.rng.choice([2, 3]), sum(cnt)))
            nrun += 1
            judge(res, trace, "interleaved")
        for spec, i in ((B, 1), (A, 0), (B, 1)):
            out = exec_spec(spec, specs, shared)
            r2 = [("ok", {"v": want[0], "token": None}), ("ok", {"v": want[1], "token": None})]
            r2[i] = ("ok", out)
            judge(r2, [], "after the concurrent phase, run sequentially again,")
        if pending:
            rs = pristine.call({"op": "batch", "specs": [x[0] for x in pending]})["results"]
            for (o, spec), v1 in zip(pending, rs):
                if v1 != ["ok", spec["pt"]]:
                    ctx.violation({"kind": "token-invalid-under-interleaving", "entry": name},
                                  "%s: a token produced while the registry was shared is opened as %r by a pristine process" % (name, v1),
                                  {"kind": "reg-schedule", "pair": name})
        d = diff_snapshot(base, deep_snapshot(objs))
        if d:
            ctx.violation({"kind": "shared-object-written", "object": "caller-registry"},
                          "after the calls of %s the caller's shared registry differs: %r" % (name, d[:3]), {"kind": "reg-schedule", "pair": name})
            base = deep_snapshot(objs)
        stats[name] = len(seen)
    return stats, nrun


class FileStops:
    """every line of the given source files is a stop (label file:line)"""

    class _Codes:
        def __init__(self, files):
            self.files = files

        def __contains__(self, code):
            return code.co_filename in self.files

    class _Map:
        def __init__(self, files):
            self.files = files

        def get(self, key):
            short = self.files.get(key[0])
            return None if short is None else "%s:%d" % (short, key[1])

    def __init__(self, rels):
        import joserfc
        root = os.path.dirname(joserfc.__file__)
        files = {os.path.join(root, r): r for r in rels}
        self.map, self.codes, self.unknown = self._Map(files), self._Codes(files), []


def core_policy(first, i, core_only):
    """thread `first` runs until it has made i steps (counted among stops in the algorithm modules only when
    core_only), then the other thread runs to completion, then `first` finishes: one preemption"""
    st = {"n": i, "done": False}

    def policy(pos, trace):
        other = 1 - first
        if not st["done"] and pos[first] is not None:
            is_core = (pos[first].split(":")[0] in ALG_FILES_CORE) if core_only else True
            if not is_core:
                return first
            if st["n"] > 0:
                st["n"] -= 1
                return first
            st["done"] = True
        if pos[other] is not None and (st["done"] or pos[first] is None):
            return other
        for t in (first, other):
            if pos[t] is not None:
                return t
    return policy


def multi_policy(rng, nsw, maxlen):
    """random schedule with nsw preemptions"""
    cuts = sorted(rng.randrange(0, maxlen + 1) for _ in range(nsw))
    st = {"k": 0, "cur": rng.randrange(2), "steps": 0}

    def policy(pos, trace):
        if st["k"] < len(cuts) and st["steps"] >= cuts[st["k"]]:
            st["k"] += 1
            st["cur"] = 1 - st["cur"]
        st["steps"] += 1
        t = st["cur"]
        if pos[t] is None:
            t = 1 - t
        return t
    return policy


def alg_pairs(ctx):
    """pairs of operations that go through the SAME algorithm singleton with DIFFERENT keys / CEKs"""
    P = []
    full = not ctx.quick
    for enc in ["A128CBC-HS256", "A128GCM", "C20P"] + (["A256GCM", "A256CBC-HS512"] if full else []):
        k1, k2 = ("oct0", "oct1") if enc in ("A128CBC-HS256", "A256GCM", "C20P") else ("oct16_0", "oct16_1")
        if enc == "A256CBC-HS512":
            continue
        algs = [("dir", k1, k2)] + ([("A128KW", "oct16_0", "oct16_1"), ("ECDH-ES", "ec0pub", "ec1pub")] if full or enc == "A128CBC-HS256" else [])
        if not full and enc == "A128GCM":
            algs.append(("A128KW", "oct16_0", "oct16_1"))
        if not full and enc == "C20P":
            algs.append(("ECDH-ES", "ec0pub", "ec1pub"))
        for alg, a, b in algs:
            e1 = {"op": "jwe_enc", "alg": alg, "enc": enc, "key": a, "pt": "first", "reg": {"algorithms": [alg, enc]}}
            e2 = {"op": "jwe_enc", "alg": alg, "enc": enc, "key": b, "pt": "second", "reg": {"algorithms": [alg, enc]}}
            P.append(("%s/%s" % (alg, enc), e1, e2))
    for alg, a, b in [("HS256", "oct0", "oct1"), ("RS256", "rsa", "rsa2"), ("ES256", "ec0", "ec1"), ("EdDSA", "okp", "okp2")] + \
                     ([("PS256", "rsa", "rsa2"), ("HS512", "oct0", "oct1")] if full else []):
        s1 = {"op": "jws_sign", "alg": alg, "key": a, "pt": "first", "reg": {"algorithms": [alg]}}
        s2 = {"op": "jws_sign", "alg": alg, "key": b, "pt": "second", "reg": {"algorithms": [alg]}}
        P.append((alg, s1, s2))
    return P


def singleton_schedules(ctx, specs, pristine, only=None):
    """producer||producer, producer||consumer, consumer||consumer for every pair, one preemption at every line of the
    algorithm modules (quick: lines of the message / registry modules sampled; thorough: all, plus 2-3 preemptions);
    afterwards the same operations once more sequentially (poisoned caches)"""
    sched = Sched(FileStops(ALG_FILES_CORE + ALG_FILES_MORE), timeout=30.0)
    objs = deep_objects()
    base = deep_snapshot(objs)
    stats = {}
    nrun = 0
    for name, p1, p2 in alg_pairs(ctx):
        if only is not None and name != only:
            continue
        toks = []
        for p in (p1, p2):
            out = pristine.call(p)
            if out["v"] != ["ok", "token"]:
                raise RuntimeError("pair %s: producer fails in the pristine process: %r" % (name, out["v"]))
            toks.append(out["token"])
        c1, c2 = open_spec(p1, toks[0]), open_spec(p2, toks[1])
        expect = {json.dumps(c1, sort_keys=True): ["ok", p1["pt"]], json.dumps(c2, sort_keys=True): ["ok", p2["pt"]]}
        for kind, (a, b) in (("prod||prod", (p1, p2)), ("prod||cons", (p1, c2)), ("cons||cons", (c1, c2))):
            pending = []

            def thunks():
                return [lambda: exec_spec(a, specs), lambda: exec_spec(b, specs)]

            def judge(res, trace, what):
                for i, (spec, r) in enumerate(zip((a, b), res)):
                    if r[0] != "ok":
                        v = ["err", exn_class(r[1])]
                        out = {"v": v, "token": None}
                    else:
                        out = r[1]
                    want = expect.get(json.dumps(spec, sort_keys=True), ["ok", "token"])
                    bad = out["v"] != want
                    how = "verdict %r instead of %r" % (out["v"], want)
                    if not bad and out["token"] is not None:
                        pending.append((open_spec(spec, out["token"]), spec, i, what, [t for t, _ in trace], [lab for t, lab in trace if t == i][-3:]))
                        if spec["op"].startswith("jwe"):
                            note_random(ctx, out["token"], "%s %s thread %d %s (#%d)" % (name, kind, i, what, len(pending)))
                    if bad:
                        ctx.violation({"kind": "singleton-race" if what == "interleaved" else "singleton-poisoned", "pair": name.split("/")[-1], "phase": kind},
                                      "%s: thread %d (%s %s with key %s) %s: %s (other thread: %s with key %s; last steps %r)" % (
                                          name, i, spec["op"], spec.get("alg") or "", spec["key"], what, how, (a, b)[1 - i]["op"], (a, b)[1 - i]["key"],
                                          [lab for t, lab in trace if t == i][-3:]),
                                      {"kind": "alg-schedule", "pair": name, "phase": kind, "specs": [a, b], "schedule": [t for t, _ in trace]})
            # the sequential run: step counts
            res, trace = sched.run(thunks(), seg_policy([], False))
            nrun += 1
            judge(res, trace, "sequential")
            cnt = [sum(1 for t, lab in trace if t == i) for i in (0, 1)]
            core = [sum(1 for t, lab in trace if t == i and lab.split(":")[0] in ALG_FILES_CORE) for i in (0, 1)]
            seen = set()
            for first in (0, 1):
                pts = [(i, True) for i in range(core[first] + 1)]
                stride = 4 if ctx.quick else 1
                off = ctx.rng.randrange(stride)
                pts += [(i, False) for i in range(off, cnt[first] + 1, stride)]
                for i, core_only in pts:
                    res, trace = sched.run(thunks(), core_policy(first, i, core_only))
                    nrun += 1
                    key = tuple(t for t, _ in trace)
                    if key in seen:
                        continue
                    seen.add(key)
                    ctx.note_case(("alg", name, kind, key))
                    judge(res, trace, "interleaved")
            for _ in range(ctx.scale(0, 60)):
                res, trace = sched.run(thunks(), multi_policy(ctx.rng, ctx.rng.choice([2, 3]), sum(cnt)))
                nrun += 1
                ctx.note_case(("alg", name, kind, tuple(t for t, _ in trace)))
                judge(res, trace, "interleaved")
            # poisoned caches: once more, sequentially, without the scheduler
            for spec in (a, b, b, a):
                out = exec_spec(spec, specs)
                judge([("ok", out)] if spec is a else [("ok", {"v": expect.get(json.dumps(a, sort_keys=True), ["ok", "token"]), "token": None}), ("ok", out)],
                      [], "after the concurrent phase, run sequentially again,")
            # every token produced in this phase must be opened by a pristine process (one fork for all of them)
            if pending:
                rs = pristine.call({"op": "batch", "specs": [x[0] for x in pending]})["results"]
                for (o, spec, i, what, schedule, last), v1 in zip(pending, rs):
                    if v1 != ["ok", spec["pt"]]:
                        ctx.violation({"kind": "singleton-race" if what == "interleaved" else "singleton-poisoned", "pair": name.split("/")[-1], "phase": kind},
                                      "%s: the token produced by thread %d (%s %s with key %s) %s is opened as %r by a pristine process (other thread: %s with key %s; last steps %r)" % (
                                          name, i, spec["op"], spec.get("alg") or "", spec["key"], what, v1, (a, b)[1 - i]["op"], (a, b)[1 - i]["key"], last),
                                      {"kind": "alg-schedule", "pair": name, "phase": kind, "specs": [a, b], "schedule": schedule})
            stats["%s %s" % (name, kind)] = len(seen)
        after = deep_snapshot(objs)
        d = diff_snapshot(base, after)
        if d:
            ctx.violation({"kind": "shared-object-written", "object": d[0][0].split(" ")[0] + " " + d[0][0].split(".")[-1].split("[")[0]},
                          "after the operations of pair %s the shared state differs: %r" % (name, d[:3]), {"kind": "alg-pair", "pair": name})
            base = after
    return stats, nrun

def run(ctx):
    ok, log = ctx.prove()
    import pkgutil, importlib, joserfc
    for m in pkgutil.walk_packages(joserfc.__path__, "joserfc."):
        importlib.import_module(m.name)       # import time: every module registers its algorithms now
    from joserfc.drafts.jwe_chacha20 import register_chaha20_poly1305
    from joserfc.drafts.jwe_ecdh_1pu import register_ecdh_1pu
    register_ecdh_1pu()
    RAND_POOL.clear()
    register_chaha20_poly1305()          # registration time: C20P / XC20P join the class tables before anything is snapshotted
    mat = KeyMaterial(ctx.rng)
    specs0 = key_specs(mat)
    pristine = Pristine(lambda spec: exec_spec(spec, specs0))
    try:
        return _run(ctx, ok, log, mat, pristine)
    finally:
        pristine.close()


def _run(ctx, ok, log, mat, pristine):
    runner = Runner(ctx, mat)
    variant = os.environ.get("C20_VARIANT") or detect_variant(runner)
    ctx.notes.append("step lists compared with the code: %s variant of rfc7517/models.py" % variant)
    if not runner.table_ok:
        ctx.notes.append("the line-label table no longer matches the source of the modelled functions: schedules are compared with the "
                         "model at the granularity of shared-state accesses (c20acc), not of source lines")
    if runner.stops.unknown:
        ctx.notes.append("lines of modelled functions that the model does not know: %r" % (runner.stops.unknown,))
    O = runner.O
    t0 = time.time()

    # (2a) the model's refuting schedule, replayed on the real code
    wname, ops = "oct-lazyset", [O["sign"](("s", 0), "HS256"), O["as_dict"](0)]
    iso = [runner.isolated(wname, op)[0] for op in ops]
    env, res, trace, picks = runner.run_schedule(wname, ops, refuting_policy())
    ctx.note_case(("refuting-schedule",))
    runner.judge(wname, ops, env, res, trace, iso, "model-refuting-schedule")
    if runner.table_ok:
        runner.emit(variant, wname, ops, env, res, trace, picks)
    runner.emit_acc(variant, wname, ops, env, res, trace, picks, runner.last_accesses)
    ctx.sample({"schedule": "lost-kid schedule of the model replayed on the code", "results": repr(res), "key_has_kid": env.keys[0].kid is not None})

    # (2b) all schedules with <= 2 preemptions of the operation pairs
    per_pair = {}
    K, S = lambda i: ("k", i), lambda i: ("s", i)
    more = [] if ctx.quick else [("ec", [O["thumb"](0), O["newset"]([0])]), ("okp", [O["thumb"](0), O["ensure"](0)]), ("ec-lazyset", [O["thumb"](0), O["sign"](S(0), "ES256")]),
                                 ("oct", [O["as_dict"](0, False), O["newset"]([0])]), ("ec", [O["kid"](0), O["ensure"](0)])]
    for wn, pops in pairs_quick(O) + more:
        n = runner.pair(variant, wn, pops, "pair", 2 if ctx.quick else 4, all_lines=not ctx.quick and len(per_pair) < 6)
        per_pair["%s: %s" % (wn, " || ".join(op.name for op in pops))] = n
    for wn, pops in jwe_pairs(O, runner.mat):
        n = runner.pair(variant, wn, pops, "jwe-pair", 2, all_lines=False)
        per_pair["%s: %s" % (wn, " || ".join(op.name for op in pops))] = n
    if not ctx.quick:
        K, S = lambda i: ("k", i), lambda i: ("s", i)
        for wn, pops in [("oct-lazyset", [O["sign"](S(0), "HS256"), O["as_dict"](0, False), O["newset"]([0])]),
                         ("ec-lazyset", [O["sign"](S(0), "ES256"), O["ensure"](0), O["verify"](K(0), "es-nokid")]),
                         ("two-oct-lazy", [O["sign"](S(0), "HS256"), O["sign"](S(0), "HS256"), O["as_dict"](1)])]:
            n = runner.pair(variant, wn, pops, "triple", 4, all_lines=False)
            per_pair["%s: %s" % (wn, " || ".join(op.name for op in pops))] = n
    t_sched = time.time() - t0

    # (1) sequential histories + frozen state
    dist, nobj = sequential_histories(runner, ctx, variant)
    # (1b) JWE / JWS calls through several registry instances: deep snapshots + first-in-process verdicts
    t1 = time.time()
    rdist, nobj2 = registry_histories(ctx, runner.specs, pristine)
    t_reg = time.time() - t1
    # (2c) one preemption at every line of the algorithm modules, same singleton, different keys
    t1 = time.time()
    astats, anrun = singleton_schedules(ctx, runner.specs, pristine)
    t_alg = time.time() - t1
    t1 = time.time()
    rstats, rnrun = shared_registry_schedules(ctx, runner.specs, pristine)
    ctx.coverage["shared_registry_schedules"] = {"distinct_per_pair": rstats, "executed": rnrun, "wall_s": round(time.time() - t1, 1)}
    ctx.coverage["registry_history"] = {"calls": rdist, "shared_objects_deep_compared": nobj2, "wall_s": round(t_reg, 1)}
    ctx.coverage["singleton_schedules"] = {"distinct_per_pair_phase": astats, "executed": anrun, "wall_s": round(t_alg, 1)}

    # (3) stress
    if not ctx.quick:
        bad = stress(runner, ctx)
        ctx.coverage["stress_32_threads_errors"] = bad[:5]
        if bad:
            ctx.violation({"kind": "stress-failure"}, "32 real threads sharing a lazily filled key: %r" % (bad[:3],),
                          {"kind": "stress", "no_failing_input_found": False})

    ctx.coverage["rule"] = ("schedules: every thread's outcome == its isolated outcome (thumbprint kid excepted), tokens verify on fresh keys, "
                            "no key loses its kid, randomness distinct; histories: same, plus vars() of %d shared objects unchanged by every call; "
                            "every executed schedule / history replayed in the Coq step model (labels, results, final key state)" % nobj)
    ctx.coverage["input_distribution"] = {"schedules_executed": runner.nsched, "schedules_distinct_per_pair": per_pair,
                                          "history_calls": dist, "scheduler_wall_s": round(t_sched, 1), "variant": variant}

    ev = lib.CoqEval(["From Model Require Import Base PyVal TableTypes C20Model C20Cases."], "c20case", "c20_check", "c20_show",
                     shard=60, max_chars=200000, preamble=runner.preamble())
    rs = ev.run(runner.cases, jobs=8)
    ctx.coverage["traces_validated_against_impl"] = rs["evaluated"]
    ctx.coverage["disagreements_checked"] = len(rs["failing"])
    direct = len(ctx.violations)
    for i in rs["failing"][:10]:
        m = runner.meta[i]
        ctx.violation({"kind": "correspondence", "ops": [o.split("(")[0] for o in m["ops"]]},
                      "step model (%s variant) and implementation disagree on %r in world %s, schedule %r" % (variant, m["ops"], m["world"], m.get("schedule", "sequential")),
                      {"case": runner.cases[i][:30000], "no_failing_input_found": direct == 0, "kind": "schedule" if "schedule" in m else "history",
                       "world": m["world"], "ops": m["ops"], "schedule": m.get("schedule"),
                       "broken": "correspondence model/C20Model.v vs rfc7517/models.py, jwk.py, _keys.py"})
    # access-level correspondence: alarm only when the access pattern corresponds and the outcome differs
    eva = lib.CoqEval(["From Model Require Import Base PyVal TableTypes C20Model C20Cases."], "c20acc", "c20acc_check", "c20acc_show",
                      shard=60, max_chars=200000, preamble=runner.preamble())
    ra = eva.run(runner.acc_cases, jobs=8)
    evp = lib.CoqEval(["From Model Require Import Base PyVal TableTypes C20Model C20Cases."], "c20acc", "c20acc_pattern", None,
                      shard=120, max_chars=400000, preamble=runner.preamble())
    # the pattern-only pass is needed when the access-level comparison stands alone; otherwise only in the thorough tier
    rp = evp.run(runner.acc_cases if (not runner.table_ok or not ctx.quick) else runner.acc_cases[:60], jobs=8)
    ctx.coverage["access_level"] = {"cases": ra["evaluated"], "outcome_disagreements": len(ra["failing"]),
                                    "access_pattern_not_the_models": len(rp["failing"]), "line_table_matches_source": runner.table_ok}
    ctx.coverage["traces_validated_against_impl"] += ra["evaluated"]
    ctx.coverage["disagreements_checked"] += len(ra["failing"])
    for i in ra["failing"][:10]:
        m = runner.acc_meta[i]
        ctx.violation({"kind": "correspondence", "level": "access", "ops": [o.split("(")[0] for o in m["ops"]]},
                      "step model (%s variant) and implementation make the same shared-state accesses but end differently on %r in world %s, schedule %r" % (
                          variant, m["ops"], m["world"], m["schedule"]),
                      {"case": runner.acc_cases[i][:30000], "no_failing_input_found": direct == 0, "kind": "schedule",
                       "world": m["world"], "ops": m["ops"], "schedule": m["schedule"],
                       "broken": "correspondence model/C20Cases.v:c20acc vs the shared-state accesses of rfc7517/models.py, jwk.py, _keys.py"})
    if runner.table_ok and rp["failing"]:
        m = runner.acc_meta[rp["failing"][0]]
        ctx.violation({"kind": "correspondence", "level": "access-pattern", "ops": [o.split("(")[0] for o in m["ops"]]},
                      "the line-label table matches the source but the shared-state accesses of the implementation are not the model's on %r in world %s (%d cases)" % (
                          m["ops"], m["world"], len(rp["failing"])),
                      {"case": runner.acc_cases[rp["failing"][0]][:30000], "no_failing_input_found": direct == 0, "kind": "schedule",
                       "world": m["world"], "ops": m["ops"], "schedule": m["schedule"], "broken": "access-level correspondence"})
    for si, err in ra["errors"] + rp["errors"]:
        ctx.violation({"kind": "correspondence-error"}, "coqc failed on a generated case file",
                      {"output": err, "no_failing_input_found": True, "broken": "case evaluation"})
    for si, err in rs["errors"]:
        ctx.violation({"kind": "correspondence-error"}, "coqc failed on a generated case file",
                      {"output": err, "no_failing_input_found": True, "broken": "case evaluation"})
    if not ok:
        ctx.violation({"kind": "proof-broken"}, "props/C20.v or its closure no longer compiles",
                      {"log": log[-3000:], "no_failing_input_found": direct == 0 and not rs["failing"], "broken": "theorems of props/C20.v"})
    ctx.assumptions += [
        "atomicity is assumed at the granularity of a source line of the modelled functions; CPython's bytecode-level atomicity below a line, the GIL hand-off policy and thread-safety inside OpenSSL/pyca are not modelled",
        "the RFC 7638 thumbprint and all signature / encryption primitives are oracles: pure functions of the immutable raw key and the call's own arguments",
        "JWE operations are covered by the direct oracle under the scheduler, not by the step model",
    ]
    if not ctx.quick:
        ctx.coqchk()


def replay(path):
    r = json.load(open(path))["replay"]
    print("replay:", {k: v for k, v in r.items() if k != "case"})
    ctx = lib.Ctx("C20", "quick", 0)
    ctx.known = []
    if r.get("kind") in ("alg-schedule", "reg-history", "alg-pair"):
        import pkgutil, importlib, joserfc
        for m in pkgutil.walk_packages(joserfc.__path__, "joserfc."):
            importlib.import_module(m.name)
        from joserfc.drafts.jwe_chacha20 import register_chaha20_poly1305
        from joserfc.drafts.jwe_ecdh_1pu import register_ecdh_1pu
        register_chaha20_poly1305()
        register_ecdh_1pu()
        mat = KeyMaterial(ctx.rng)
        specs = key_specs(mat)
        pristine = Pristine(lambda spec: exec_spec(spec, specs))
        try:
            if r["kind"] == "reg-history":
                # keys are regenerated: only the producing calls of the recorded history can be re-run
                for spec in [c for c in r["calls"] if "token" not in c]:
                    here, first = exec_spec(spec, specs)["v"], pristine.call(spec)["v"]
                    print(json.dumps(spec), "->", here, "| first in process:", first)
                    if here != first:
                        ctx.violations.append(({}, "verdict depends on history", {}))
            else:
                # a poisoned singleton depends on the schedules run before: re-run the whole enumeration of this pair
                ctx.tier = json.load(open(path)).get("tier", "quick")
                singleton_schedules(ctx, specs, pristine, only=r["pair"])
                for sig, desc, _ in ctx.violations[:5]:
                    print(desc[:400])
        finally:
            pristine.close()
        print("STILL FAILS" if ctx.violations else "does not fail any more")
        return 1 if ctx.violations else 0
    if r.get("kind") != "schedule" or not r.get("schedule"):
        print("no schedule in this replay file; see its description")
        return 1
    runner = Runner(ctx)
    O = runner.O
    names = r["ops"]
    allops = {}
    for wn, pops in pairs_quick(O) + jwe_pairs(O, runner.mat):
        for op in pops:
            allops[op.name] = op
    ops = [allops.get(n) for n in names]
    if any(o is None for o in ops):
        print("operation not reconstructible from the pair table:", names)
        return 1
    iso = [runner.isolated(r["world"], op)[0] for op in ops]
    env, res, trace, picks = runner.run_schedule(r["world"], ops, list_policy(r["schedule"]))
    print("isolated   :", iso)
    print("interleaved:", res)
    runner.judge(r["world"], ops, env, res, trace, iso, "replay")
    for sig, desc, _ in ctx.violations:
        print("STILL FAILS:", desc)
    return 1 if ctx.violations else 0
