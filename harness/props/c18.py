"""C18 — every encryption and key generation draws fresh randomness of the right size.

Correspondence: secrets.token_bytes (per call site) and the native key
generators are intercepted by pass-through recording proxies; for every call
the log of (site, size) and the origin of every emitted value (IV, recovered
CEK, GCM-KW iv, p2s, epk, generated key) in the ONE global draw log is compared
with the prediction of the Gallina model (coq/model/C18Model.v, C18Cases.v).
Direct oracle: histories of N encryptions per configuration with the real
generator: pairwise distinct values, exact sizes, no fixed bits, epk on the
recipient's curve, p2c default >= 1000; key generation sizes / curves."""
import sys, os, json, math, subprocess, base64
import lib
from lib import c_hex, c_str, c_Z, c_N, c_bool, c_list, c_opt, c_exn, exn_class

# expected sizes in octets, literals from RFC 7518 5.2.3-5.2.5 (CBC-HS: 128-bit IV,
# keys 256/384/512), 5.3 (GCM: 96-bit IV, keys 128/192/256) and
# draft-amringer-jose-chacha-02 (C20P 96-bit, XC20P 192-bit nonce, 256-bit key)
RFC_SIZES = {"A128CBC-HS256": (16, 32), "A192CBC-HS384": (16, 48), "A256CBC-HS512": (16, 64),
             "A128GCM": (12, 16), "A192GCM": (12, 24), "A256GCM": (12, 32),
             "C20P": (12, 32), "XC20P": (24, 32)}
OKP_PUB_LEN = {"Ed25519": 32, "Ed448": 57, "X25519": 32, "X448": 56}   # RFC 8032 / RFC 7748
EC_BITS = {"P-256": 256, "P-384": 384, "P-521": 521, "secp256k1": 256}


def b64d(s):
    if isinstance(s, str):
        s = s.encode("ascii")
    return base64.urlsafe_b64decode(s + b"=" * (-len(s) % 4))


# --------------------------------------------------------------------------
# interception
# --------------------------------------------------------------------------
class Recorder:
    def __init__(self):
        self.log = []        # (site, size, valuekey)
        self.where = {}      # valuekey -> [indices]

    def add(self, site, size, vk):
        i = len(self.log)
        self.log.append((site, size, vk))
        if vk is not None:
            self.where.setdefault(vk, []).append(i)
        return i

    def set_value(self, i, vk):
        site, size, _ = self.log[i]
        self.log[i] = (site, size, vk)
        self.where.setdefault(vk, []).append(i)

    def latest(self, vk):
        l = self.where.get(vk)
        return l[-1] if l else None


SITES = {("joserfc.rfc7516.models", "JWEEncModel.generate_cek"): "cek",
         ("joserfc.rfc7516.models", "JWEEncModel.generate_iv"): "iv",
         ("joserfc.rfc7518.jwe_algs", "AESGCMAlgModel.encrypt_cek"): "gcmiv",
         ("joserfc.rfc7518.jwe_algs", "PBES2HSAlgModel.encrypt_cek"): "p2s",
         ("joserfc.rfc7518.oct_key", "OctKey.generate_key"): "oct"}


class SecretsProxy:
    """Stands for the module `secrets` inside one joserfc module: passes every
    call through to the real generator and records (call site, size, value)."""

    def __init__(self, rec, modname, real):
        self._rec, self._mod, self._real = rec, modname, real

    def token_bytes(self, *a, **k):
        f = sys._getframe(1)
        site = SITES.get((self._mod, f.f_code.co_qualname), "?%s:%s" % (self._mod, f.f_code.co_qualname))
        v = self._real.token_bytes(*a, **k)
        self._rec.add(site, len(v), ("b", bytes(v)))
        return v

    def __getattr__(self, name):
        return getattr(self._real, name)


class OKPClassProxy:
    def __init__(self, rec, crv, real):
        self._rec, self._crv, self._real = rec, crv, real
        self.__name__ = real.__name__

    def generate(self):
        from cryptography.hazmat.primitives import serialization as S
        k = self._real.generate()
        pub = k.public_key().public_bytes(S.Encoding.Raw, S.PublicFormat.Raw)
        self._rec.add("okp:" + self._crv, 0, ("okp", self._crv, pub))
        return k

    def __getattr__(self, name):
        return getattr(self._real, name)


class Intercept:
    def __init__(self):
        self.rec = Recorder()
        self.undo = []
        self.captured = []      # CEKs seen by enc.decrypt

    def install(self):
        import secrets as real_secrets
        import joserfc.rfc7516.models as m1
        import joserfc.rfc7518.jwe_algs as m2
        import joserfc.rfc7518.oct_key as m3
        import joserfc.rfc7518.ec_key as ek
        import joserfc.rfc7518.rsa_key as rk
        import joserfc.rfc8037.okp_key as ok
        from joserfc.rfc7516.registry import JWERegistry
        rec = self.rec
        for mod in (m1, m2, m3):
            if getattr(mod, "secrets", None) is not real_secrets:
                raise RuntimeError("module %s does not bind the name `secrets` to the secrets module" % mod.__name__)
            old = mod.secrets
            mod.secrets = SecretsProxy(rec, mod.__name__, real_secrets)
            self.undo.append((lambda mod=mod, old=old: setattr(mod, "secrets", old)))
        # EC: the backend generator as bound in joserfc.rfc7518.ec_key
        real_ec = ek.generate_private_key

        def gen_ec(*a, **k):
            curve = k.get("curve", a[0] if a else None)
            key = real_ec(*a, **k)
            name = ek.ECBinding._curves_dss.get(str(getattr(curve, "name", "?")), "?" + str(getattr(curve, "name", "?")))
            nums = key.public_key().public_numbers()
            rec.add("ec:" + name, key.curve.key_size, ("ec", name, nums.x, nums.y))
            return key
        ek.generate_private_key = gen_ec
        self.undo.append(lambda: setattr(ek, "generate_private_key", real_ec))
        real_rsa = rk.generate_private_key

        def gen_rsa(*a, **k):
            bits = k.get("key_size", a[1] if len(a) > 1 else None)
            i = rec.add("rsa:%s" % bits, bits, None)      # logged at call time: the backend may refuse
            key = real_rsa(*a, **k)
            rec.set_value(i, ("rsa", key.public_key().public_numbers().n))
            return key
        rk.generate_private_key = gen_rsa
        self.undo.append(lambda: setattr(rk, "generate_private_key", real_rsa))
        for crv, cls in list(ok.PRIVATE_KEYS_MAP.items()):
            ok.PRIVATE_KEYS_MAP[crv] = OKPClassProxy(rec, crv, cls)
            self.undo.append(lambda crv=crv, cls=cls: ok.PRIVATE_KEYS_MAP.__setitem__(crv, cls))
        # CEK as seen by the content decryption
        for name, enc in JWERegistry.algorithms["enc"].items():
            real_dec = enc.decrypt

            def dec(ciphertext, tag, cek, iv, aad, _real=real_dec):
                self.captured.append(bytes(cek))
                return _real(ciphertext, tag, cek, iv, aad)
            enc.decrypt = dec
            self.undo.append(lambda enc=enc: enc.__dict__.pop("decrypt", None))

    def uninstall(self):
        for u in reversed(self.undo):
            u()
        self.undo = []


# --------------------------------------------------------------------------
# state leak oracle: defaults of functions / methods, class attributes, module level
# containers and the attributes of shared (module level / registered) joserfc objects
# --------------------------------------------------------------------------
def freeze(v, depth=0):
    if isinstance(v, (str, int, float, bytes, bool, type(None))):
        return v
    if depth > 5:
        return ("id", id(v))
    if isinstance(v, dict):
        return ("dict", tuple(sorted((repr(k), freeze(x, depth + 1)) for k, x in v.items())))
    if isinstance(v, (list, tuple)):
        return (type(v).__name__, tuple(freeze(x, depth + 1) for x in v))
    if isinstance(v, (set, frozenset)):
        return (type(v).__name__, tuple(sorted(repr(freeze(x, depth + 1)) for x in v)))
    return ("id", id(v))


class StateWatch:
    MODULES = ["joserfc.jwe", "joserfc.rfc7516.models", "joserfc.rfc7516.message", "joserfc.rfc7516.registry",
               "joserfc.rfc7516.compact", "joserfc.rfc7516.json", "joserfc.rfc7518.jwe_algs", "joserfc.rfc7518.jwe_encs",
               "joserfc.rfc7518.jwe_zips", "joserfc.rfc7518.derive_key", "joserfc.drafts.jwe_ecdh_1pu",
               "joserfc.drafts.jwe_chacha20", "joserfc.rfc7518.oct_key", "joserfc.rfc7518.ec_key", "joserfc.rfc7518.rsa_key",
               "joserfc.rfc8037.okp_key", "joserfc.rfc7517.models", "joserfc.registry"]

    def __init__(self):
        import importlib, types
        self.targets = []          # (name, getter)
        seen = set()

        def add_func(name, f):
            f = getattr(f, "__func__", f)
            f = getattr(f, "fget", f) or f
            if isinstance(f, types.FunctionType) and id(f) not in seen:
                seen.add(id(f))
                self.targets.append((name + ".__defaults__", lambda f=f: freeze(f.__defaults__)))
                self.targets.append((name + ".__kwdefaults__", lambda f=f: freeze(f.__kwdefaults__)))

        for mn in self.MODULES:
            try:
                mod = importlib.import_module(mn)
            except Exception:
                continue
            for gn, gv in list(vars(mod).items()):
                if gn.startswith("__"):
                    continue
                full = "%s.%s" % (mn, gn)
                if isinstance(gv, types.FunctionType):
                    if gv.__module__ == mn:
                        add_func(full, gv)
                elif isinstance(gv, type):
                    if gv.__module__ == mn and id(gv) not in seen:
                        seen.add(id(gv))
                        self.targets.append(("vars(%s)" % full, lambda c=gv: freeze({k: v for k, v in vars(c).items()
                                                                                      if k not in ("__dict__", "__weakref__", "__slotnames__")})))   # __slotnames__: cache written by copyreg on copy.copy
                        for an, av in list(vars(gv).items()):
                            add_func("%s.%s" % (full, an), av)
                elif isinstance(gv, (dict, list, set)):
                    self.targets.append((full, lambda v=gv: freeze(v)))
                elif type(gv).__module__.startswith("joserfc") and hasattr(gv, "__dict__") and id(gv) not in seen:
                    seen.add(id(gv))
                    self.targets.append(("vars(%s)" % full, lambda o=gv: freeze(vars(o))))
        from joserfc.rfc7516.registry import JWERegistry
        for loc, d in JWERegistry.algorithms.items():
            for n, inst in d.items():
                if id(inst) not in seen:
                    seen.add(id(inst))
                    self.targets.append(("vars(JWERegistry.algorithms[%s][%s])" % (loc, n), lambda o=inst: freeze(vars(o))))

    def snap(self):
        return [g() for _, g in self.targets]

    def changed(self, a, b):
        return [self.targets[i][0] for i in range(len(a)) if a[i] != b[i]]


# --------------------------------------------------------------------------
# configurations
# --------------------------------------------------------------------------
class Keys:
    """Key pool (created through joserfc's own generate_key, under the proxies)."""

    def __init__(self):
        self.pool = {}

    def get(self, spec):
        from joserfc.jwk import OctKey, RSAKey, ECKey, OKPKey
        if spec is None:
            return None
        if spec not in self.pool:
            kind, p = spec[0], spec[1]
            if kind == "oct":
                k = OctKey.generate_key(p)
            elif kind == "RSA":
                k = RSAKey.generate_key(p)
            elif kind == "EC":
                k = ECKey.generate_key(p)
            else:
                k = OKPKey.generate_key(p)
            self.pool[spec] = k
        return self.pool[spec]


def c_keydesc(spec):
    kind, p = spec[0], spec[1]
    if kind == "oct":
        return "(KOct %s)" % c_N(p)
    if kind == "RSA":
        return "(KRSA %s)" % c_N(p)
    if kind == "EC":
        return '(KEC "%s")' % p
    return '(KOKP "%s")' % p


def c_site(s):
    if s in ("cek", "iv", "gcmiv", "p2s", "oct"):
        return {"cek": "SCek", "iv": "SIv", "gcmiv": "SGcmIv", "p2s": "SP2s", "oct": "SOct"}[s]
    if s.startswith("ec:"):
        return '(SEC "%s")' % s[3:]
    if s.startswith("okp:"):
        return '(SOKP "%s")' % s[4:]
    if s.startswith("rsa:") and s[4:].isdigit():
        return "(SRSA %s)" % c_N(int(s[4:]))
    return '(SEC "?unknown site %s")' % s.replace('"', "'")


def c_obs(o):
    if o[0] == "draw":
        return "(ODraw %s)" % c_N(o[1])
    return {"none": "ONone", "given": "OGiven", "stale": "OStale", "unknown": "OUnknown"}[o[0]]


def pubkey_vk(key):
    """value key of the public part of an ECKey / OKPKey, as logged by the proxies"""
    d = key.as_dict(private=False)
    return epk_vk(d)


def epk_vk(d):
    if d.get("kty") == "EC":
        return ("ec", d["crv"], int.from_bytes(b64d(d["x"]), "big"), int.from_bytes(b64d(d["y"]), "big"))
    return ("okp", d.get("crv"), b64d(d["x"]))


class Rcp:
    """one recipient of a configuration.
    alg_at: where "alg" (and a supplied p2s/p2c) is put: "protected" | "unprotected" | "recipient";
    hdr: how the recipient header argument is passed: "omit" (argument not given at all),
         "none", "empty" ({}), "dict" (a fresh dict)."""

    def __init__(self, alg, key, p2s=None, p2c=None, preset=None, sender=None, alg_at="recipient", hdr="dict",
                 generated=False):
        self.alg, self.key, self.p2s, self.p2c, self.preset, self.sender = alg, key, p2s, p2c, preset, sender
        self.alg_at, self.hdr = alg_at, hdr
        # generated: the ephemeral key found on the recipient was generated by an earlier encryption of
        # the same object (recipient._ephemeral_key_generated), i.e. it is not a caller preset
        self.generated = generated
        if alg_at == "recipient":
            self.hdr = "dict"

    def coq(self):
        return ('{| r_alg := "%s"; r_key := %s; r_has_p2s := %s; r_p2c := %s; r_preset_epk := %s; '
                'r_epk_generated := %s; r_sender := %s |}'
                % (self.alg, c_keydesc(self.key), c_bool(self.p2s is not None), c_opt(self.p2c, c_N),
                   c_opt(self.preset, c_keydesc), c_bool(self.generated), c_opt(self.sender, c_keydesc)))

    @property
    def caller_preset(self):
        return None if self.generated else self.preset

    def js(self):
        return {"alg": self.alg, "key": list(self.key), "p2s": self.p2s.hex() if self.p2s is not None else None, "p2c": self.p2c,
                "preset": list(self.preset) if self.preset else None, "sender": list(self.sender) if self.sender else None,
                "alg_at": self.alg_at, "hdr": self.hdr, "generated": self.generated}

    @staticmethod
    def from_js(j):
        t = lambda x: tuple(x) if x else None
        alg_at = j.get("alg_at") or ("protected" if j.get("alg_in_protected") else "recipient")
        return Rcp(j["alg"], tuple(j["key"]), bytes.fromhex(j["p2s"]) if j["p2s"] is not None else None, j["p2c"],
                   t(j["preset"]), t(j["sender"]), alg_at, j.get("hdr", "none" if alg_at != "recipient" else "dict"),
                   j.get("generated", False))


class Config:
    """ser: "compact" (jwe.encrypt_compact) | "compact_obj" (CompactEncryption + attach_recipient +
    perform_encrypt) | "flat" | "general";  keys_via: "recipient" (key given to add_recipient) |
    "encrypt_json" (key given to jwe.encrypt_json)."""

    def __init__(self, enc, ser, rcps, aad=None, zip_=False, keys_via="recipient"):
        self.enc, self.ser, self.rcps, self.aad, self.zip, self.keys_via = enc, ser, rcps, aad, zip_, keys_via
        # keys_via: "recipient" (Key given to add_recipient / as the key argument), "encrypt_json" (Key given to
        # encrypt_json), "keyset" (a KeySet holding the key) or "callable" (lambda recipient: key) as key argument
        if len({r.key for r in rcps}) != 1 or ser == "compact_obj":
            self.keys_via = "recipient"       # one key for all recipients is needed to hand it over as one argument
        elif ser in ("compact", "jwt") and self.keys_via == "encrypt_json":
            self.keys_via = "recipient"
        if self.ser == "jwt" and any(r.sender is not None for r in rcps):
            self.ser = "compact"              # jwt.encode has no sender_key argument

    @property
    def is_compact(self):
        return self.ser in ("compact", "compact_obj", "jwt")

    def coq_msg(self):
        return '{| m_enc := "%s"; m_recips := %s |}' % (self.enc, c_list(r.coq() for r in self.rcps))

    def js(self):
        return {"enc": self.enc, "ser": self.ser, "rcps": [r.js() for r in self.rcps],
                "aad": self.aad.hex() if self.aad else None, "zip": self.zip, "keys_via": self.keys_via}

    @staticmethod
    def from_js(j):
        return Config(j["enc"], j["ser"], [Rcp.from_js(r) for r in j["rcps"]],
                      bytes.fromhex(j["aad"]) if j.get("aad") else None, j.get("zip", False), j.get("keys_via", "recipient"))

    def label(self):
        shape = ",".join("%s:%s" % (r.alg_at[:4], r.hdr) for r in self.rcps)
        return "%s/%s/%s[%s;%s]" % ("+".join(r.alg for r in self.rcps) or "-", self.enc, self.ser, shape, self.keys_via[:4])


class Runner:
    def __init__(self, icp, keys, registry):
        self.icp, self.keys, self.reg = icp, keys, registry

    def headers_for(self, r):
        h = {}
        if r.p2s is not None:
            h["p2s"] = base64.urlsafe_b64encode(r.p2s).rstrip(b"=").decode()
        if r.p2c is not None:
            h["p2c"] = r.p2c
        return h

    def build_obj(self, cfg):
        """-> (message object, key to hand to encrypt_json or None).  FRESH message and header
        objects; the header argument is really omitted when r.hdr == "omit"."""
        from joserfc.rfc7516.models import GeneralJSONEncryption, FlattenedJSONEncryption, CompactEncryption
        pt = b"C18 payload"
        if cfg.ser == "compact_obj":
            r = cfg.rcps[0]
            protected = {"alg": r.alg, "enc": cfg.enc}
            extra = self.headers_for(r)
            if cfg.zip:
                protected["zip"] = "DEF"
            key = self.keys.get(r.key)
            if r.hdr != "dict":
                protected.update(extra)
            obj = CompactEncryption(protected, pt)
            if r.hdr == "omit":
                obj.attach_recipient(key)
            elif r.hdr == "none":
                obj.attach_recipient(key, None)
            elif r.hdr == "empty":
                obj.attach_recipient(key, {})
            else:
                obj.attach_recipient(key, dict(extra) if extra else {"cty": "c18"})
            if r.sender is not None:
                obj.recipient.sender_key = self.keys.get(r.sender)
            return obj, None
        protected = {"enc": cfg.enc}
        unprotected = None
        if cfg.zip:
            protected["zip"] = "DEF"
        for r in cfg.rcps:
            if r.alg_at == "unprotected" and unprotected is None:
                unprotected = {}
        cls = FlattenedJSONEncryption if cfg.ser == "flat" else GeneralJSONEncryption
        obj = cls(protected, pt, unprotected, cfg.aad)
        via_json = cfg.keys_via in ("encrypt_json", "keyset", "callable") and len(cfg.rcps) >= 1
        for r in cfg.rcps:
            extra = self.headers_for(r)
            key = None if via_json else self.keys.get(r.key)
            shared = protected if r.alg_at == "protected" else unprotected
            if r.alg_at == "recipient":
                h = {"alg": r.alg}
                h.update(extra)
                obj.add_recipient(h, key)
                continue
            shared["alg"] = r.alg
            if r.hdr == "dict":
                h = dict(extra) if extra else {"cty": "c18"}
                obj.add_recipient(h, key)
                continue
            shared.update(extra)
            if r.hdr == "omit":
                if key is None:
                    obj.add_recipient()
                else:
                    obj.add_recipient(key=key)
            elif r.hdr == "none":
                obj.add_recipient(None, key)
            else:
                obj.add_recipient({}, key)
        for r, rc in zip(cfg.rcps, obj.recipients):
            if r.preset is not None:
                rc.ephemeral_key = self.preset_key(r.preset)
            if r.sender is not None:
                rc.sender_key = self.keys.get(r.sender)
        return obj, (self.key_arg(cfg) if via_json else None)

    def key_arg(self, cfg):
        """the key argument in the form the configuration asks for: Key, KeySet or callable"""
        from joserfc.jwk import KeySet
        key = self.keys.get(cfg.rcps[0].key)
        if cfg.keys_via == "keyset":
            return KeySet([key])
        if cfg.keys_via == "callable":
            return lambda obj: key
        return key

    def encrypt_obj(self, obj, json_key=None):
        """encrypt an existing message object -> ("ok", token) | ("err", exc); the token is a private copy"""
        from joserfc import jwe
        from joserfc.rfc7516.models import CompactEncryption
        try:
            if isinstance(obj, CompactEncryption):
                from joserfc.rfc7516.message import perform_encrypt
                from joserfc.rfc7516.compact import represent_compact
                perform_encrypt(obj, self.reg)
                return ("ok", represent_compact(obj).decode("ascii"))
            out = jwe.encrypt_json(obj, json_key, registry=self.reg)
            return ("ok", json.loads(json.dumps(out)))
        except BaseException as e:  # noqa
            if isinstance(e, (KeyboardInterrupt, SystemExit)):
                raise
            return ("err", e)

    def encrypt(self, cfg):
        """-> ("ok", token-ish) | ("err", exc).  FRESH message and header objects per call."""
        from joserfc import jwe
        try:
            if cfg.ser in ("compact", "jwt"):
                r = cfg.rcps[0]
                protected = {"alg": r.alg, "enc": cfg.enc}
                protected.update(self.headers_for(r))
                if cfg.zip:
                    protected["zip"] = "DEF"
                if cfg.ser == "jwt":
                    from joserfc import jwt
                    return ("ok", jwt.encode(protected, {"sub": "c18"}, self.key_arg(cfg), registry=self.reg))
                tok = jwe.encrypt_compact(protected, b"C18 payload", self.key_arg(cfg), registry=self.reg,
                                          sender_key=self.keys.get(r.sender))
                return ("ok", tok)
            obj, jk = self.build_obj(cfg)
        except BaseException as e:  # noqa
            if isinstance(e, (KeyboardInterrupt, SystemExit)):
                raise
            return ("err", e)
        return self.encrypt_obj(obj, jk)

    def preset_key(self, spec):
        # a dedicated key (distinct from the recipient's own) on the given curve
        return self.keys.get((spec[0], spec[1], "preset"))

    # ---- observation of one produced token ------------------------------
    def obs(self, vk, w0, given=None):
        if given is not None and vk == given:
            return ("given",)
        i = self.icp.rec.latest(vk)
        if i is None:
            return ("unknown",)
        return ("draw", i - w0) if i >= w0 else ("stale",)

    def observe(self, cfg, tok, w0):
        """-> (iv_obs, [recipient obs dict], raw values dict) ; raises on undecryptable tokens"""
        from joserfc import jwe
        vals = {"iv": None, "cek": [], "gcmiv": [], "p2s": [], "epk": [], "p2c": [], "p2s_given": []}
        if cfg.is_compact:
            parts = tok.split(".")
            protected = json.loads(b64d(parts[0]))
            iv = b64d(parts[2])
            views = [(protected, b64d(parts[1]))]
        else:
            protected = json.loads(b64d(tok["protected"]))
            iv = b64d(tok["iv"])
            un = tok.get("unprotected") or {}
            if "recipients" in tok:
                views = []
                for rc in tok["recipients"]:
                    h = dict(protected); h.update(un); h.update(rc.get("header") or {})
                    views.append((h, b64d(rc.get("encrypted_key", ""))))
            else:
                h = dict(protected); h.update(un); h.update(tok.get("header") or {})
                views = [(h, b64d(tok.get("encrypted_key", "")))]
        vals["iv"] = iv
        iv_obs = self.obs(("b", iv), w0)
        out = []
        for idx, (r, (h, ek)) in enumerate(zip(cfg.rcps, views)):
            o = {}
            if "epk" in h:
                vk = epk_vk(h["epk"])
                given = getattr(r, "given_epk", None)
                if given is None and r.caller_preset is not None and not hasattr(r, "given_epk"):
                    given = pubkey_vk(self.preset_key(r.preset))
                o["epk"] = self.obs(vk, w0, given)
                vals["epk"].append((vk, h["epk"], r))
            else:
                o["epk"] = ("none",)
            fam_gcm = r.alg.endswith("GCMKW")
            if fam_gcm and "iv" in h:
                g = b64d(h["iv"])
                o["gcm"] = self.obs(("b", g), w0)
                vals["gcmiv"].append(g)
            else:
                o["gcm"] = ("none",)
            if "p2s" in h:
                s = b64d(h["p2s"])
                o["p2s"] = self.obs(("b", s), w0, ("b", r.p2s) if r.p2s is not None else None)
                if r.p2s is None:
                    vals["p2s"].append(s)
                else:
                    vals["p2s_given"].append(s)
            else:
                o["p2s"] = ("none",)
            o["p2c"] = h.get("p2c") if r.alg.startswith("PBES2") else None
            if o["p2c"] is not None and r.p2c is None:
                vals["p2c"].append(o["p2c"])
            # recover the CEK this recipient gets
            key = self.keys.get(r.key)
            self.icp.captured.clear()
            if cfg.is_compact:
                jwe.decrypt_compact(tok, key, registry=self.reg, sender_key=self.keys.get(r.sender))
            else:
                single = {k: v for k, v in tok.items() if k not in ("recipients", "header", "encrypted_key")}
                if "recipients" in tok:
                    single["recipients"] = [tok["recipients"][idx]]
                else:
                    for k in ("header", "encrypted_key"):
                        if k in tok:
                            single[k] = tok[k]
                jwe.decrypt_json(single, key, registry=self.reg, sender_key=self.keys.get(r.sender))
            if len(self.icp.captured) != 1:
                raise RuntimeError("content decryption ran %d times" % len(self.icp.captured))
            cek = self.icp.captured[0]
            given = ("b", key.raw_value) if r.alg == "dir" else None
            o["cek"] = self.obs(("b", cek), w0, given)
            if r.alg in ("A128KW", "A192KW", "A256KW"):
                from cryptography.hazmat.primitives.keywrap import aes_key_unwrap
                if aes_key_unwrap(key.raw_value, ek) != cek:
                    raise RuntimeError("independent AES key unwrap gives a different CEK")
            vals["cek"].append((cek, o["cek"]))
            out.append(o)
        return iv_obs, out, vals


def c_orecip(o):
    return "{| ob_epk := %s; ob_gcm := %s; ob_p2s := %s; ob_p2c := %s; ob_cek := %s |}" % (
        c_obs(o["epk"]), c_obs(o["gcm"]), c_obs(o["p2s"]), c_opt(o["p2c"], c_N), c_obs(o["cek"]))


# --------------------------------------------------------------------------
# statistics
# --------------------------------------------------------------------------
def bit_bounds(n, total_bits, inv_budget=10 ** 11):
    """largest k such that 2 * total_bits * P(Bin(n,1/2) <= k) < 1/inv_budget (exact integers)"""
    acc, k, c = 0, -1, 1
    lim = 2 ** n
    for i in range(0, n // 2):
        acc += c                                  # c = comb(n, i)
        if 2 * acc * total_bits * inv_budget >= lim:
            break
        k = i
        c = c * (n - i) // (i + 1)
    return k


_EXP = [bytes((b >> (7 - i)) & 1 for i in range(8)) for b in range(256)]


def bit_counts(samples):
    """number of ones per bit position (samples of equal length); column sums via big integers"""
    ln = len(samples[0])
    cnt = [0] * (ln * 8)
    if ln == 0:
        return cnt
    for c in range(0, len(samples), 255):
        acc = 0
        for s in samples[c:c + 255]:
            acc += int.from_bytes(b"".join(_EXP[b] for b in s), "big")
        for i, v in enumerate(acc.to_bytes(ln * 8, "big")):
            cnt[i] += v
    return cnt


def structural_bits(kind, nbytes):
    """bit positions (MSB-first index) of a public key coordinate that are constant by the encoding:
    P-521 coordinates are 521 bits in 66 octets; the X25519 u-coordinate has 255 bits (little endian);
    the last octet of an Ed448 public key carries only the sign bit"""
    if not (kind.startswith("epk:") or kind.startswith("gen:")):
        return set()
    if ":P-521:" in kind and nbytes == 66:
        return set(range(0, 7))
    if ":X25519:" in kind and nbytes == 32:
        return {31 * 8}
    if ":Ed448:" in kind and nbytes == 57:
        return set(range(56 * 8 + 1, 57 * 8))
    return set()


def fixed_bits(samples, lo):
    """bit positions whose number of ones over the samples is <= lo or >= n-lo"""
    n = len(samples)
    if n == 0 or lo < 0:
        return []
    ln = len(samples[0])
    cnt = bit_counts([s for s in samples if len(s) == ln])
    return [(i, c) for i, c in enumerate(cnt) if c <= lo or c >= n - lo]


# --------------------------------------------------------------------------
def key_for_alg(alg, enc, j):
    agree_keys = [("EC", "P-256"), ("OKP", "X25519"), ("EC", "P-384"), ("EC", "P-521"), ("OKP", "X448"), ("EC", "secp256k1")]
    if alg.startswith("RSA"):
        return ("RSA", 2048)
    if alg.startswith("ECDH"):
        return agree_keys[j % len(agree_keys)]
    if alg.startswith("PBES2"):
        return ("oct", [80, 128, 256][j % 3])
    if alg == "dir":
        return ("oct", RFC_SIZES[enc][1] * 8)
    return ("oct", int(alg[1:4]))


# --------------------------------------------------------------------------
# every function of the key modules that can create key material (the draw-discipline table)
# --------------------------------------------------------------------------
GENERATOR_TABLE = {
    "joserfc.rfc7518.oct_key:OctKey.generate_key": "class entry point (model gen_oct)",
    "joserfc.rfc7518.rsa_key:RSAKey.generate_key": "class entry point (model gen_rsa)",
    "joserfc.rfc7518.ec_key:ECKey.generate_key": "class entry point (model gen_ec)",
    "joserfc.rfc7518.ec_key:ECBinding.generate_private_key": "backend call under ECKey.generate_key (intercepted)",
    "joserfc.rfc8037.okp_key:OKPKey.generate_key": "class entry point (model gen_okp)",
    "joserfc._keys:JWKRegistry.generate_key": "dispatch on the key type (model gen_one)",
    "joserfc._keys:KeySet.generate_key_set": "count successive generate_key calls (model gen_key_set)",
    "joserfc.rfc7517.models:BaseKey.generate_key": "abstract declaration (raises NotImplementedError)",
}
GENERATOR_MODULES = ["joserfc.jwk", "joserfc._keys", "joserfc.rfc7517.models", "joserfc.rfc7517.pem", "joserfc.rfc7517.types",
                     "joserfc.rfc7518.oct_key", "joserfc.rfc7518.rsa_key", "joserfc.rfc7518.ec_key", "joserfc.rfc7518.derive_key",
                     "joserfc.rfc8037.okp_key", "joserfc.rfc8812", "joserfc.rfc7638"]
GENERATOR_PAT = r"generate_key\(|generate_key_set\(|token_bytes\(|token_hex\(|token_urlsafe\(|generate_private_key\(|\.generate\(\)|urandom\(|randbytes\(|getrandbits\(|SystemRandom"


def scan_generators():
    """qualified names of the functions / methods of the key modules whose name says generate or whose
    source calls a generator; plus everything reachable as <exported class>.<name with 'generate'>"""
    import importlib, inspect, re, types
    pat = re.compile(GENERATOR_PAT)
    found = {}
    for mn in GENERATOR_MODULES:
        try:
            mod = importlib.import_module(mn)
        except Exception:
            continue
        for n, v in list(vars(mod).items()):
            objs = []
            if isinstance(v, types.FunctionType) and v.__module__ == mn:
                objs.append((n, v))
            elif isinstance(v, type) and v.__module__ == mn:
                for an, av in list(vars(v).items()):
                    f = getattr(av, "__func__", av)
                    f = getattr(f, "fget", f) or f
                    if isinstance(f, types.FunctionType):
                        objs.append((n + "." + an, f))
            for qn, f in objs:
                try:
                    src = inspect.getsource(f)
                except Exception:
                    src = ""
                if "generate" in f.__name__ or pat.search(src):
                    found["%s:%s" % (mn, qn)] = True
    import joserfc.jwk as J
    for name in list(getattr(J, "__all__", [])) + [n for n in vars(J) if "generate" in n]:
        v = getattr(J, name, None)
        if isinstance(v, types.FunctionType) and "generate" in name:
            found["%s:%s" % (v.__module__, v.__qualname__)] = True
        if isinstance(v, type):
            for an in dir(v):
                if "generate" in an:
                    f = getattr(v, an)
                    f = getattr(f, "__func__", f)
                    if isinstance(f, types.FunctionType):
                        found["%s:%s" % (f.__module__, f.__qualname__)] = True
    return found


def key_vk(key):
    """value key of a generated key's material as logged by the proxies"""
    if key.key_type == "oct":
        return ("b", key.raw_value)
    if key.key_type == "RSA":
        raw = key.raw_value
        pub = raw.public_key() if hasattr(raw, "public_key") else raw
        return ("rsa", pub.public_numbers().n)
    return epk_vk(key.as_dict(private=False))


# producing entry points of the public modules
PRODUCER_TABLE = {
    "joserfc.jwe:encrypt_compact": 'ser "compact"',
    "joserfc.jwe:encrypt_json": 'ser "flat" / "general"',
    "joserfc.jwt:encode": 'ser "jwt" (with a JWERegistry)',
    "joserfc.jwe:JWEEncModel.generate_cek": "draw site SCek (intercepted; reached through every non-direct encryption)",
    "joserfc.jwe:JWEEncModel.generate_iv": "draw site SIv (intercepted; reached through every encryption)",
    "joserfc.jwe:JWEEncModel.encrypt": "abstract content encryption: receives cek and iv, draws nothing (its cek is hooked on decrypt)",
}


def scan_producers():
    """functions exported by joserfc.jwe / joserfc.jwt (their __all__) that produce a serialization:
    by name (encrypt*, encode*, serialize*, generate*) or because their source calls perform_encrypt /
    encrypt_compact / encrypt_json"""
    import importlib, inspect, re, types
    pat = re.compile(r"perform_encrypt\(|encrypt_compact\(|encrypt_json\(|token_bytes\(|generate_key\(")
    found = {}
    for mn in ("joserfc.jwe", "joserfc.jwt"):
        mod = importlib.import_module(mn)
        for name in getattr(mod, "__all__", []):
            v = getattr(mod, name, None)
            cands = []
            if isinstance(v, types.FunctionType):
                cands.append((name, v))
            elif isinstance(v, type) and v.__module__.startswith("joserfc"):
                for an in dir(v):
                    f = getattr(v, an, None)
                    f = getattr(f, "__func__", f)
                    if isinstance(f, types.FunctionType) and not an.startswith("__"):
                        cands.append((name + "." + an, f))
            for qn, f in cands:
                try:
                    src = inspect.getsource(f)
                except Exception:
                    src = ""
                if re.match(r"(encrypt|encode|serialize|generate)", f.__name__) or pat.search(src):
                    found["%s:%s" % (mn, qn)] = True
    return found


_CROSS_TEMPLATE = """
import json
from joserfc import jwe
from joserfc.jwk import OctKey, ECKey, OKPKey
from joserfc.rfc7516.registry import JWERegistry
import base64
def d(x):
    x = x.encode() if isinstance(x, str) else x
    return base64.urlsafe_b64decode(x + b'=' * (-len(x) %%%% 4)).hex()
reg = JWERegistry(algorithms=list(JWERegistry.algorithms['alg']) + list(JWERegistry.algorithms['enc']))
ko = OctKey.import_key(b'0123456789abcdef'); ke = ECKey.import_key(%r); kx = OKPKey.import_key(%r)
out = []
for i in range(%%d):
    for alg, k in (('A128KW', ko), ('A128GCMKW', ko), ('PBES2-HS256+A128KW', ko), ('ECDH-ES+A128KW', ke), ('ECDH-ES', kx)):
        t = jwe.encrypt_compact({'alg': alg, 'enc': 'A128GCM'}, b'x', k, registry=reg).split('.')
        h = json.loads(bytes.fromhex(d(t[0])))
        out.append(['iv', d(t[2])])
        if t[1]: out.append(['ek', d(t[1])])
        if alg == 'A128GCMKW': out.append(['gcmiv', d(h['iv'])])
        if 'p2s' in h: out.append(['p2s', d(h['p2s'])])
        if 'epk' in h: out.append(['epk', h['epk']['crv'] + d(h['epk']['x'])])
    out.append(['oct', d(OctKey.generate_key(128).as_dict()['k'])])
    out.append(['ec', d(ECKey.generate_key('P-256').as_dict()['x'])])
    out.append(['okp', d(OKPKey.generate_key('X25519').as_dict()['x'])])
print(json.dumps(out))
"""
CROSS_CODE = _CROSS_TEMPLATE % (
    {'crv': 'P-256', 'x': 'Kh-6nTd1cWjuSlECABv-JQaoGoNedP3g2wuXy0UC_Mk', 'y': 'xogQNwX6RX3ygilap8c54jUSJtdKxvtAd-TES34foxw',
     'd': 'SLtsHrAvqG9Mk3YVZrbq3iOGeQ-N6gUpm3KmTCgvk08', 'kty': 'EC'},
    {'crv': 'X25519', 'x': 'JXxUsnIgYN2YJtuUYgDY5EZyEemIVC85WrgV9jj0w14', 'd': 'QFigNjc9D2oSWxoLgOtq3QM-KGGVb4ERQzlkJVkWukE', 'kty': 'OKP'})


REUSE_SCENARIOS = ["same", "fresh-headers", "edit", "decrypt-reencrypt", "decrypt-otherkey",
                   "decrypt-addrecipient", "copy", "deepcopy"]


def derive_cfg(enc, ser, obj, specs):
    """model input of the NEXT encryption of an existing message object, read from the state the
    implementation itself reads: recipient.headers() ("alg", "p2s", "p2c"), recipient.ephemeral_key and
    recipient._ephemeral_key_generated"""
    rcps = []
    for (kspec, sspec), rc in zip(specs, obj.recipients):
        h = rc.headers()
        p2s = b64d(h["p2s"]) if isinstance(h.get("p2s"), str) else None
        eph = rc.ephemeral_key
        gen = bool(getattr(rc, "_ephemeral_key_generated", False))
        r = Rcp(str(h.get("alg")), kspec, p2s=p2s, p2c=h.get("p2c") if isinstance(h.get("p2c"), int) else None,
                preset=((eph.key_type, eph.curve_name) if eph is not None else None), sender=sspec, generated=gen)
        r.given_epk = pubkey_vk(eph) if (eph is not None and not gen) else None
        rcps.append(r)
    return Config(enc, ser, rcps)


def run_reuse(runner, base, scenario, call):
    """object-REUSE histories: `call(obj, specs, json_key, step)` encrypts the given existing object and
    returns the token (or None when the call failed)."""
    import copy
    from joserfc import jwe
    from joserfc.rfc7516.models import CompactEncryption, BaseJSONEncryption
    keys = runner.keys
    specs = [(r.key, r.sender) for r in base.rcps]
    obj, jk = runner.build_obj(base)
    is_json = isinstance(obj, BaseJSONEncryption)

    def decrypt(tok):
        k = keys.get(base.rcps[0].key)
        sk = keys.get(base.rcps[0].sender)
        if isinstance(tok, str):
            return jwe.decrypt_compact(tok, k, registry=runner.reg, sender_key=sk)
        return jwe.decrypt_json(tok, k, registry=runner.reg, sender_key=sk)

    if scenario == "same":
        for i in range(3):
            call(obj, specs, jk, "call %d on the same object" % i)
    elif scenario == "fresh-headers":
        prot0 = dict(obj.protected)
        un0 = dict(obj.unprotected) if is_json and obj.unprotected is not None else None
        hd0 = [dict(rc.header) if rc.header is not None else None for rc in obj.recipients]
        for i in range(3):
            call(obj, specs, jk, "call %d, header objects replaced by fresh equal ones" % i)
            obj.protected = dict(prot0)
            if is_json:
                obj.unprotected = dict(un0) if un0 is not None else None
            for rc, h in zip(obj.recipients, hd0):
                rc.header = dict(h) if h is not None else None
    elif scenario == "edit":
        for i in range(3):
            call(obj, specs, jk, "call %d after editing the plaintext" % i)
            obj.plaintext = b"edited %d" % i
            if is_json and obj.aad is not None:
                obj.aad = b"aad %d" % i
    elif scenario.startswith("decrypt"):
        tok = call(obj, specs, jk, "first encryption")
        if tok is None:
            return
        o2 = decrypt(tok)
        o2.plaintext = b"edited after decryption"
        if scenario == "decrypt-otherkey":
            k0 = base.rcps[0].key
            other = (k0[0], k0[1], "other")
            for rc in o2.recipients:
                rc.recipient_key = keys.get(other)
            specs = [(other, sp) for (_, sp) in specs]
        elif scenario == "decrypt-addrecipient" and isinstance(o2, BaseJSONEncryption):
            o2.add_recipient({"alg": "A256KW"}, keys.get(("oct", 256)))
            specs = [(sp[0], sp[1]) for sp in specs][:len(o2.recipients) - 1] + [(("oct", 256), None)]
        call(o2, specs, None, "re-encryption of the object returned by decrypt")
        call(o2, specs, None, "second re-encryption of that object")
    elif scenario in ("copy", "deepcopy"):
        if call(obj, specs, jk, "first encryption") is None:
            return
        c = copy.copy(obj) if scenario == "copy" else copy.deepcopy(obj)
        call(c, specs, None, "encryption of the %s of an encrypted object" % scenario)
        call(obj, specs, None, "encryption of the original after its copy was encrypted")


def run(ctx):
    ok, log = ctx.prove()
    from joserfc import jwe  # noqa: F401
    from joserfc.jwk import OctKey, RSAKey, ECKey, OKPKey
    from joserfc.rfc7516.registry import JWERegistry
    from joserfc.drafts.jwe_ecdh_1pu import register_ecdh_1pu
    from joserfc.drafts.jwe_chacha20 import register_chaha20_poly1305
    register_ecdh_1pu()
    register_chaha20_poly1305()
    ALGS = list(JWERegistry.algorithms["alg"])
    ENCS = list(JWERegistry.algorithms["enc"])
    unknown_enc = [e for e in ENCS if e not in RFC_SIZES]
    reg = JWERegistry(algorithms=ALGS + ENCS + ["DEF"])
    icp = Intercept()
    icp.install()
    try:
        _run(ctx, ok, log, icp, reg, ALGS, ENCS, unknown_enc)
    finally:
        icp.uninstall()


def _run(ctx, ok, log, icp, reg, ALGS, ENCS, unknown_enc):
    from joserfc.jwk import OctKey, RSAKey, ECKey, OKPKey
    rng = ctx.rng
    rec = icp.rec
    keys = Keys()
    runner = Runner(icp, keys, reg)
    cases, meta = [], []
    dist = {"history_configs": 0, "history_encryptions": 0, "single_cases": 0, "error_cases": 0,
            "multi_recipient": 0, "keygen_cases": 0}
    for e in unknown_enc:
        ctx.violation({"kind": "unknown-enc"}, "content encryption algorithm %s has no expected size in the check" % e,
                      {"enc": e, "no_failing_input_found": True, "broken": "harness RFC_SIZES"})
    ENCS = [e for e in ENCS if e in RFC_SIZES]

    p2s_sizes = set()
    bit_classes = set()
    recorded = {"caller_p2s_short": 0}
    # pools for the pairwise-distinctness oracle over the whole run
    seen = {"iv": {}, "cek": {}, "p2s": {}, "gcmiv": {}, "epk": {}, "key": {}}

    def check_unique(kind, value, where):
        d = seen[kind]
        if value in d:
            ctx.violation({"kind": "repeat", "what": kind},
                          "%s value repeated: %s first at %s, again at %s" % (kind, str(value)[:70], d[value], where),
                          {"what": kind, "first": d[value], "again": where, "config": where.get("config")})
            return False
        d[value] = where
        return True

    def prepare_keys(cfg):
        for r in cfg.rcps:
            keys.get(r.key)
            if r.sender:
                keys.get(r.sender)
            if r.preset:
                runner.preset_key(r.preset)

    watch = StateWatch()
    state = [watch.snap()]
    ctx.coverage["state_leak_targets"] = len(watch.targets)

    def one(cfg, reps, tag):
        r = one_(cfg, reps, tag)
        # state leak oracle: no default argument, class attribute, module level container or shared
        # algorithm / registry object may have changed by encrypting
        now = watch.snap()
        ch = watch.changed(state[0], now)
        if ch:
            ctx.violation({"kind": "state-leak"},
                          "encrypting %s changed shared state: %s" % (cfg.label(), ", ".join(ch[:6])),
                          {"config": cfg.js(), "changed": ch[:20]})
        state[0] = now
        return r

    def direct_oracle(cfg, vals, where, acc):
        """sizes, uniqueness over the whole run, curve of epk, default count; for one produced token"""
        # ---- direct oracle on this token
        exp_iv, exp_cek = RFC_SIZES[cfg.enc]
        iv = vals["iv"]
        if len(iv) != exp_iv:
            ctx.violation({"kind": "size", "what": "iv"}, "IV of %d octets for %s (expected %d)" % (len(iv), cfg.enc, exp_iv), where)
        check_unique("iv", iv, where)
        acc['iv'].append(iv)
        cek_vals = {c for c, _ in vals["cek"]}
        if len(cek_vals) != 1:
            ctx.violation({"kind": "cek-not-shared"}, "recipients of one message recover different CEKs (%s)" % cfg.label(), where)
        for c in cek_vals:
            if len(c) != exp_cek:
                ctx.violation({"kind": "size", "what": "cek"}, "CEK of %d octets for %s (expected %d)" % (len(c), cfg.enc, exp_cek), where)
            # randomly generated CEKs only (direct modes use the shared / agreed key)
            if not any(r.alg in ("dir", "ECDH-ES", "ECDH-1PU") for r in cfg.rcps):
                check_unique("cek", c, where)
                acc['cek'].append(c)
        for s in vals["p2s"]:
            if len(s) < 8:
                ctx.violation({"kind": "size", "what": "p2s"}, "generated PBES2 salt input of %d octets (< 8)" % len(s), where)
            check_unique("p2s", s, where)
            acc['p2s'].append(s)
        for c in vals["p2c"]:
            if not isinstance(c, int) or c < 1000:
                ctx.violation({"kind": "p2c"}, "default PBES2 count %r is below 1000" % (c,), where)
        for g in vals["gcmiv"]:
            if len(g) != 12:
                ctx.violation({"kind": "size", "what": "gcmiv"}, "AES-GCM key wrap IV of %d octets (expected 12)" % len(g), where)
            check_unique("gcmiv", g, where)
            acc['gcmiv'].append(g)
        for s_ in vals["p2s"]:
            p2s_sizes.add(len(s_))
        for s_ in vals["p2s_given"]:
            # RFC 7518 4.8.1.1 asks for 8 or more octets; a caller-chosen salt is outside C18 (the property is
            # about the salt inputs the LIBRARY generates): recorded, not demanded
            if len(s_) < 8 and "reuse" not in where:
                recorded["caller_p2s_short"] += 1
        for vk, epk, r in vals["epk"]:
            if r.caller_preset is None:
                for co in ("x", "y"):
                    if co in epk:
                        acc.setdefault("epk:%s:%s" % (epk.get("crv"), co), []).append(b64d(epk[co]))
            if epk.get("kty") != r.key[0] or epk.get("crv") != r.key[1]:
                ctx.violation({"kind": "epk-curve"}, "epk %s/%s is not on the recipient key's curve %s/%s" % (
                    epk.get("kty"), epk.get("crv"), r.key[0], r.key[1]), where)
            if "d" in epk:
                ctx.violation({"kind": "epk-private"}, "epk header carries the private member d", where)
            if r.caller_preset is None:
                check_unique("epk", vk, where)

    def origin_oracle(cfg, iv_obs, robs, where):
        """every emitted random value must be a draw made DURING this call (a value drawn at import /
        definition time, cached, or derived shows as stale / unknown)"""
        bad = []
        if iv_obs[0] != "draw":
            bad.append(("iv", iv_obs[0]))
        direct = any(r.alg in ("dir", "ECDH-ES", "ECDH-1PU") for r in cfg.rcps)
        for r, o in zip(cfg.rcps, robs):
            if not direct and o["cek"][0] != "draw":
                bad.append(("cek", o["cek"][0]))
            if o["gcm"][0] not in ("none", "draw"):
                bad.append(("gcmiv", o["gcm"][0]))
            if o["p2s"][0] not in ("none", "draw", "given"):
                bad.append(("p2s", o["p2s"][0]))
            if o["epk"][0] not in ("none", "draw", "given"):
                bad.append(("epk", o["epk"][0]))
        for what, how in bad:
            ctx.violation({"kind": "no-draw-in-call", "what": what},
                          "emitted %s of %s has no draw in this call (it equals %s)" % (
                              what, cfg.label(), "a draw made before the call" if how == "stale" else "no logged draw at all"), where)

    def one_(cfg, reps, tag):
        """run cfg `reps` times (>= 3 for every configuration); emit one Coq case; apply the direct oracle"""
        prepare_keys(cfg)
        w_first = len(rec.log)
        first = None
        acc = {'iv': [], 'cek': [], 'p2s': [], 'gcmiv': []}
        same = True
        for k in range(reps):
            w0 = len(rec.log)
            res = runner.encrypt(cfg)
            w1 = len(rec.log)
            shape = [(s, n) for (s, n, _) in rec.log[w0:w1]]
            where = {"config": cfg.js(), "rep": k}
            if res[0] == "ok":
                try:
                    iv_obs, robs, vals = runner.observe(cfg, res[1], w0)
                except BaseException as e:  # noqa
                    if isinstance(e, (KeyboardInterrupt, SystemExit)):
                        raise
                    ctx.violation({"kind": "cek-not-recoverable"},
                                  "token of %s cannot be decrypted / observed: %r" % (cfg.label(), e),
                                  {"config": cfg.js(), "rep": k})
                    return
                if len(rec.log) != w1:
                    ctx.violation({"kind": "draw-on-decrypt"}, "decryption drew randomness for %s" % cfg.label(),
                                  {"config": cfg.js(), "rep": k})
                    return
                rep = (None, shape, iv_obs, robs)
                direct_oracle(cfg, vals, where, acc)
                origin_oracle(cfg, iv_obs, robs, where)
                # fresh header per call is an input condition; the implementation must not need more
            else:
                cls = exn_class(res[1])
                rep = (cls, shape, ("none",), [])
            if first is None:
                first = rep
            elif rep != first:
                same = False
                ctx.violation({"kind": "history-shape"},
                              "repetition %d of %s behaves differently from the first one: %r vs %r" % (k, cfg.label(), rep, first),
                              {"config": cfg.js(), "rep": k, "this": repr(rep), "first": repr(first)})
                break
            ctx.note_case((tag, cfg.label(), k), nontrivial=(k == 0))
        err, shape, iv_obs, robs = first
        term = "CEncrypt %s %s %s %s %s %s %s" % (
            c_N(w_first), c_N(reps if same else 1), cfg.coq_msg(),
            "None" if err is None else "(Some %s)" % c_exn(err),
            c_list("(%s, %s)" % (c_site(s), c_N(n)) for s, n in shape),
            c_obs(iv_obs), c_list(c_orecip(o) for o in robs))
        cases.append(term)
        meta.append({"config": cfg.js(), "reps": reps, "impl": {"err": err, "draws": shape, "iv": iv_obs, "recipients": robs}})
        # ---- no fixed bits
        if reps >= 100 and same:
            for kind, samples in acc.items():
                if len(samples) >= 100:
                    per = {}
                    for s in samples:
                        per.setdefault(len(s), []).append(s)
                    for ln, ss in per.items():
                        if len(ss) < 100:
                            continue
                        lo = bit_bounds(len(ss), TOTAL_BITS[0])
                        skip = structural_bits(kind, ln)
                        bad = [b_ for b_ in fixed_bits(ss, lo) if b_[0] not in skip]
                        bit_classes.add(kind.split(":")[0] if not kind.startswith("epk") else kind)
                        if bad:
                            ctx.violation({"kind": "fixed-bits", "what": kind},
                                          "%s of %s: bit %d is set in %d of %d samples (allowed %d..%d)" % (
                                              kind, cfg.label(), bad[0][0], bad[0][1], len(ss), lo + 1, len(ss) - lo - 1),
                                          {"config": cfg.js(), "what": kind, "bits": bad[:8], "n": len(ss)})
        return first

    # ---------------- histories with the real generator -----------------
    N = ctx.scale(200, int(os.environ.get("VERIF_C18_N", "10000")))      # VERIF_C18_N: smoke-test override of the thorough size
    sers = ["compact", "flat", "general"]
    HDRS = ["omit", "none", "empty", "dict"]
    JSON_SHAPES = [("protected", "omit"), ("recipient", "dict"), ("unprotected", "omit"), ("protected", "none"),
                   ("protected", "empty"), ("unprotected", "dict"), ("recipient", "dict"), ("protected", "omit")]
    ALL_SHAPES = [(a, h) for a in ("protected", "unprotected") for h in HDRS] + [("recipient", "dict")]

    def rand_shape():
        a, h = rng.choice(ALL_SHAPES)
        return {"alg_at": a, "hdr": h}

    VIAS = ["recipient", "encrypt_json", "keyset", "callable", "recipient"]

    def rand_ser():
        return rng.choice(["compact", "compact_obj", "flat", "general", "jwt"])

    def rand_via():
        # (a KeySet argument is only used with keys that fit the algorithm: KeySet.pick_random_key filters by type)
        return rng.choice(["recipient", "encrypt_json", "callable"])
    hist = []
    for i, alg in enumerate(ALGS):
        for j, enc in enumerate(ENCS):
            ser = sers[(i + j) % 3]
            sender = None
            key = key_for_alg(alg, enc, j + i)
            if alg.startswith("ECDH-1PU"):
                sender = (key[0], key[1], "sender")
            alg_at, hdr = JSON_SHAPES[j % len(JSON_SHAPES)]
            if ser == "compact":
                alg_at = "protected"
                if j % 2 == 0:
                    ser, hdr = "compact_obj", HDRS[(j // 2) % 4]
                elif j % 4 == 1:
                    ser = "jwt"           # jwt.encode with a JWERegistry
            hist.append(Config(enc, ser, [Rcp(alg, key, sender=sender, alg_at=alg_at, hdr=hdr)],
                               aad=(b"aad" if ser in ("flat", "general") and j % 2 else None), zip_=(j % 4 == 3),
                               keys_via=VIAS[(i + j) % len(VIAS)]))
    # multi-recipient general JSON
    multi = [
        ("A128CBC-HS256", [("RSA-OAEP", ("RSA", 2048)), ("A128KW", ("oct", 128)), ("ECDH-ES+A128KW", ("EC", "P-256"))]),
        ("A256GCM", [("A256GCMKW", ("oct", 256)), ("A128GCMKW", ("oct", 128)), ("PBES2-HS256+A128KW", ("oct", 96))]),
        ("A192CBC-HS384", [("ECDH-ES+A256KW", ("OKP", "X25519")), ("ECDH-ES+A192KW", ("EC", "P-521")), ("A192GCMKW", ("oct", 192)), ("RSA1_5", ("RSA", 2048))]),
        ("XC20P", [("PBES2-HS512+A256KW", ("oct", 256)), ("PBES2-HS384+A192KW", ("oct", 64)), ("A256KW", ("oct", 256))]),
        ("A256CBC-HS512", [("ECDH-1PU+A256KW", ("EC", "P-384")), ("ECDH-ES+A128KW", ("OKP", "X448")), ("A128GCMKW", ("oct", 128))]),
        ("A128GCM", [("A128GCMKW", ("oct", 128)), ("A128GCMKW", ("oct", 128))]),
    ]
    for enc, rs in multi:
        rcps = []
        for alg, key in rs:
            rcps.append(Rcp(alg, key, sender=((key[0], key[1], "sender") if alg.startswith("ECDH-1PU") else None)))
        hist.append(Config(enc, "general", rcps, aad=b"shared aad"))
    # total number of bits tested (for the false alarm budget): generous upper bound
    TOTAL_BITS[0] = max(1, len(hist) * (192 + 512 + 128 + 3 * 96) + 4096 + 120000)   # + epk / generated key coordinates
    full = set(range(len(hist)))
    if not ctx.quick:
        # N = 10^4 on a covering subset (every alg, every enc, every serialisation, all multi), 1000 elsewhere
        full = {i for i, c in enumerate(hist) if len(c.rcps) > 1}
        for a_i, alg in enumerate(ALGS):
            full.add(a_i * len(ENCS) + (a_i % len(ENCS)))
    for i, cfg in enumerate(hist):
        n = N if i in full else min(N, 1000)
        # configurations that fail (ECDH-1PU key wrapping with a non-CBC enc) are histories of failing calls
        expect_fail = any(r.alg.startswith("ECDH-1PU+") for r in cfg.rcps) and not cfg.enc.endswith(("HS256", "HS384", "HS512"))
        if expect_fail:
            n = 5
        one(cfg, n, "hist")
        dist["history_configs"] += 1
        dist["history_encryptions"] += n
        if len(cfg.rcps) > 1:
            dist["multi_recipient"] += 1

    # ---------------- structured single cases (options, error paths) ----
    octs = [("oct", b) for b in (0, 8, 64, 128, 192, 256, 384, 512)]
    ecs = [("EC", c) for c in EC_BITS] + [("OKP", c) for c in OKP_PUB_LEN]
    allkeys = octs + ecs + [("RSA", 2048), ("RSA", 1024)]
    singles = []
    # (a) header-supplied p2s / p2c, pre-set ephemeral keys, ECDH on every curve
    for alg in [a for a in ALGS if a.startswith("PBES2")]:
        for enc in ENCS[:3] + ENCS[-2:]:
            for p2s_len, p2c in ((16, None), (8, 1000), (0, None), (None, 4096), (32, 3000)):
                p2s = bytes(rng.randrange(256) for _ in range(p2s_len)) if p2s_len else (b"" if p2s_len == 0 else None)
                if p2s == b"":
                    p2s = None
                singles.append(Config(enc, rand_ser(), [Rcp(alg, ("oct", rng.choice([64, 128, 256])), p2s=p2s, p2c=p2c,
                                                            **rand_shape())], keys_via=rand_via()))
    for alg in [a for a in ALGS if a.startswith("ECDH")]:
        for kspec in ecs:
            enc = rng.choice(ENCS[:3]) if "1PU+" in alg else rng.choice(ENCS)
            sender = (kspec[0], kspec[1], "sender") if "1PU" in alg else None
            singles.append(Config(enc, rand_ser(), [Rcp(alg, kspec, sender=sender, **rand_shape())], keys_via=rand_via()))
            # pre-set ephemeral key: same curve, and a different curve (exchange fails after the draws)
            other = ecs[(ecs.index(kspec) + 1) % len(ecs)]
            for pre in (kspec, other):
                singles.append(Config(enc, rng.choice(["flat", "general"]), [Rcp(alg, kspec, preset=pre, sender=sender, **rand_shape())],
                                      keys_via=rand_via()))
        # missing / mismatching sender key
        if "1PU" in alg:
            singles.append(Config("A128CBC-HS256", "general", [Rcp(alg, ("EC", "P-256"))]))
            singles.append(Config("A128CBC-HS256", "general", [Rcp(alg, ("EC", "P-256"), sender=("EC", "P-384", "sender"))]))
            singles.append(Config("A128CBC-HS256", "general", [Rcp(alg, ("OKP", "X25519"), sender=("EC", "P-256", "sender"))]))
    # (b) wrong key type / size for every algorithm
    for alg in ALGS:
        for kspec in allkeys:
            enc = rng.choice(ENCS)
            sender = ("EC", "P-256", "sender") if "1PU" in alg else None
            singles.append(Config(enc, rand_ser(), [Rcp(alg, kspec, sender=sender, **rand_shape())], keys_via=rand_via()))
    # (b') call shapes: every algorithm x every way of building the message object the public API allows
    #      (header argument omitted / None / {} / fresh dict; alg in the protected, shared unprotected or
    #      recipient header; key given to add_recipient or to encrypt_json; CompactEncryption + attach_recipient)
    for ai, alg in enumerate(ALGS):
        for si, (alg_at, hdr) in enumerate(ALL_SHAPES):
            for ser in ("flat", "general"):
                enc = ENCS[(ai + si) % 3] if "1PU+" in alg else ENCS[(ai + si) % len(ENCS)]
                kspec = key_for_alg(alg, enc, ai + si)
                sender = (kspec[0], kspec[1], "sender") if "1PU" in alg else None
                singles.append(Config(enc, ser, [Rcp(alg, kspec, sender=sender, alg_at=alg_at, hdr=hdr)],
                                      keys_via=VIAS[(ai + si + (ser == "flat")) % 4]))
        for vi, via in enumerate(("recipient", "keyset", "callable")):
            for ser in ("compact", "jwt"):
                enc = ENCS[(ai + vi) % 3] if "1PU+" in alg else ENCS[(ai + vi) % len(ENCS)]
                kspec = key_for_alg(alg, enc, ai + vi)
                sender = (kspec[0], kspec[1], "sender") if "1PU" in alg else None
                singles.append(Config(enc, ser, [Rcp(alg, kspec, sender=sender, alg_at="protected", hdr="omit")], keys_via=via))
        for hi, hdr in enumerate(HDRS):
            enc = ENCS[(ai + hi) % 3] if "1PU+" in alg else ENCS[(ai + hi) % len(ENCS)]
            kspec = key_for_alg(alg, enc, ai + hi)
            sender = (kspec[0], kspec[1], "sender") if "1PU" in alg else None
            singles.append(Config(enc, "compact_obj", [Rcp(alg, kspec, sender=sender, alg_at="protected", hdr=hdr)]))
    # (b'') several recipients sharing one alg from the protected / unprotected header, recipient headers not passed
    for alg in ("A128GCMKW", "PBES2-HS256+A128KW", "ECDH-ES+A128KW", "A256KW", "RSA-OAEP", "ECDH-1PU+A128KW"):
        for alg_at in ("protected", "unprotected"):
            for hdr in ("omit", "none", "empty"):
                enc = rng.choice(ENCS[:3])
                kspec = key_for_alg(alg, enc, rng.randrange(6))
                sender = (kspec[0], kspec[1], "sender") if "1PU" in alg else None
                n = rng.choice([2, 3])
                hdrs = [hdr] * n if rng.random() < 0.6 else [rng.choice(["omit", "none", "empty", "dict"]) for _ in range(n)]
                singles.append(Config(enc, "general", [Rcp(alg, kspec, sender=sender, alg_at=alg_at, hdr=h) for h in hdrs],
                                      keys_via=rand_via()))
    # (b3) falsy and boundary caller presets: "" / short p2s, p2c 0 / 1 / 2^31
    for ai, alg in enumerate([a for a in ALGS if a.startswith("PBES2")]):
        for pi, (p2s, p2c) in enumerate(((b"", None), (b"\x01", None), (b"1234567", 2000), (b"12345678", None), (None, 0), (None, 1),
                                         (None, 2 ** 31), (b"", 0), (None, 999))):
            ser = ["compact", "flat", "general", "compact_obj", "jwt"][(ai + pi) % 5]
            shape_ = {"alg_at": "protected", "hdr": "omit"} if pi % 2 else {"alg_at": "recipient", "hdr": "dict"}
            singles.append(Config(ENCS[(ai + pi) % len(ENCS)], ser, [Rcp(alg, ("oct", 128), p2s=p2s, p2c=p2c, **shape_)]))
    # (c) unknown algorithm, no recipient
    singles.append(Config("A128GCM", "compact", [Rcp("A512KW", ("oct", 128))]))
    for enc in ENCS:
        singles.append(Config(enc, "general", []))
        singles.append(Config(enc, "flat", []))
    # (d) random multi-recipient messages, including conflicts with direct algorithms and failing members
    for _ in range(ctx.scale(150, 3000)):
        n = rng.choice([2, 2, 3, 3, 4, 5])
        enc = rng.choice(ENCS)
        rcps = []
        for _k in range(n):
            alg = rng.choice(ALGS) if rng.random() < 0.85 else rng.choice(["dir", "ECDH-ES", "ECDH-1PU", "A128GCMKW"])
            if rng.random() < 0.88:
                kspec = key_for_alg(alg, enc, rng.randrange(6))
            else:
                kspec = rng.choice(allkeys)
            sender = (("EC", "P-256", "sender") if kspec[0] != "OKP" else ("OKP", kspec[1], "sender")) if "1PU" in alg else None
            if sender and kspec[0] == "EC":
                sender = ("EC", kspec[1], "sender")
            p2s = bytes(rng.randrange(256) for _ in range(16)) if alg.startswith("PBES2") and rng.random() < 0.3 else None
            preset = kspec if alg.startswith("ECDH") and kspec[0] in ("EC", "OKP") and rng.random() < 0.2 else None
            rcps.append(Rcp(alg, kspec, p2s=p2s, preset=preset, sender=sender))
        singles.append(Config(enc, "general", rcps, aad=(b"x" if rng.random() < 0.3 else None)))
    for cfg in singles:
        r = one(cfg, rng.choice([3, 3, 3, 4]), "single")
        if r is None:
            continue
        dist["single_cases"] += 1
        if r[0] is not None:
            dist["error_cases"] += 1
        if len(cfg.rcps) > 1:
            dist["multi_recipient"] += 1

    # ---------------- object REUSE histories ------------------------------
    # the same caller-visible message object encrypted again / after decryption / after copying: every
    # emitted IV, CEK, GCM-KW iv (and p2s / epk unless found in the object's header / ephemeral_key)
    # must be a draw of THAT call, whatever segments the object already carries
    reuse_stats = {"calls": 0, "failed_calls": 0, "p2s_kept_in_header": 0, "epk_kept_on_recipient": 0}

    def reuse_scenario(base, scenario):
        prepare_keys(base)
        for r in base.rcps:
            keys.get((r.key[0], r.key[1], "other"))
        keys.get(("oct", 256))
        dummy = {'iv': [], 'cek': [], 'p2s': [], 'gcmiv': []}

        def call(obj, specs, jk, step):
            from joserfc.rfc7516.models import CompactEncryption
            ser = "compact_obj" if isinstance(obj, CompactEncryption) else ("flat" if getattr(obj, "flattened", False) else "general")
            try:
                cfg = derive_cfg(base.enc, ser, obj, specs)
            except BaseException as e:  # noqa
                if isinstance(e, (KeyboardInterrupt, SystemExit)):
                    raise
                ctx.violation({"kind": "reuse-state-unreadable"}, "state of a reused object cannot be read: %r" % (e,),
                              {"reuse": scenario, "config": base.js(), "step": step})
                return None
            where = {"reuse": scenario, "step": step, "config": base.js()}
            w0 = len(rec.log)
            res = runner.encrypt_obj(obj, jk)
            w1 = len(rec.log)
            shape = [(s_, n_) for (s_, n_, _) in rec.log[w0:w1]]
            reuse_stats["calls"] += 1
            tok = None
            if res[0] == "ok":
                tok = res[1]
                try:
                    iv_obs, robs, vals = runner.observe(cfg, tok, w0)
                except BaseException as e:  # noqa
                    if isinstance(e, (KeyboardInterrupt, SystemExit)):
                        raise
                    ctx.violation({"kind": "cek-not-recoverable"},
                                  "token of a reused object (%s, %s, %s) cannot be decrypted / observed: %r" % (base.label(), scenario, step, e), where)
                    return None
                direct_oracle(cfg, vals, where, dummy)
                origin_oracle(cfg, iv_obs, robs, dict(where, reuse_call=True))
                for r, o in zip(cfg.rcps, robs):
                    if r.p2s is not None and base.rcps[0].p2s is None:
                        reuse_stats["p2s_kept_in_header"] += 1
                    # REQUIRED: without a caller-preset ephemeral key, the epk of every encryption of a reused
                    # object is a key generated during THAT call
                    if all(b.preset is None for b in base.rcps) and o["epk"][0] not in ("none", "draw"):
                        reuse_stats["epk_kept_on_recipient"] += 1
                        ctx.violation({"kind": "object-reuse", "what": "epk"},
                                      "encrypting a reused message object (%s, scenario %s, %s) emits an ephemeral key that was not "
                                      "generated during this call (%s): the key of a previous encryption is reused" % (
                                          base.label(), scenario, step, o["epk"][0]), where)
                err = None
            else:
                reuse_stats["failed_calls"] += 1
                err, iv_obs, robs = exn_class(res[1]), ("none",), []
            ctx.note_case(("reuse", scenario, base.label(), step))
            cases.append("CEncrypt %s 1%%N %s %s %s %s %s" % (
                c_N(w0), cfg.coq_msg(), "None" if err is None else "(Some %s)" % c_exn(err),
                c_list("(%s, %s)" % (c_site(s_), c_N(n_)) for s_, n_ in shape),
                c_obs(iv_obs), c_list(c_orecip(o) for o in robs)))
            meta.append({"config": base.js(), "reuse": scenario, "step": step, "state_before_call": cfg.js(), "reps": 1,
                         "impl": {"err": err, "draws": shape, "iv": iv_obs, "recipients": robs}})
            return tok
        try:
            run_reuse(runner, base, scenario, call)
        except BaseException as e:  # noqa
            if isinstance(e, (KeyboardInterrupt, SystemExit)):
                raise
            ctx.violation({"kind": "reuse-scenario-failed"},
                          "object reuse scenario %s on %s raised outside encryption: %r" % (scenario, base.label(), e),
                          {"reuse": scenario, "config": base.js()})
        now = watch.snap()
        ch = watch.changed(state[0], now)
        if ch:
            ctx.violation({"kind": "state-leak"}, "reuse scenario %s on %s changed shared state: %s" % (scenario, base.label(), ", ".join(ch[:6])),
                          {"reuse": scenario, "config": base.js(), "changed": ch[:20]})
        state[0] = now

    reuse_bases = []
    for ai, alg in enumerate(ALGS):
        for si, ser in enumerate(("flat", "general", "compact_obj")):
            enc = ENCS[(ai + si) % 3] if "1PU+" in alg else ENCS[(ai + 3 * si) % len(ENCS)]
            kspec = key_for_alg(alg, enc, ai + si)
            sender = (kspec[0], kspec[1], "sender") if "1PU" in alg else None
            alg_at, hdr = [("recipient", "dict"), ("protected", "omit"), ("unprotected", "none")][(ai + si) % 3]
            if ser == "compact_obj":
                alg_at, hdr = "protected", HDRS[ai % 4]
            reuse_bases.append(Config(enc, ser, [Rcp(alg, kspec, sender=sender, alg_at=alg_at, hdr=hdr)],
                                      aad=(b"aad" if ser != "compact_obj" and ai % 2 else None),
                                      keys_via=("encrypt_json" if (ai + si) % 3 == 1 else "recipient")))
    for enc, algs3 in (("A128GCM", ["A128KW", "A128GCMKW", "PBES2-HS256+A128KW"]), ("A256CBC-HS512", ["A128GCMKW", "A128GCMKW"]),
                       ("A128CBC-HS256", ["PBES2-HS256+A128KW", "A128KW"])):
        reuse_bases.append(Config(enc, "general", [Rcp(a, ("oct", 128)) for a in algs3], aad=b"x"))
    for bi, base in enumerate(reuse_bases):
        scen = REUSE_SCENARIOS if (not ctx.quick or len(base.rcps) > 1) else \
            ["same", "decrypt-reencrypt"] + [REUSE_SCENARIOS[(bi + k) % len(REUSE_SCENARIOS)] for k in (0, 3)]
        for sc in dict.fromkeys(scen):
            reuse_scenario(base, sc)
    dist["reuse_scenarios"] = sum(1 for m_ in meta if "reuse" in m_)
    ctx.coverage["object_reuse"] = reuse_stats

    # ---------------- key generation --------------------------------------
    native_min = 1024

    def gen_case(kind, arg, private=True, reps=1):
        w_first = len(rec.log)
        first, same = None, True
        raws = []
        coords = {}
        for k in range(reps):
            w0 = len(rec.log)
            try:
                if kind == "oct":
                    key = OctKey.generate_key(arg, private=private)
                elif kind == "RSA":
                    key = RSAKey.generate_key(arg)
                elif kind == "EC":
                    key = ECKey.generate_key(arg)
                else:
                    key = OKPKey.generate_key(arg)
                err = None
            except BaseException as e:  # noqa
                if isinstance(e, (KeyboardInterrupt, SystemExit)):
                    raise
                key, err = None, exn_class(e)
            shape = [(s, n) for (s, n, _) in rec.log[w0:]]
            where = {"keygen": kind, "arg": arg, "private": private, "rep": k}
            if key is not None:
                if kind == "oct":
                    vk = ("b", key.raw_value)
                    if len(key.raw_value) * 8 != arg:
                        ctx.violation({"kind": "size", "what": "oct-key"}, "generated oct key has %d octets for key_size=%d" % (len(key.raw_value), arg), where)
                    raws.append(key.raw_value)
                    if arg >= 64:
                        check_unique("key", vk, where)
                elif kind == "RSA":
                    vk = ("rsa", key.raw_value.public_key().public_numbers().n if key.is_private else key.raw_value.public_numbers().n)
                    if key.raw_value.key_size != arg:
                        ctx.violation({"kind": "size", "what": "rsa-key"}, "generated RSA key has %d bits for key_size=%d" % (key.raw_value.key_size, arg), where)
                    check_unique("key", vk, where)
                else:
                    d = key.as_dict(private=True)
                    vk = epk_vk(d)
                    for co in ("x", "y"):
                        if co in d:
                            coords.setdefault("gen:%s:%s" % (arg, co), []).append(b64d(d[co]))
                    if d.get("crv") != arg or key.curve_name != arg:
                        ctx.violation({"kind": "curve", "what": kind}, "generated %s key is on %s, requested %s" % (kind, d.get("crv"), arg), where)
                    if kind == "EC" and key.raw_value.curve.key_size != EC_BITS.get(arg):
                        ctx.violation({"kind": "size", "what": "ec-key"}, "EC key size %s for %s" % (key.raw_value.curve.key_size, arg), where)
                    if kind == "OKP" and len(b64d(d["x"])) != OKP_PUB_LEN.get(arg):
                        ctx.violation({"kind": "size", "what": "okp-key"}, "OKP public key of %d octets for %s" % (len(b64d(d["x"])), arg), where)
                    check_unique("key", vk, where)
                    check_unique("key", ("d", kind, arg, d["d"]), where)
                em = runner.obs(vk, w0)
            else:
                em = ("none",)
            rep = (err, shape, em)
            if first is None:
                first = rep
            elif rep != first:
                same = False
                ctx.violation({"kind": "history-shape"}, "key generation %s(%r) repetition %d differs: %r vs %r" % (kind, arg, k, rep, first), where)
                break
            ctx.note_case(("gen", kind, arg, private, k), nontrivial=(k == 0))
        if len(raws) >= 100 and len(raws[0]) > 0:
            lo = bit_bounds(len(raws), TOTAL_BITS[0])
            bad = fixed_bits(raws, lo)
            if bad:
                ctx.violation({"kind": "fixed-bits", "what": "oct-key"},
                              "generated oct keys of %d bits: bit %d is set in %d of %d samples (allowed %d..%d)" % (
                                  arg, bad[0][0], bad[0][1], len(raws), lo + 1, len(raws) - lo - 1),
                              {"keygen": kind, "arg": arg, "private": private, "bits": bad[:8], "n": len(raws)})
        for ck, ss in coords.items():
            if len(ss) >= 100:
                lo = bit_bounds(len(ss), TOTAL_BITS[0])
                skip = structural_bits(ck, len(ss[0]))
                bad = [b_ for b_ in fixed_bits(ss, lo) if b_[0] not in skip]
                bit_classes.add(ck)
                if bad:
                    ctx.violation({"kind": "fixed-bits", "what": ck},
                                  "generated %s keys on %s, coordinate %s: bit %d is set in %d of %d samples (allowed %d..%d)" % (
                                      kind, arg, ck.split(":")[-1], bad[0][0], bad[0][1], len(ss), lo + 1, len(ss) - lo - 1),
                                  {"keygen": kind, "arg": arg, "private": private, "bits": bad[:8], "n": len(ss)})
        if len(raws) >= 100:
            bit_classes.add("oct-key")
        err, shape, em = first
        call = {"oct": lambda: "(CallGenOct %s %s)" % (c_Z(arg), c_bool(private)),
                "RSA": lambda: "(CallGenRSA %s)" % c_Z(arg),
                "EC": lambda: "(CallGenEC %s)" % c_strlit(arg),
                "OKP": lambda: "(CallGenOKP %s)" % c_strlit(arg)}[kind]()
        cases.append("CGen %s %s %s %s %s %s %s" % (
            c_N(w_first), c_N(reps if same else 1), c_N(native_min), call,
            "None" if err is None else "(Some %s)" % c_exn(err),
            c_list("(%s, %s)" % (c_site(s), c_N(n)) for s, n in shape), c_obs(em)))
        meta.append({"keygen": kind, "arg": arg, "private": private, "reps": reps,
                     "impl": {"err": err, "draws": shape, "emitted": em}})
        dist["keygen_cases"] += 1
        now = watch.snap()
        ch = watch.changed(state[0], now)
        if ch:
            ctx.violation({"kind": "state-leak"}, "generating a %s key (%r) changed shared state: %s" % (kind, arg, ", ".join(ch[:6])),
                          {"keygen": kind, "arg": arg, "private": private, "changed": ch[:20]})
        state[0] = now

    M = ctx.scale(200, int(os.environ.get("VERIF_C18_N", "10000")))
    for bits in (128, 192, 256, 384, 512, 64, 8, 1024):
        gen_case("oct", bits, True, M if bits >= 64 else 3)
    for bits in (0, 1, 7, 9, 12, 100, 255, 257, -8, -1, -16, 2047, 4096, 65536):
        gen_case("oct", bits, True, 1)
    for bits in (128, 0, 7):
        gen_case("oct", bits, False, 1)
    for _ in range(ctx.scale(60, 600)):
        gen_case("oct", rng.choice([rng.randrange(-64, 1100), 8 * rng.randrange(-4, 140)]), rng.random() < 0.9, 1)
    for crv in EC_BITS:
        gen_case("EC", crv, True, M)
    for crv in OKP_PUB_LEN:
        gen_case("OKP", crv, True, M)
    for crv in ("P-999", "", "p-256", "Ed25519", "X25519", "secp256r1", "P-256 "):
        gen_case("EC", crv)
    for crv in ("P-256", "", "ed25519", "X25519 ", "Ed25518"):
        gen_case("OKP", crv)
    gen_case("RSA", 2048, True, 1)
    gen_case("RSA", 1024, True, ctx.scale(2, 10))
    for bits in (0, -8, 8, 504, 511, 512, 513, 520, 1000, 1016, 1023, 1025, 2047, 2049, 2052, 4095):
        gen_case("RSA", bits)
    if not ctx.quick:
        gen_case("RSA", 2048, True, 3)
        gen_case("RSA", 3072, True, 1)

    # ---------------- every key generating entry point -------------------
    from joserfc.jwk import JWKRegistry, KeySet
    import joserfc.jwk as jwk_mod
    found = scan_generators()
    untabled = sorted(set(found) - set(GENERATOR_TABLE))
    stale = sorted(set(GENERATOR_TABLE) - set(found))
    for q in untabled:
        ctx.violation({"kind": "untabled-generator"},
                      "%s can create key material but is not in the draw-discipline table of the check" % q,
                      {"function": q, "no_failing_input_found": True, "broken": "harness GENERATOR_TABLE (fail closed)"})
    for q in stale:
        ctx.violation({"kind": "generator-table-stale"}, "%s of the draw-discipline table no longer exists" % q,
                      {"function": q, "no_failing_input_found": True, "broken": "harness GENERATOR_TABLE (fail closed)"})
    try:
        from joserfc.rfc7517.models import BaseKey
        BaseKey.generate_key()
        ctx.violation({"kind": "untabled-generator"}, "BaseKey.generate_key is no longer abstract", {"function": "BaseKey.generate_key"})
    except NotImplementedError:
        pass
    except Exception as e:  # noqa
        if not isinstance(e, TypeError):
            ctx.violation({"kind": "untabled-generator"}, "BaseKey.generate_key raised %r instead of NotImplementedError" % (e,),
                          {"function": "BaseKey.generate_key"})
    entry_stats = {"functions_found": len(found), "tabled": len(GENERATOR_TABLE), "untabled": untabled, "stale": stale,
                   "jwk.generate_key exported": hasattr(jwk_mod, "generate_key"), "registry_cases": 0, "set_cases": 0, "keys_generated": 0}

    def genspec(kty, arg):
        if kty == "oct":
            return "(GOct %s)" % c_Z(arg)
        if kty == "RSA":
            return "(GRSA %s)" % c_Z(arg)
        if kty == "EC":
            return "(GEC %s)" % c_strlit(arg)
        if kty == "OKP":
            return "(GOKP %s)" % c_strlit(arg)
        return "GBadType"

    def entry_case(entry, kty, arg, private, count=None):
        """entry: "registry" (JWKRegistry.generate_key) | "module" (jwk.generate_key, if exported) |
        "set" (KeySet.generate_key_set(..., count)) | "set-default" (count omitted)"""
        w0 = len(rec.log)
        where = {"keyset": {"entry": entry, "kty": kty, "arg": arg, "private": private, "count": count}}
        try:
            if entry == "registry":
                got = [JWKRegistry.generate_key(kty, arg, None, private, rng.random() < 0.5)]
            elif entry == "module":
                got = [jwk_mod.generate_key(kty, arg, None, private)]
            elif entry == "set-default":
                ks = KeySet.generate_key_set(kty, arg, private=private)
                got = list(ks.keys)
            else:
                ks = KeySet.generate_key_set(kty, arg, None, private, count)
                got = list(ks.keys)
            err = None
        except BaseException as e:  # noqa
            if isinstance(e, (KeyboardInterrupt, SystemExit)):
                raise
            got, err = [], exn_class(e)
        shape = [(s_, n_) for (s_, n_, _) in rec.log[w0:]]
        k_expected = None if entry in ("registry", "module") else (4 if entry == "set-default" else count)
        obs_l = []
        if err is None:
            n_exp = 1 if k_expected is None else max(k_expected, 0)
            if len(got) != n_exp:
                ctx.violation({"kind": "key-set-size"}, "%s(%s, %r, count=%r) returned %d keys" % (entry, kty, arg, count, len(got)), where)
            if len({id(k_) for k_ in got}) != len(got):
                ctx.violation({"kind": "repeat", "what": "key-set-object"},
                              "%s(%s, %r, private=%s, count=%r): the same key OBJECT occurs more than once in the generated set" % (
                                  entry, kty, arg, private, count), where)
            vks = [key_vk(k_) for k_ in got]
            if len(set(vks)) != len(vks):
                ctx.violation({"kind": "repeat", "what": "key-set-material"},
                              "%s(%s, %r, private=%s, count=%r): keys of one generated set share their material" % (
                                  entry, kty, arg, private, count), where)
            if entry.startswith("set"):
                kids = [k_.kid for k_ in got]
                if len(set(kids)) != len(kids) or any(not x for x in kids):
                    ctx.violation({"kind": "repeat", "what": "key-set-kid"},
                                  "%s(%s, %r, private=%s, count=%r): kids of the generated set are not pairwise distinct: %r" % (
                                      entry, kty, arg, private, count, kids[:5]), where)
            for k_, vk in zip(got, vks):
                entry_stats["keys_generated"] += 1
                obs_l.append(runner.obs(vk, w0))
                if k_.key_type != kty:
                    ctx.violation({"kind": "curve", "what": "key-type"}, "generated %s key for key_type=%s" % (k_.key_type, kty), where)
                if kty == "oct" and len(k_.raw_value) * 8 != arg:
                    ctx.violation({"kind": "size", "what": "oct-key"}, "generated oct key has %d octets for key_size=%r" % (len(k_.raw_value), arg), where)
                if kty == "RSA" and k_.raw_value.key_size != arg:
                    ctx.violation({"kind": "size", "what": "rsa-key"}, "generated RSA key has %d bits for key_size=%r" % (k_.raw_value.key_size, arg), where)
                if kty in ("EC", "OKP") and k_.curve_name != arg:
                    ctx.violation({"kind": "curve", "what": kty}, "generated %s key is on %s, requested %s" % (kty, k_.curve_name, arg), where)
                if kty != "oct" and bool(k_.is_private) != bool(private):
                    ctx.violation({"kind": "key-privacy"}, "generated %s key is_private=%s for private=%s" % (kty, k_.is_private, private), where)
                if not (kty == "oct" and isinstance(arg, int) and arg < 64):
                    # distinct from every key generated in this run (a second sighting inside the set was reported above)
                    if vk in seen["key"]:
                        if vks.count(vk) == 1:
                            check_unique("key", vk, where)
                    else:
                        seen["key"][vk] = where
        ctx.note_case(("entry", entry, kty, arg, private, count))
        cases.append("CGenSet %s %s %s %s %s %s %s %s" % (
            c_N(w0), c_N(native_min), genspec(kty, arg), c_bool(private), c_opt(k_expected, c_N),
            "None" if err is None else "(Some %s)" % c_exn(err),
            c_list("(%s, %s)" % (c_site(s_), c_N(n_)) for s_, n_ in shape), c_list(c_obs(o) for o in obs_l)))
        meta.append({"keyset": where["keyset"], "reps": 1, "impl": {"err": err, "draws": shape, "emitted": obs_l}})
        entry_stats["registry_cases" if k_expected is None else "set_cases"] += 1
        now = watch.snap()
        ch = watch.changed(state[0], now)
        if ch:
            ctx.violation({"kind": "state-leak"}, "%s(%s, %r) changed shared state: %s" % (entry, kty, arg, ", ".join(ch[:6])),
                          dict(where, changed=ch[:20]))
        state[0] = now

    targets = [("oct", 128), ("oct", 256), ("oct", 64), ("oct", 12), ("oct", -8)] + \
              [("EC", c) for c in EC_BITS] + [("EC", "P-999")] + [("OKP", c) for c in OKP_PUB_LEN] + [("OKP", "P-256")] + \
              [("RSA", 1024), ("RSA", 1000), ("RSA", 504), ("XYZ", 128), ("", "P-256")]
    single_entries = ["registry"] + (["module"] if hasattr(jwk_mod, "generate_key") else [])
    for kty, arg in targets:
        for private in (True, False):
            for e_ in single_entries:
                entry_case(e_, kty, arg, private)
            counts = [0, 1, 2, 3, 4, 5, None]
            if kty == "RSA":
                counts = [0, 1, 2, None] if ctx.quick else [0, 1, 2, 3, 5, None]
            for c_ in counts:
                if c_ is None:
                    entry_case("set-default", kty, arg, private)
                else:
                    entry_case("set", kty, arg, private, c_)
    entry_case("registry", "RSA", 2048, True)
    entry_case("set", "RSA", 2048, rng.random() < 0.5, 2)
    ctx.coverage["generator_entry_points"] = entry_stats
    dist["entry_point_cases"] = entry_stats["registry_cases"] + entry_stats["set_cases"]

    # ---------------- producing entry points of the public modules (fail closed) ----
    prod = scan_producers()
    untabled_p = sorted(set(prod) - set(PRODUCER_TABLE))
    stale_p = sorted(set(PRODUCER_TABLE) - set(prod))
    for q in untabled_p:
        ctx.violation({"kind": "untabled-producer"},
                      "%s can produce a JWE (or key material) but is not driven by the check" % q,
                      {"function": q, "no_failing_input_found": True, "broken": "harness PRODUCER_TABLE (fail closed)"})
    for q in stale_p:
        ctx.violation({"kind": "producer-table-stale"}, "%s of the check's table of producing entry points no longer exists" % q,
                      {"function": q, "no_failing_input_found": True, "broken": "harness PRODUCER_TABLE (fail closed)"})
    ctx.coverage["producing_entry_points"] = {"found": sorted(prod), "untabled": untabled_p, "stale": stale_p,
                                              "serialisations_driven": sorted({m_["config"]["ser"] for m_ in meta if "config" in m_}),
                                              "key_argument_forms": sorted({m_["config"].get("keys_via") for m_ in meta if "config" in m_})}

    # ---------------- cross-process ---------------------------------------
    # fresh interpreters (spawn) and forked children: every value they emit must differ from the other
    # processes' and from this process' values (catches import-time draws, seeded or per-process counters)
    per_proc = ctx.scale(6, 50)
    procs = [subprocess.Popen([lib.PY, "-c", CROSS_CODE % per_proc], env=lib.child_env(), stdout=subprocess.PIPE,
                              stderr=subprocess.PIPE, text=True) for _ in range(2)]
    outs = []
    for p_ in procs:
        so, se = p_.communicate(timeout=300)
        if p_.returncode != 0:
            ctx.violation({"kind": "harness-subprocess"}, "cross-process run failed: " + se[-300:],
                          {"no_failing_input_found": True, "broken": "harness"})
        else:
            outs.append(("spawn", json.loads(so)))
    for _ in range(2):
        rfd, wfd = os.pipe()
        pid = os.fork()
        if pid == 0:
            code_ = 1
            try:
                os.close(rfd)
                ns = {}
                exec(CROSS_CODE.replace("print(json.dumps(out))", "RESULT = out") % per_proc, ns)
                os.write(wfd, json.dumps(ns["RESULT"]).encode())
                code_ = 0
            finally:
                os._exit(code_)
        os.close(wfd)
        buf = b""
        while True:
            chunk = os.read(rfd, 65536)
            if not chunk:
                break
            buf += chunk
        os.close(rfd)
        _, st = os.waitpid(pid, 0)
        if st != 0 or not buf:
            ctx.violation({"kind": "harness-subprocess"}, "forked child failed (status %r)" % st,
                          {"no_failing_input_found": True, "broken": "harness"})
        else:
            outs.append(("fork", json.loads(buf)))
    own = {("iv", v.hex()) for v in seen["iv"]} | {("gcmiv", v.hex()) for v in seen["gcmiv"]} | \
          {("p2s", v.hex()) for v in seen["p2s"]} | {("cek", v.hex()) for v in seen["cek"]}
    allv = {}
    for pi, (how, vals_) in enumerate(outs):
        for kind_, hx in vals_:
            key_ = (kind_, hx)
            if key_ in allv or (kind_ in ("iv", "gcmiv", "p2s") and key_ in own):
                ctx.violation({"kind": "repeat", "what": "cross-process"},
                              "a %s value emitted in a %s process was already emitted by %s" % (
                                  kind_, how, "process %d" % allv[key_] if key_ in allv else "this process"),
                              {"what": kind_, "value": hx, "process": how, "code": CROSS_CODE % per_proc})
            allv[key_] = pi
    ctx.coverage["cross_process"] = {"processes": [h_ for h_, _ in outs], "values": sum(len(v_) for _, v_ in outs)}
    ctx.coverage["p2s_octets_drawn"] = sorted(p2s_sizes)
    ctx.coverage["recorded_not_demanded"] = [
        "caller-supplied p2s shorter than 8 octets accepted (%d cases)" % recorded["caller_p2s_short"]]
    ctx.coverage["bit_balance_classes"] = sorted(bit_classes)
    for need in ("iv", "cek", "p2s", "gcmiv", "oct-key"):
        if need not in bit_classes:
            ctx.violation({"kind": "harness-coverage"}, "the per-bit balance oracle was not fed with any %s samples" % need,
                          {"no_failing_input_found": True, "broken": "harness"})

    ctx.coverage["input_distribution"] = dist
    ctx.coverage["draws_logged"] = len(rec.log)
    ctx.coverage["bit_frequency_bounds"] = {"n": N, "allowed_ones": [bit_bounds(N, TOTAL_BITS[0]) + 1, N - bit_bounds(N, TOTAL_BITS[0]) - 1],
                                            "bits_tested_bound": TOTAL_BITS[0], "false_alarm_budget": 1e-11}
    ctx.coverage["rule"] = ("model = implementation on (outcome class, draw log (site,size), origin of every emitted value in the global draw log) "
                            "for every call; values pairwise distinct over the whole run; exact sizes; no fixed bits")
    for m in meta[:1] + meta[len(hist):len(hist) + 2] + meta[-2:]:
        ctx.sample(m)
    ctx.sample({"coq_case": cases[0][:400]})

    # ---------------- correspondence -------------------------------------
    ev = lib.CoqEval(["From Model Require Import Base TableTypes C18Model C18Cases.", "Open Scope string_scope.", "Open Scope list_scope."],
                     "c18case", "c18_check", "c18_show", shard=ctx.scale(150, 400))
    res = ev.run(cases)
    ctx.coverage["traces_validated_against_impl"] = res["evaluated"]
    ctx.coverage["disagreements_checked"] = len(res["failing"])
    direct = len(ctx.violations)
    for i in res["failing"][:20]:
        m = meta[i]
        what = m.get("config") or m.get("keyset") or {k: m[k] for k in ("keygen", "arg", "private")}
        if "reuse" in m:
            what = {"reuse": m["reuse"], "step": m["step"], "config": m["config"], "state_before_call": m["state_before_call"]}
        ctx.violation({"kind": "correspondence", "fn": "encrypt" if "config" in m else "generate_key"},
                      "draw discipline differs from the model for %s: implementation did %s" % (
                          json.dumps(what)[:300], json.dumps(m["impl"], default=str)[:400]),
                      {"case": cases[i], "input": what, "impl": m["impl"], "reps": m["reps"],
                       "reuse": m.get("reuse"), "config": m.get("config") if "reuse" in m else None,
                       "broken": "correspondence model/C18Cases.v:c18_check vs joserfc encrypt / generate_key",
                       "model_says": [s for s in res["shows"].values()][:1]})
    for si, err in res["errors"]:
        ctx.violation({"kind": "correspondence-error"}, "coqc failed on a generated case file",
                      {"output": err, "no_failing_input_found": True, "broken": "case evaluation"})
    if not ok:
        ctx.violation({"kind": "proof-broken"}, "props/C18.v or its closure no longer compiles (a table changed under a theorem?)",
                      {"log": log[-3000:], "no_failing_input_found": direct == 0 and not res["failing"],
                       "broken": "theorems of props/C18.v"})
    ctx.assumptions += [
        "secrets.token_bytes / the backend key generators are external: their output quality is a premise (c18_values_distinct), observed only statistically",
        "RSA-OAEP / RSA1_5 padding randomness and ECDSA-free paths inside the crypto backend are not draws of joserfc and are not modelled",
        "the CEK is recovered by decrypting with joserfc itself (hook on enc.decrypt), cross-checked by an independent AES key unwrap for A*KW",
        "call sites are identified by module + qualified function name of the caller of secrets.token_bytes",
    ]
    if not ctx.quick:
        ctx.coqchk()


TOTAL_BITS = [1]


def c_strlit(s):
    return '"%s"' % s.replace('"', '""')


def replay(path):
    r = json.load(open(path))
    rp = r["replay"]
    print("replay:", json.dumps(rp, default=str)[:1500])
    cfgj = rp.get("config") or (rp.get("input") if isinstance(rp.get("input"), dict) and "enc" in rp.get("input", {}) else None)
    from joserfc.rfc7516.registry import JWERegistry
    from joserfc.drafts.jwe_ecdh_1pu import register_ecdh_1pu
    from joserfc.drafts.jwe_chacha20 import register_chaha20_poly1305
    register_ecdh_1pu(); register_chaha20_poly1305()
    reg = JWERegistry(algorithms=list(JWERegistry.algorithms["alg"]) + list(JWERegistry.algorithms["enc"]) + ["DEF"])
    icp = Intercept(); icp.install()
    try:
        keys = Keys(); runner = Runner(icp, keys, reg)
        still = 0
        recorded = rp.get("impl")
        watch = StateWatch()
        snap0 = watch.snap()
        if rp.get("reuse") and cfgj:
            base = Config.from_js(cfgj)
            seen_iv = set()
            state = {"still": 0}

            def call(obj, specs, jk, step):
                from joserfc.rfc7516.models import CompactEncryption
                ser = "compact_obj" if isinstance(obj, CompactEncryption) else ("flat" if getattr(obj, "flattened", False) else "general")
                cfg = derive_cfg(base.enc, ser, obj, specs)
                w0 = len(icp.rec.log)
                res = runner.encrypt_obj(obj, jk)
                shape = [(s_, n_) for (s_, n_, _) in icp.rec.log[w0:]]
                if res[0] != "ok":
                    print(step, "draws", shape, "raised", repr(res[1]))
                    return None
                iv_obs, robs, vals = runner.observe(cfg, res[1], w0)
                print(step, "| draws", shape, "| iv", vals["iv"].hex(), iv_obs, "| recipients", robs)
                if iv_obs[0] != "draw" or vals["iv"] in seen_iv:
                    print("  IV is not a draw of this call / repeated"); state["still"] = 1
                seen_iv.add(vals["iv"])
                for r, o in zip(cfg.rcps, robs):
                    if o["gcm"][0] not in ("none", "draw") or (o["cek"][0] in ("stale", "unknown") and r.alg not in ("ECDH-ES", "ECDH-1PU")):
                        print("  stale GCM-KW iv / CEK"); state["still"] = 1
                    if o["epk"][0] not in ("none", "draw") and all(b.preset is None for b in base.rcps):
                        print("  epk of the previous encryption reused"); state["still"] = 1
                return res[1]
            for rc in base.rcps:
                keys.get(rc.key); keys.get((rc.key[0], rc.key[1], "other"))
                if rc.sender: keys.get(rc.sender)
                if rc.preset: runner.preset_key(rc.preset)
            keys.get(("oct", 256))
            run_reuse(runner, base, rp["reuse"], call)
            still = state["still"]
        elif cfgj:
            cfg = Config.from_js(cfgj)
            for rc in cfg.rcps:
                keys.get(rc.key)
                if rc.sender: keys.get(rc.sender)
                if rc.preset: runner.preset_key(rc.preset)
            seen_vals = set()
            for k in range(3):
                w0 = len(icp.rec.log)
                res = runner.encrypt(cfg)
                shape = [(s, n) for (s, n, _) in icp.rec.log[w0:]]
                if res[0] == "ok":
                    iv_obs, robs, vals = runner.observe(cfg, res[1], w0)
                    print("rep", k, "draws", shape, "iv", vals["iv"].hex(), iv_obs, "recipients", robs)
                    now = {"err": None, "draws": shape, "iv": iv_obs, "recipients": robs}
                    fresh = [("iv", vals["iv"])] + [("gcmiv", g) for g in vals["gcmiv"]] + [("p2s", x) for x in vals["p2s"]]
                    if not any(r.alg in ("dir", "ECDH-ES", "ECDH-1PU") for r in cfg.rcps):
                        fresh += [("cek", c) for c in {c for c, _ in vals["cek"]}]
                    fresh += [("epk", vk) for vk, _, r in vals["epk"] if r.preset is None]
                    for item in fresh:
                        if item in seen_vals:
                            print("  REPEATED", item[0]); still = 1
                        seen_vals.add(item)
                    if iv_obs[0] != "draw" or len(vals["iv"]) != RFC_SIZES.get(cfg.enc, (len(vals["iv"]),))[0]:
                        still = 1
                    if any(isinstance(c, int) and c < 1000 for c in vals["p2c"]):
                        still = 1
                else:
                    print("rep", k, "draws", shape, "raised", repr(res[1]))
                    now = {"err": exn_class(res[1]), "draws": shape, "iv": ("none",), "recipients": []}
                if recorded is not None and json.loads(json.dumps(now, default=str)) == json.loads(json.dumps(recorded, default=str)):
                    print("  behaves as recorded (disagrees with the model)"); still = 1
        elif "keyset" in rp or (isinstance(rp.get("input"), dict) and "entry" in rp["input"]):
            g = rp["keyset"] if "keyset" in rp else rp["input"]
            from joserfc.jwk import JWKRegistry, KeySet
            try:
                if g["entry"] in ("registry", "module"):
                    got = [JWKRegistry.generate_key(g["kty"], g["arg"], None, g["private"])]
                elif g["entry"] == "set-default":
                    got = list(KeySet.generate_key_set(g["kty"], g["arg"], private=g["private"]).keys)
                else:
                    got = list(KeySet.generate_key_set(g["kty"], g["arg"], None, g["private"], g["count"]).keys)
                vks = [key_vk(k_) for k_ in got]
                print("draws", [(s_, n_) for (s_, n_, _) in icp.rec.log], "| keys", len(got), "| distinct objects", len({id(k_) for k_ in got}),
                      "| distinct material", len(set(vks)), "| kids", [k_.kid for k_ in got])
                if len({id(k_) for k_ in got}) != len(got) or len(set(vks)) != len(vks) or len(icp.rec.log) != len(got):
                    still = 1
                if recorded is not None and recorded.get("err") is not None:
                    still = 0
            except Exception as e:
                print("draws", [(s_, n_) for (s_, n_, _) in icp.rec.log], "raised", repr(e))
                if recorded is not None and recorded.get("err") == exn_class(e):
                    still = 1
        elif "keygen" in rp or (isinstance(rp.get("input"), dict) and "keygen" in rp["input"]):
            g = rp if "keygen" in rp else rp["input"]
            from joserfc.jwk import OctKey, RSAKey, ECKey, OKPKey
            for k in range(3):
                w0 = len(icp.rec.log)
                try:
                    key = {"oct": lambda: OctKey.generate_key(g["arg"], private=g.get("private", True)),
                           "RSA": lambda: RSAKey.generate_key(g["arg"]), "EC": lambda: ECKey.generate_key(g["arg"]),
                           "OKP": lambda: OKPKey.generate_key(g["arg"])}[g["keygen"]]()
                    shape = [(s, n) for (s, n, _) in icp.rec.log[w0:]]
                    print("rep", k, "draws", shape, key.as_dict(private=True))
                    now_err = None
                except Exception as e:
                    shape = [(s, n) for (s, n, _) in icp.rec.log[w0:]]
                    print("rep", k, "draws", shape, "raised", repr(e))
                    now_err = exn_class(e)
                if recorded is not None and now_err == recorded.get("err") and json.loads(json.dumps(shape)) == json.loads(json.dumps(recorded.get("draws"))):
                    print("  behaves as recorded (disagrees with the model)"); still = 1
        else:
            still = 1
        ch = watch.changed(snap0, watch.snap())
        if ch:
            print("  SHARED STATE CHANGED:", ch[:10]); still = 1
    finally:
        icp.uninstall()
    print("still failing" if still else "not reproduced on this tree")
    return still
