"""C04 — JWE encrypt-then-decrypt round trip for every alg, enc, zip and serialization.

Round trips of the IMPLEMENTATION over the cross product (quick: covering subset),
plaintext classes, AAD / apu / apv, 1-4 recipients of mixed algorithms, kid with
KeySet keys; forbidden combinations must be refused at encryption time.  Every
encrypt run and every decrypt run is also replayed in the Gallina model
(coq/model/JweCases.v) with the recorded primitive calls as oracle table and the
recorded random draws / ephemeral keys as inputs: the model must produce the
same token octet for octet and the same plaintext."""
import copy, json
import lib
from props import jwe_common as J


def added_members(alg, given):
    if J.is_agreement(alg):
        add = {"epk"}
    elif alg in J.GCMKW_ALGS:
        add = {"iv", "tag"}
    elif alg in J.PBES2_ALGS:
        add = {"p2s", "p2c"}
    else:
        add = set()
    return {m for m in add if m not in given}


def run(ctx):
    J.install()
    ok, log = ctx.prove()
    rng = ctx.rng
    K = J.Keys(rng)
    from joserfc import jwe
    from joserfc.jwk import KeySet
    cases, meta = [], []
    dist = {}
    skipped = {"nondet": 0, "large": 0}

    def bump(k):
        dist[k] = dist.get(k, 0) + 1

    def add_case(term_fn, logx, nondet, m):
        if nondet:
            skipped["nondet"] += 1
            return
        if J.table_chars(logx) > 40000:
            skipped["large"] += 1
            return
        cases.append(term_fn())
        meta.append(m)

    def spec_replay(spec):
        return {"ser": spec["ser"], "protected": spec["protected"], "unprotected": spec["unprotected"],
                "recips": [[h, J.key_jwk(k)] for h, k in spec["recips"]], "sender": J.key_jwk(spec["sender"]),
                "aad_hex": None if spec["aad"] is None else spec["aad"].hex(),
                "plaintext_hex": spec["plaintext"].hex() if len(spec["plaintext"]) < 4096 else None,
                "plaintext_len": len(spec["plaintext"])}

    def roundtrip(spec, label, coq=True):
        ctx.note_case(("rt", label, spec["ser"], len(spec["plaintext"])))
        bump("rt-" + spec["ser"])
        sig = {"algs": "+".join(spec["algs"]), "enc": spec["enc"], "ser": spec["ser"]}
        obs, info = J.encrypt_spec(spec)
        if obs[0] != "ok":
            ctx.violation(dict(sig, kind="encrypt-failed"),
                          "encrypting a permitted combination failed (%s): %s" % (label, obs[1]), spec_replay(spec))
            return None
        if coq:
            add_case(lambda: J.case_enc(obs, info), info["log"], info["nondet"], ("enc", label))
        token = J.token_of(obs)
        keys = [k for _, k in info["recips"]]
        o2, (dlog, nondet) = J.do_decrypt(J.dec_ser(spec["ser"]), token, keys, sender=spec["sender"])
        if o2[0] != "ok":
            ctx.violation(dict(sig, kind="roundtrip-decrypt-failed"),
                          "decrypt(encrypt(x)) failed (%s): %s" % (label, o2[1]), spec_replay(spec))
            return None
        if coq:
            add_case(lambda: J.case_dec(J.dec_ser(spec["ser"]), token, keys, spec["sender"], True, o2, dlog),
                     dlog, nondet, ("dec", label))
        if o2[1] != spec["plaintext"]:
            ctx.violation(dict(sig, kind="roundtrip-plaintext"),
                          "decrypt(encrypt(x)) returned other octets (%s): |x|=%d, got %d octets" % (
                              label, len(spec["plaintext"]), len(o2[1])), spec_replay(spec))
        # headers: the given ones plus exactly the members the algorithm adds, where add_header puts them
        obj = o2[3]
        problems = []
        if spec["ser"] == "compact":
            alg = spec["algs"][0]
            given = spec["protected"]
            want_keys = set(given) | added_members(alg, given)
            if set(obj.protected) != want_keys or any(obj.protected[k] != v for k, v in given.items()):
                problems.append("protected header %r vs given %r (+%s)" % (obj.protected, given, sorted(added_members(alg, given))))
        else:
            if obj.protected != spec["protected"]:
                problems.append("protected header changed: %r vs %r" % (obj.protected, spec["protected"]))
            if (obj.unprotected or None) != (spec["unprotected"] or None):
                problems.append("unprotected header changed: %r vs %r" % (obj.unprotected, spec["unprotected"]))
            eff = spec["recips"] if spec["ser"] == "general" else spec["recips"][-1:]
            if len(obj.recipients) != len(eff):
                problems.append("recipient count %d vs %d" % (len(obj.recipients), len(eff)))
            for (h, _), alg, r in zip(eff, spec["algs"] if spec["ser"] == "general" else spec["algs"][-1:], obj.recipients):
                given = h or {}
                merged = J.merged_headers(spec["ser"], spec["protected"], spec["unprotected"], given)
                want_keys = set(given) | added_members(alg, merged)
                got = r.header or {}
                if set(got) != want_keys or any(got[k] != v for k, v in given.items()):
                    problems.append("recipient header %r vs given %r (+%s)" % (got, given, sorted(added_members(alg, merged))))
        for p in problems:
            ctx.violation(dict(sig, kind="roundtrip-headers"), "header members not preserved (%s): %s" % (label, p), spec_replay(spec))
        return obs

    # ------------------------------------------------------------------ cross product
    sers = ["compact", "flat", "general"]
    pairs = [(a, e) for a in J.ALL_ALGS for e in J.ALL_ENCS if J.valid_combo(a, e)]
    combos = []
    if ctx.quick:
        i = 0
        for (a, e) in pairs:                       # every alg x enc once
            combos.append((a, e, sers[i % 3], i % 2 == 1, J.ALL_CURVES[i % 6])); i += 1
        for a in J.ES_ALGS + J.PU_ALGS:            # every agreement alg x curve
            for c in J.ALL_CURVES:
                e = rng.choice(J.CBC_ENCS)
                combos.append((a, e, sers[i % 3], i % 2 == 1, c)); i += 1
        for a in J.ALL_ALGS:                       # every alg x serialization x zip
            for s in sers:
                e = rng.choice([x for x in J.ALL_ENCS if J.valid_combo(a, x)])
                combos.append((a, e, s, i % 2 == 0, J.ALL_CURVES[i % 6])); i += 1
    else:
        for (a, e) in pairs:
            for s in sers:
                for z in (False, True):
                    for c in (J.ALL_CURVES if J.is_agreement(a) else ["P-256"]):
                        combos.append((a, e, s, z, c))
    seen = set()
    for n, (a, e, s, z, c) in enumerate(combos):
        key = (a, e, s, z, c if J.is_agreement(a) else "-")
        if key in seen:
            continue
        seen.add(key)
        pt = bytes(rng.randrange(256) for _ in range(rng.choice([0, 1, 15, 16, 17, 31, 32, 33, 64])))
        aad = None if (s == "compact" or n % 2) else bytes(rng.randrange(256) for _ in range(rng.choice([1, 7, 32])))
        spec = J.make_spec(K, rng, s, [a], e, crv=c, zip_=z, plaintext=pt, aad=aad,
                           apu=rng.choice([None, b"Alice", bytes(range(20)), b"\xfb\xef\xbe\xff\xff\xf8", bytes(rng.getrandbits(8) for _ in range(32))]),
                           apv=rng.choice([None, b"Bob", b"", b"\xfc", b"\xff\xfb" + bytes(rng.getrandbits(8) for _ in range(20))]),
                           alg_in=rng.choice(["auto", "protected"]),
                           unprotected=rng.choice([None, {"jku": "https://example.com/keys"}]) if s != "compact" else None,
                           p2c=rng.choice(["small", "small", "default"]) if a in J.PBES2_ALGS and not ctx.quick else "small")
        roundtrip(spec, "%s/%s/%s/%s%s" % (a, e, s, c if J.is_agreement(a) else "-", "/DEF" if z else ""))
    # PBES2 with the default count and a caller-given salt input
    for a in J.PBES2_ALGS:
        spec = J.make_spec(K, rng, "compact", [a], "A128GCM", plaintext=b"pbes2 default", p2c="default")
        roundtrip(spec, "%s/default-p2c" % a)
        spec = J.make_spec(K, rng, "flat", [a], "A128GCM", plaintext=b"pbes2 given salt")
        spec["recips"][0][0]["p2s"] = J.b64e(b"0123456789abcdef")
        roundtrip(spec, "%s/given-p2s" % a)

    # ------------------------------------------------------------------ plaintext classes
    classes = [("empty", b""), ("15", bytes(range(15))), ("16", bytes(range(16))), ("17", bytes(range(17))),
               ("binary", bytes(range(256)) * 2), ("zeros", bytes(64)), ("utf8", "héllo wörld ☃".encode())]
    for name, pt in classes:
        for e in (J.ALL_ENCS if not ctx.quick else ["A128CBC-HS256", "A256CBC-HS512", "A192GCM", "XC20P"]):
            for z in (False, True):
                a = rng.choice(["dir", "A128KW", "ECDH-ES"]) if e != "A192GCM" else "dir"
                s = rng.choice(sers)
                spec = J.make_spec(K, rng, s, [a], e, crv=rng.choice(J.ALL_CURVES), zip_=z, plaintext=pt)
                roundtrip(spec, "plaintext:%s/%s/%s%s" % (name, e, s, "/DEF" if z else ""))
    # the decompression limit: exactly 256000 and 255999 octets with DEF (implementation only: tables too large)
    for n in (255999, 256000):
        for kind in ("compressible", "random"):
            pt = (b"ab" * (n // 2 + 1))[:n] if kind == "compressible" else bytes(rng.getrandbits(8) for _ in range(n))
            e = "A128CBC-HS256" if kind == "compressible" else "A256GCM"
            spec = J.make_spec(K, rng, "compact" if n % 2 else "flat", ["dir"], e, zip_=True, plaintext=pt)
            roundtrip(spec, "plaintext:%d-%s/DEF" % (n, kind), coq=False)
            bump("limit")

    # ------------------------------------------------------------------ 1-4 recipients, mixed algorithms
    multi_algs = [a for a in J.ALL_ALGS if a not in J.DIRECT_ALGS]
    for i in range(ctx.scale(30, 600)):
        n = 1 + i % 4
        e = rng.choice(J.CBC_ENCS if i % 2 == 0 else J.ALL_ENCS)
        algs = []
        for j in range(n):
            a = rng.choice([x for x in multi_algs if J.valid_combo(x, e)])
            if a in J.RSA_ALGS and any(x in J.RSA_ALGS for x in algs):
                a = "A256KW"           # one RSA key: two RSA recipients would ask the randomized primitive twice
            algs.append(a)
        spec = J.make_spec(K, rng, "general", algs, e, crv=rng.choice(J.ALL_CURVES), zip_=(i % 3 == 0),
                           plaintext=bytes(rng.randrange(256) for _ in range(rng.choice([0, 16, 50]))),
                           aad=b"shared aad" if i % 2 else None, apu=b"A" if i % 4 == 0 else None,
                           unprotected={"cty": "text/plain"} if i % 5 == 0 else None)
        roundtrip(spec, "multi%d:%s/%s" % (n, "+".join(algs), e))
        bump("multi-%d" % n)

    # ------------------------------------------------------------------ merge order protected < unprotected < recipient header
    for ser in ("flat", "general"):
        for enc in ("A128GCM", "A128CBC-HS256"):
            k256 = K.for_alg("A256KW", enc)
            for prot, unprot, hdr in (
                    ({"enc": enc, "cty": "p"}, {"alg": "A128KW", "cty": "u"}, {"alg": "A256KW", "cty": "r"}),
                    ({"enc": enc, "alg": "A128KW"}, {"alg": "A256KW"}, {"cty": "r"}),
                    ({"enc": enc, "alg": "A128KW"}, None, {"alg": "A256KW"}),
                    ({"enc": enc, "alg": "A192KW"}, {"alg": "A128KW"}, {"alg": "A256KW"})):
                spec = {"ser": ser, "protected": prot, "unprotected": unprot, "recips": [(hdr, k256)], "sender": None,
                        "aad": None, "plaintext": b"merge order", "algs": ["A256KW"], "enc": enc, "crv": "P-256"}
                roundtrip(spec, "merge-order/%s/%s" % (ser, enc))
                bump("merge-order")

    # ------------------------------------------------------------------ kid + KeySet (implementation level)
    def keyset_rt(ser, where, algs, enc):
        ks_keys, recips = [], []
        protected, unprotected = {"enc": enc}, None
        for j, a in enumerate(algs):
            base = K.for_alg(a, enc, "P-256")
            d = base.as_dict(private=True)
            d["kid"] = "k%d" % j
            from joserfc.jwk import JWKRegistry
            k = JWKRegistry.import_key(d)
            ks_keys.append(k)
            h = {"alg": a}
            if a in J.PBES2_ALGS:
                h["p2c"] = 4
            if where == "recipient" or len(algs) > 1:
                h["kid"] = "k%d" % j
            elif where == "protected":
                protected["kid"] = "k%d" % j
            else:
                unprotected = {"kid": "k%d" % j}
            recips.append(h)
        decoys = [K.for_alg(a, enc, "P-256", "alt") for a in algs]
        kset = KeySet(decoys[:1] + ks_keys + decoys[1:])
        reg = J.registry()
        cls = jwe.FlattenedJSONEncryption if ser == "flat" else jwe.GeneralJSONEncryption
        pt = b"keyset %s %s" % (ser.encode(), where.encode())
        ctx.note_case(("keyset", ser, where, tuple(algs), enc))
        bump("keyset-" + where)
        try:
            obj = cls(copy.deepcopy(protected), pt, copy.deepcopy(unprotected))
            for h in recips:
                obj.add_recipient(copy.deepcopy(h))
            tok = jwe.encrypt_json(obj, kset, registry=reg)
            kobs, (klog, knd) = J.do_decrypt_k("json", tok, kset)
            if not knd and J.table_chars(klog) < 40000:      # decryption with KeySet resolution replayed in the model
                cases.append(J.case_dec_k("json", tok, kset, None, True, kobs, klog))
                meta.append(("keyset-dec", "%s/%s/%s" % (ser, where, "+".join(algs))))
            if kobs[0] != "ok":
                raise kobs[2]
            out = kobs[3]
            good = out.plaintext == pt and [r.header.get("kid") if r.header else None for r in out.recipients] == \
                [h.get("kid") for h in recips] and out.protected == protected and (out.unprotected or None) == unprotected
            errtxt = "plaintext/headers differ"
        except Exception as e:  # noqa
            good, errtxt = False, "%s: %s" % (type(e).__name__, e)
        if not good:
            ctx.violation({"kind": "keyset-roundtrip", "where": where, "ser": ser, "algs": "+".join(algs)},
                          "round trip with KeySet keys selected by kid in the %s header failed: %s" % (where, errtxt),
                          {"ser": ser, "where": where, "algs": algs, "enc": enc})

    for ser in ("flat", "general"):
        for where in ("protected", "unprotected", "recipient"):
            for a in (["A128KW", "RSA-OAEP", "ECDH-ES+A128KW", "A256GCMKW", "PBES2-HS256+A128KW"] if ctx.quick else [x for x in multi_algs if x not in J.PU_ALGS]):
                keyset_rt(ser, where, [a], "A128CBC-HS256")
    for i in range(ctx.scale(4, 40)):
        keyset_rt("general", "recipient", [rng.choice(["A128KW", "A256KW", "ECDH-ES+A256KW", "A128GCMKW"]) for _ in range(2 + i % 3)], "A256GCM")

    # ------------------------------------------------------------------ forbidden combinations are REFUSED
    def refused(spec, label, want):
        ctx.note_case(("refuse", label))
        bump("refused-" + want)
        obs, info = J.encrypt_spec(spec)
        sig = {"kind": "forbidden-combination-accepted", "algs": "+".join(spec["algs"]), "enc": spec["enc"], "ser": spec["ser"]}
        if obs[0] == "ok":
            ctx.violation(sig, "encryption of a forbidden combination produced a token (%s)" % label, spec_replay(spec))
        elif obs[1] != "EJose " + want:
            ctx.violation(dict(sig, kind="forbidden-combination-error-class"),
                          "forbidden combination refused with %s instead of %s (%s)" % (obs[1], want, label), spec_replay(spec))
        add_case(lambda: J.case_enc(obs, info), info["log"], info["nondet"], ("refuse", label))

    others = ["A128KW", "RSA-OAEP", "ECDH-ES+A128KW", "A128GCMKW", "PBES2-HS256+A128KW", "ECDH-1PU+A128KW"]
    for d in J.DIRECT_ALGS:
        partners = others + J.DIRECT_ALGS if not ctx.quick else others[:3] + J.DIRECT_ALGS
        for o in partners:
            for order in ([d, o], [o, d], [o, d, o], [o, o, d], [d, o, o]):
                if ctx.quick and len(order) == 3 and o not in ("A128KW", d):
                    continue
                algs = [a if not (a in J.RSA_ALGS and j > 0 and order[0] in J.RSA_ALGS) else "A256KW" for j, a in enumerate(order)]
                for crv in (["P-256", "X25519"] if d != "dir" and not ctx.quick else ["P-256"]):
                    enc = "A128CBC-HS256"
                    spec = J.make_spec(K, rng, "general", algs, enc, crv=crv, plaintext=b"never sent")
                    refused(spec, "direct:%s" % "+".join(algs), "ConflictAlgorithmError")
    for a in J.PU_ALGS[1:]:
        for e in J.GCM_ENCS + J.CC_ENCS:
            for s in sers:
                spec = J.make_spec(K, rng, s, [a], e, crv=rng.choice(J.ALL_CURVES), plaintext=b"never sent")
                refused(spec, "1pu-kw:%s/%s/%s" % (a, e, s), "InvalidEncryptionAlgorithmError")
        spec = J.make_spec(K, rng, "general", ["A128KW", a], "A128GCM", plaintext=b"never sent")
        refused(spec, "1pu-kw:second-recipient:%s" % a, "InvalidEncryptionAlgorithmError")

    # ------------------------------------------------------------------ several recipients, the reader holds ONE key
    # verify_all_recipients=False: every recipient's holder, using only its own key for all entries, must get the plaintext;
    # the foreign entries fail with whatever error class their algorithm raises for a key that is not theirs
    def single_key_mix(label, enc, entries, lenient=False):
        """entries: [(alg, key)]; lenient: an entry may abort the whole decryption on HEAD (EC key on an OKP epk and
        vice versa raises a plain ValueError from the JWK import, which the loop does not skip)"""
        recips = [(J.recipient_header(rng, a), k) for a, k in entries]
        pt = b"one key among many: " + label.encode()
        obs, info = J.do_encrypt("general", {"enc": enc}, pt, recips)
        if obs[0] != "ok":
            ctx.violation({"kind": "encrypt-failed", "algs": label, "enc": enc}, "encrypt failed (%s): %s" % (label, obs[1]), {"label": label})
            return
        tok = J.token_of(obs)
        for i, (a, k) in enumerate(entries):
            keys = [k] * len(entries)
            o2, (dlog, nd) = J.do_decrypt("json", tok, keys, verify_all=False)
            ctx.note_case(("single-key", label, i))
            bump("single-key-any-recipient")
            if not nd and J.table_chars(dlog) < 40000:
                cases.append(J.case_dec("json", tok, keys, None, False, o2, dlog)); meta.append(("single-key", "%s@%d" % (label, i)))
            if o2[0] == "ok" and o2[1] != pt:
                ctx.violation({"kind": "roundtrip-plaintext", "algs": label, "enc": enc, "ser": "general"},
                              "other plaintext for the holder of recipient %d (%s)" % (i, label), {"label": label, "token": tok})
            if o2[0] != "ok" and not lenient:
                ctx.violation({"kind": "single-key-holder-rejected", "algs": label, "enc": enc, "error": o2[1]},
                              "with verify_all_recipients=False the holder of recipient %d's key cannot open a token for recipients "
                              "%s: %s" % (i, label, o2[1]),
                              {"label": label, "token": tok, "key": J.key_jwk(k), "index": i})

    o = K.oct
    mixes = [
        ("A128KW+A192KW+A256KW", "A128CBC-HS256", [("A128KW", o[128]), ("A192KW", o[192]), ("A256KW", o[256])], False),
        ("A128GCMKW+A256GCMKW+A128KW", "A256GCM", [("A128GCMKW", o[128]), ("A256GCMKW", o[256]), ("A128KW", K.oct_alt[128])], False),
        ("ES-P256+ES-P384+ES-P521", "A128GCM", [("ECDH-ES+A128KW", K.ec["P-256"]), ("ECDH-ES+A128KW", K.ec["P-384"]), ("ECDH-ES+A256KW", K.ec["P-521"])], False),
        ("ES-X25519+ES-X448", "A128CBC-HS256", [("ECDH-ES+A128KW", K.okp["X25519"]), ("ECDH-ES+A192KW", K.okp["X448"])], False),
        ("RSA+A128KW+ES-P256+PBES2", "A256CBC-HS512", [("RSA-OAEP", K.rsa), ("A128KW", o[128]), ("ECDH-ES+A256KW", K.ec["P-256"]),
                                                       ("PBES2-HS256+A128KW", K.oct_alt[192])], False),
        ("A256KW+A192GCMKW+RSA1_5", "XC20P", [("A256KW", o[256]), ("A192GCMKW", o[192]), ("RSA1_5", K.rsa)], False),
        ("ES-P256+ES-X25519", "A128GCM", [("ECDH-ES+A128KW", K.ec["P-256"]), ("ECDH-ES+A128KW", K.okp["X25519"])], True),
        ("ES-secp256k1+A128KW+ES-P256", "C20P", [("ECDH-ES+A128KW", K.ec["secp256k1"]), ("A128KW", o[128]), ("ECDH-ES+A128KW", K.ec["P-256"])], False),
    ]
    for label, enc, entries, lenient in mixes:
        single_key_mix(label, enc, entries, lenient)

    # falsy-but-valid values of every optional input (aad b"", plaintext b"", {} headers, "" apu / apv / kid / p2s)
    J.falsy_checks(ctx, K, rng, cases, meta, bump)

    # operation sequences on message objects: one object encrypted several times with header edits in between
    J.sequence_checks(ctx, K, rng, cases, meta, bump, pid="C04")

    # an RSA key below 2048 bits is refused at encryption time (RFC 7518 4.2 / 4.3)
    try:
        from cryptography.hazmat.primitives.asymmetric import rsa as _rsa
        from joserfc.jwk import RSAKey
        small = RSAKey.import_key(_rsa.generate_private_key(65537, 1024).private_numbers().private_key().private_bytes(
            __import__("cryptography").hazmat.primitives.serialization.Encoding.PEM,
            __import__("cryptography").hazmat.primitives.serialization.PrivateFormat.PKCS8,
            __import__("cryptography").hazmat.primitives.serialization.NoEncryption()))
    except Exception:  # noqa
        small = None
    if small is not None:
        for a in J.RSA_ALGS:
            for s_ in sers:
                spec = J.make_spec(K, rng, s_, [a], "A128GCM", plaintext=b"never sent")
                spec["recips"] = [(h, small) for h, _ in spec["recips"]]
                refused(spec, "rsa-1024:%s/%s" % (a, s_), "InvalidKeyLengthError")

    ctx.coverage["input_distribution"] = dist
    ctx.coverage["rule"] = ("decrypt(encrypt(x)) = x, headers = given + exactly the algorithm's members in add_header's position; "
                            "forbidden combinations raise at encryption time; model(encrypt) == token and model(decrypt) == plaintext "
                            "with recorded primitive answers and recorded draws")
    ctx.coverage["skipped_nondeterministic"] = skipped["nondet"]
    ctx.coverage["skipped_large_tables"] = skipped["large"]
    if cases:
        ctx.sample({"coq_case": cases[0][:300]})

    res = J.coq_eval(cases, jobs=10 if ctx.quick else 14)
    ctx.coverage["traces_validated_against_impl"] = res["evaluated"]
    ctx.coverage["disagreements_checked"] = len(res["failing"])
    direct = len(ctx.violations)
    for i in res["failing"][:20]:
        ctx.violation({"kind": "correspondence", "what": meta[i][0]},
                      "model and implementation disagree on %r" % (meta[i],),
                      {"case": cases[i][:20000], "no_failing_input_found": direct == 0,
                       "broken": "correspondence model/JweCases.v:jwe_check vs joserfc.jwe encrypt/decrypt"})
    for si, e in res["errors"][:5]:
        ctx.violation({"kind": "correspondence-error"}, "coqc failed on a generated case file",
                      {"output": e, "no_failing_input_found": True, "broken": "case evaluation"})
    if not ok:
        ctx.violation({"kind": "proof-broken"}, "props/C04.v or its closure no longer compiles",
                      {"log": log[-3000:], "no_failing_input_found": direct == 0 and not res["failing"],
                       "broken": "theorems of props/C04.v"})
    ctx.assumptions += [
        "round-trip theorems assume the inverse-pair contracts of the primitives (record `contracts` in proofs/C04Proofs.v): "
        "CBC, GCM, ChaCha, AES-KW, RSA enc/dec, ECDH symmetry, inflate after deflate",
        "the composition of the message-layer theorem with the per-family key-layer theorems is not carried out in Coq "
        "(c04_*_rt_partial keep `the recipients yield the CEK` as a premise)",
        "KeySet / kid resolution is exercised on the implementation only (C14 owns its model)",
    ]
    if not ctx.quick:
        ctx.coqchk()


def replay(path):
    J.install()
    r = json.load(open(path))["replay"]
    print("replay:", {k: str(v)[:160] for k, v in r.items()})
    if "recips" not in r or r.get("plaintext_hex") is None:
        print("no direct input in this replay; see the file")
        return 1
    recips = [(h, J.key_from_jwk(k)) for h, k in r["recips"]]
    sender = J.key_from_jwk(r["sender"])
    pt = bytes.fromhex(r["plaintext_hex"])
    aad = None if r["aad_hex"] is None else bytes.fromhex(r["aad_hex"])
    obs, info = J.do_encrypt(r["ser"], r["protected"], pt, recips, unprotected=r["unprotected"], aad=aad, sender=sender)
    print("encrypt:", obs[:2] if obs[0] == "err" else "ok")
    if obs[0] != "ok":
        return 1
    o2, _ = J.do_decrypt(J.dec_ser(r["ser"]), J.token_of(obs), [k for _, k in info["recips"]], sender=sender)
    print("decrypt:", o2[:2])
    return 0 if (o2[0] == "ok" and o2[1] == pt) else 1
