"""C01 — JWS verification returns only authentically signed content.
Valid tokens for every algorithm / serialization / b64 option / header
placement / payload / key form are produced with joserfc itself, then the
FAULT STREAM is applied to every token; each verification runs on the real
code with the algorithm models and json intercepted (jws_common.Recorder):
 - direct oracle: a tampered token must be rejected with an error; an accepted
   token must return the payload / protected header of an issued token;
 - correspondence: the same call evaluated by the Coq model (model/Jws.v) with
   the oracles instantiated by the recorded tables (vm_compute)."""
import copy, json
import lib
from lib import c_hex, c_str, c_bool, c_list, c_opt, c_pv, c_exn, exn_class
import props.jws_common as J
from props.jws_common import call, b64u, b64u_dec
import props.c07_ref as REF

PAYLOADS = [b"", b"hello", bytes([0, 255, 128, 46, 10, 200, 201]), "héllo wörld 中".encode(), b"a.b.c",
            b"url-safe_~09", b"not url safe!"]
SIG_B64 = {"kind": "unprotected-b64-honoured", "protected_header": "present"}
SIG_B64_RESIDUAL = {"kind": "unprotected-b64-honoured", "protected_header": "absent"}


def detect_fixed():
    """Is the rfc7797 JSON verifier the fix01 variant (refuses b64 in the
    unprotected header next to a protected header)?  Probed with the witness."""
    from joserfc import jws
    from joserfc.rfc7797 import deserialize_json
    k = J.keys()["oct32"]
    tok = jws.serialize_json({"protected": {"alg": "HS256"}}, b"hello", k)
    t2 = dict(tok)
    t2["header"] = {"b64": False, "crit": ["b64"]}
    r = call(deserialize_json, t2, k)
    if r[0] == "ok":
        if r[1].payload == tok["payload"].encode():
            return False, t2
        raise RuntimeError("unexpected behaviour of the b64 probe: %r" % (r[1].payload,))
    if isinstance(r[1], ValueError):
        return True, t2
    raise RuntimeError("unexpected behaviour of the b64 probe: %r" % (r[1],))


class Run:
    def __init__(self, ctx, rec, fixed):
        self.ctx, self.rec, self.fixed = ctx, rec, fixed
        self.cases, self.meta = [], []
        self.dist = {}
        self.K = J.keys()
        self.coq_budget = ctx.scale(1300, 40000)
        self.forced = []

    def note(self, kind):
        self.dist[kind] = self.dist.get(kind, 0) + 1

    def add(self, term, meta, force=False):
        (self.forced if force else self.cases).append((term, meta))

    def select(self):
        """stratified sample of the recorded cases (per fault kind), within the Coq budget"""
        groups = {}
        for term, meta in self.cases:
            groups.setdefault((meta.get("fn"), str(meta.get("what", "")).split(":")[0]), []).append((term, meta))
        per = max(3, self.coq_budget // max(1, len(groups)))
        out = list(self.forced)
        for k in sorted(groups):
            g = groups[k]
            out += g if len(g) <= per else self.ctx.rng.sample(g, per)
        return [t for t, m in out], [m for t, m in out]

    # ---- one verification of a compact token on implementation + model case
    def des_compact(self, tok, key, algs, must_reject, orig, what, rfc7797=False, payload_arg=None, coq=True):
        """tok: bytes; orig: (protected dict, payload) of the issued token or None"""
        from joserfc import jws
        from joserfc import rfc7797 as r97
        self.rec.take()
        keyobj = key(None) if callable(key) else key
        if rfc7797:
            r = call(r97.deserialize_compact, tok, key, payload_arg, algs)
        else:
            r = call(jws.deserialize_compact, tok, key, algs)
        rows, calls = self.rec.take()
        arg_is_str = isinstance(payload_arg, str)
        if arg_is_str:
            payload_arg = payload_arg.encode("utf-8")       # to_bytes(str): the model takes the octets
        self.ctx.note_case(("dc", tok, J.key_id(keyobj) if hasattr(keyobj, "thumbprint") else 0, rfc7797, payload_arg, arg_is_str))
        self.note(("compact97:" if rfc7797 else "compact:") + what.split(":")[0])
        replay = {"fn": "rfc7797.deserialize_compact" if rfc7797 else "jws.deserialize_compact",
                  "token": tok.decode("latin1"), "key": keyobj.as_dict() if hasattr(keyobj, "as_dict") else repr(keyobj),
                  "algorithms": algs, "payload_arg": payload_arg.decode("latin1") if payload_arg is not None else None,
                  "payload_arg_is_str": arg_is_str}
        self.oracle(r, must_reject, orig, what, replay, lambda o: (o.protected, o.payload))
        if r[0] == "ok":
            # whatever .payload is returned must be octets the signature covers
            hs, ps, ss = tok.split(b".")
            try:
                hdr = json.loads(b64u_dec(hs))
            except Exception:
                hdr = {}
            unenc = rfc7797 and isinstance(hdr, dict) and hdr.get("b64") is False
            si = hs + b"." + (r[1].payload if unenc else b64u(r[1].payload))
            self.covered([si], calls, keyobj, [(hdr, ss)], what, replay, 1)
        if coq:
            if rfc7797:
                term = "JDesCompact97 %s %s %s %s %s %s" % (J.c_table(rows), c_hex(tok), J.c_keysrc(keyobj),
                                                          c_opt(payload_arg, c_hex), J.c_algs(algs), J.c_compact_result(r))
            else:
                term = "JDesCompact %s %s %s %s %s" % (J.c_table(rows), c_hex(tok), J.c_keysrc(keyobj), J.c_algs(algs),
                                                       J.c_compact_result(r))
            self.add(term, {"fn": "deserialize_compact97" if rfc7797 else "deserialize_compact", "what": what,
                            "token": tok.decode("latin1")[:300], "impl": repr(r[1])[:120]})
        return r

    def des_json(self, val, key, algs, must_reject, orig, what, rfc7797=False, coq=True):
        from joserfc import jws
        from joserfc import rfc7797 as r97
        self.rec.take()
        keyobj = key(None) if callable(key) else key
        v = copy.deepcopy(val)
        r = call(r97.deserialize_json if rfc7797 else jws.deserialize_json, v, key, algs)
        rows, calls = self.rec.take()
        self.ctx.note_case(("dj", json.dumps(val, sort_keys=True, default=str), rfc7797))
        self.note(("json97:" if rfc7797 else "json:") + what.split(":")[0])
        replay = {"fn": "rfc7797.deserialize_json" if rfc7797 else "jws.deserialize_json",
                  "value": val, "key": keyobj.as_dict() if hasattr(keyobj, "as_dict") else repr(keyobj), "algorithms": algs}
        self.oracle(r, must_reject, orig, what, replay, lambda o: ([m.protected for m in o.members], o.payload))
        if r[0] == "ok" and J.modelable_json(val):
            sigs = val["signatures"] if "signatures" in val else [val]
            sis, hdrs = [], []
            for sg in sigs:
                prot = sg.get("protected", "")
                try:
                    ph = json.loads(b64u_dec(prot.encode())) if prot else {}
                except Exception:
                    ph = {}
                merged = dict(ph or {})
                merged.update(sg.get("header") or {})
                unenc = rfc7797 and "signatures" not in val and merged.get("b64") is False
                sis.append(prot.encode() + b"." + (r[1].payload if unenc else b64u(r[1].payload)))
                hdrs.append((merged, sg.get("signature", "").encode()))
            self.covered(sis, calls, keyobj, hdrs, what, replay, len(sigs))
        if coq and J.modelable_json(val):
            if rfc7797:
                term = "JDesJson97 %s %s %s %s %s %s" % (J.c_table(rows), c_bool(self.fixed), J.c_jval(val), J.c_keysrc(keyobj),
                                                         J.c_algs(algs), J.c_json_result(r))
            else:
                term = "JDesJson %s %s %s %s %s" % (J.c_table(rows), J.c_jval(val), J.c_keysrc(keyobj), J.c_algs(algs),
                                                    J.c_json_result(r))
            self.add(term, {"fn": "deserialize_json97" if rfc7797 else "deserialize_json", "what": what,
                            "value": json.dumps(val, default=str)[:400], "impl": repr(r[1])[:120]})
        return r

    def covered(self, sis, calls, keyobj, hdrs, what, replay, nsig):
        """accepted: (a) every message handed to a verifying primitive is the signing input built
        from the RETURNED payload, and there is one accepting call per signature; (b) independently
        (props/c07_ref.py, pyca directly) the signature is valid over that signing input"""
        ctx = self.ctx
        vcalls = [c for c in calls if c[0] == "verify"]
        okc = [c for c in vcalls if c[5] == ("ok", True)]
        if len(okc) < nsig or any(c[3] not in sis for c in vcalls):
            ctx.violation({"kind": "returned-payload-not-verified", "fault": what.split(":")[0]},
                          "accepted, but the octets handed to the primitive (%r) are not the signing input of the returned payload (%r)" % (
                              [c[3][-40:] for c in vcalls], [x[-40:] for x in sis]), dict(replay, what=what))
            return
        for si, (hdr, sseg) in zip(sis, hdrs):
            alg = hdr.get("alg")
            kobj = next((c[2] for c in okc if c[3] == si), None)     # the key the accepting call used
            if alg not in REF.ALG_PARAMS or not hasattr(kobj, "key_type"):
                continue
            jwk = kobj.as_dict(private=True) if kobj.key_type == "oct" else kobj.as_dict(private=False)
            v = call(REF.raw_verify, alg, jwk, si, b64u_dec(sseg))
            if v != ("ok", True):
                ctx.violation({"kind": "returned-payload-not-signed", "fault": what.split(":")[0]},
                              "accepted, but the signature is not valid over the signing input of the returned payload (reference: %r)" % (v[1],),
                              dict(replay, what=what))

    def oracle(self, r, must_reject, orig, what, replay, view):
        ctx = self.ctx
        if r[0] == "ok":
            if must_reject:
                sig = {"kind": "tampered-accepted", "fault": what.split(":")[0]}
                if what.split(":")[0] in ("front-truncate-signature", "front-strip-zeros", "leading-zero-signature-drop-leading-zero"):
                    # which algorithm: from the protected header of the input
                    try:
                        seg = replay["token"].split(".")[0] if "token" in replay else replay["value"].get("protected", "")
                        alg_ = json.loads(b64u_dec(seg.encode())).get("alg", "")
                    except Exception:
                        alg_ = ""
                    if alg_.startswith("PS"):
                        # RSASSA-PSS through pyca/OpenSSL accepts a signature whose leading zero octets were cut off
                        # (RFC 8017 8.1.2 step 1 demands length k): reported under its own signature
                        sig = {"kind": "short-signature-accepted", "family": "PSS"}
                if what.startswith("unprotected-b64"):
                    sig = dict(SIG_B64 if "present" in what else SIG_B64_RESIDUAL)
                ctx.violation(sig, "a JWS derived from a valid one by [%s] was returned as verified (payload %r)" % (
                    what, r[1].payload[:40]), dict(replay, what=what))
            elif orig is not None:
                got = view(r[1])
                if got[1] != orig[1] or (orig[0] is not None and got[0] != orig[0]):
                    ctx.violation({"kind": "accepted-content-differs", "fault": what.split(":")[0]},
                                  "verification returned content that was not signed: %r instead of %r" % (got, orig),
                                  dict(replay, what=what))
        else:
            e = r[1]
            if not must_reject and orig is not None and what == "valid":
                ctx.violation({"kind": "valid-rejected"}, "a valid JWS was rejected: %r" % (e,), dict(replay, what=what))
            if must_reject and not isinstance(e, Exception):
                ctx.violation({"kind": "non-exception"}, "rejected with %r" % (e,), dict(replay, what=what))


def gen_header(rng, alg, b64, extra_kid=None):
    h = {"alg": alg}
    if extra_kid:
        h["kid"] = extra_kid
    if rng.random() < 0.3:
        h["typ"] = rng.choice(["JWT", "jose+json", "x/yé"])
    if b64 is not None:
        h["b64"] = b64
        h["crit"] = ["b64"]
    return h


def run(ctx):
    from joserfc import jws
    from joserfc import rfc7797 as r97
    from joserfc.jwk import KeySet, OctKey
    import time as _t
    _t0 = _t.time()
    ok, log = ctx.prove(extra_targets=["model/C01Cases.vo"])
    ctx.notes.append("prove: %.1fs" % (_t.time() - _t0)); _t0 = _t.time()
    rng = ctx.rng
    K = J.keys()
    fixed, probe_tok = detect_fixed()
    ctx.notes.append("rfc7797 JSON verifier variant: %s" % ("fix01 (b64 only from the protected header when there is one)" if fixed else "pre-fix (merged header)"))
    with J.Recorder() as rec:
        R = Run(ctx, rec, fixed)
        algs_all = J.ALL_ALGS
        quick = ctx.quick

        def keyforms(name):
            k = K[name]
            pub = J.pubkey_of(k)
            others = [K[n] for n in ("oct16", "p384", "ed448", "rsa") if K[n].key_type != k.key_type]
            return [("key", k, pub), ("set", KeySet([others[0], k, others[1]]), KeySet([J.pubkey_of(others[0]), pub])),
                    ("callable", (lambda obj, _k=k: _k), (lambda obj, _p=pub: _p))]

        # ------------------------------------------------------------------
        # compact (RFC 7515 and RFC 7797)
        # ------------------------------------------------------------------
        compact_tokens = []     # (tok bytes, alg, keyname, pub key form, header, payload, b64, payload_arg)
        for alg in algs_all:
            for kn in J.ALG_KEYS[alg][:2 if quick else 4]:
                forms = keyforms(kn)
                for b64 in (None, True, False):
                    pls = PAYLOADS if not quick else rng.sample(PAYLOADS, 3)
                    for pl in pls:
                        fname, sk, vk = forms[rng.randrange(3)] if quick else forms[PAYLOADS.index(pl) % 3]
                        h = gen_header(rng, alg, b64, extra_kid=kn if fname == "set" else None)
                        rec.take()
                        r = call(r97.serialize_compact if b64 is not None else jws.serialize_compact, dict(h), pl, sk, [alg])
                        if r[0] != "ok":
                            continue        # (non-UTF-8 payload with b64=false: C03's subject)
                        tok = r[1].encode()
                        hs, ps, ss = tok.split(b".")
                        parg = pl if (b64 is False and ps == b"" and pl) else None
                        compact_tokens.append((tok, alg, kn, vk, json.loads(b64u_dec(hs)), pl, b64, parg))
        ctx.coverage["valid_compact_tokens"] = len(compact_tokens)
        by_alg = {}
        for i, (tok, alg, kn, vk, h, pl, b64, parg) in enumerate(compact_tokens):
            is97 = b64 is not None
            orig = (h, pl)
            R.des_compact(tok, vk, [alg], False, orig, "valid", rfc7797=is97, payload_arg=parg)
            hs, ps, ss = tok.split(b".")
            hraw, sraw = b64u_dec(hs), b64u_dec(ss)
            praw = b64u_dec(ps) if b64 is not False else ps
            first = alg not in by_alg
            by_alg.setdefault(alg, []).append(i)

            def emit(hraw2, praw2, sraw2, what, coq=True, parg2=parg):
                p2 = b64u(praw2) if b64 is not False else praw2
                t2 = b64u(hraw2) + b"." + p2 + b"." + b64u(sraw2)
                R.des_compact(t2, vk, [alg], True, orig, what, rfc7797=is97, payload_arg=parg2, coq=coq)
            # bit flips of every decoded segment (all bits for the first short token of an algorithm, sampled otherwise)
            full = first and len(tok) < 400 and (not quick or alg in ("HS256", "ES256", "EdDSA"))
            for seg, raw in (("header", hraw), ("payload", praw), ("signature", sraw)):
                nb = len(raw) * 8
                if seg == "payload" and b64 is False and parg is None and not raw:
                    continue
                bits = range(nb) if full else rng.sample(range(nb), min(nb, 3 if quick else 12))
                for n, bi in enumerate(bits):
                    x = J.flip_bit(raw, bi)
                    if seg == "payload" and b64 is False and (b"." in x):
                        continue
                    coq = (n % 8 == 0) if full else True
                    if seg == "header":
                        emit(x, praw, sraw, "bitflip-header:%d" % bi, coq)
                    elif seg == "payload":
                        if parg is not None:
                            R.des_compact(tok, vk, [alg], True, orig, "bitflip-detached-payload:%d" % bi, rfc7797=True,
                                          payload_arg=J.flip_bit(parg, bi % (len(parg) * 8)), coq=coq)
                        else:
                            emit(hraw, x, sraw, "bitflip-payload:%d" % bi, coq)
                    else:
                        emit(hraw, praw, x, "bitflip-signature:%d" % bi, coq)
            # truncation / extension of the signature
            L = len(sraw)
            lens = range(0, L) if (first or not quick) and L <= 140 else sorted(set([0, 1, L // 2, L - 1] + rng.sample(range(L), 3)))
            for n in lens:
                emit(hraw, praw, sraw[:n], "truncate-signature:%d" % n, coq=(n % 4 == 0 or n in (0, 1, L - 1)))
            for n in (1, 2, 3):
                emit(hraw, praw, sraw[n:], "front-truncate-signature:%d" % n)
            emit(hraw, praw, sraw.lstrip(b"\x00") if sraw[:1] == b"\x00" else sraw[1:], "front-strip-zeros")
            for ext in (b"\x00", b"\x00\x00", bytes([rng.randrange(256)])):
                emit(hraw, praw, sraw + ext, "extend-signature:%d" % len(ext))
                emit(hraw, praw, ext + sraw, "prefix-signature:%d" % len(ext))
            if alg.startswith("ES"):
                half = L // 2
                r_, s_ = sraw[:half], sraw[half:]
                emit(hraw, praw, b"\x00" + r_ + b"\x00" + s_, "ecdsa-zero-pad-both")
                emit(hraw, praw, b"\x00" + r_ + s_, "ecdsa-zero-pad-r")
                emit(hraw, praw, r_ + b"\x00" + s_, "ecdsa-zero-pad-s")
                emit(hraw, praw, r_.lstrip(b"\x00")[1:] + s_, "ecdsa-shorten-r")
                emit(hraw, praw, r_ + s_[1:], "ecdsa-shorten-s")
                emit(hraw, praw, s_ + r_, "ecdsa-swap-halves")
                from cryptography.hazmat.primitives.asymmetric.utils import encode_dss_signature
                emit(hraw, praw, encode_dss_signature(int.from_bytes(r_, "big"), int.from_bytes(s_, "big")), "ecdsa-der")
            # none / alg switch in the header
            h2 = dict(h, alg="none")
            t2 = b64u(json.dumps(h2, separators=(",", ":")).encode()) + b"." + ps + b"."
            R.des_compact(t2, vk, [alg, "none"], True, orig, "alg-none", rfc7797=is97, payload_arg=parg)
            R.des_compact(hs + b"." + ps + b".", vk, [alg], True, orig, "empty-signature", rfc7797=is97, payload_arg=parg)
            # structure
            R.des_compact(hs + b"." + ps, vk, [alg], True, orig, "two-segments", rfc7797=is97)
            R.des_compact(tok + b".", vk, [alg], True, orig, "four-segments", rfc7797=is97)
            if b64 is not False:
                R.des_compact(hs + b"." + ps + b"=." + ss, vk, [alg], True, orig, "padded-payload-segment", rfc7797=is97)
            # key substitution
            on = J.other_key_same_type(kn)
            if on:
                R.des_compact(tok, J.pubkey_of(K[on]), [alg], True, orig, "other-key-same-type", rfc7797=is97, payload_arg=parg)
            wrong = K["p256"] if not alg.startswith("ES") else K["oct32"]
            R.des_compact(tok, wrong, [alg], True, orig, "key-of-other-type", rfc7797=is97, payload_arg=parg)
            R.des_compact(tok, vk, [a for a in algs_all if a != alg][:2], True, orig, "algorithm-not-allowed", rfc7797=is97, payload_arg=parg)
            if not is97 and alg not in ("HS256", "RS256", "ES256"):
                R.des_compact(tok, vk, None, True, orig, "algorithm-not-recommended")
            # b64 switch tampering (protected header is signed: must fail)
            if b64 is None:
                h3 = dict(h, b64=False, crit=["b64"])
                t3 = b64u(json.dumps(h3, separators=(",", ":")).encode()) + b"." + ps + b"." + ss
                R.des_compact(t3, vk, [alg], True, orig, "add-b64-false-to-header", rfc7797=True)
        # rfc7797 entry point: {payload embedded, payload segment empty} x payload argument
        for i, (tok, alg, kn, vk, h, pl, b64, parg) in enumerate(compact_tokens):
            if quick and b64 is None and i % 3:
                continue
            hs, ps, ss = tok.split(b".")
            embedded = ps != b""
            other = b"other-payload" if pl != b"other-payload" else b"x"
            args = [("absent", None), ("equal-bytes", pl), ("different", other), ("empty-bytes", b""), ("empty-str", ""),
                    ("prefix", pl[:max(0, len(pl) - 1)]), ("extended", pl + b"~"), ("segment-text", ps)]
            try:
                args.append(("equal-str", pl.decode("utf-8")))
                args.append(("different-str", other.decode()))
            except ValueError:
                pass
            for name, arg in args:
                argb = arg.encode("utf-8") if isinstance(arg, str) else arg
                if b64 is False:
                    effective = argb if argb else ps          # `if payload:` else the payload segment
                    must_reject = effective != pl
                else:
                    must_reject = False                       # the argument is ignored
                R.des_compact(tok, vk, [alg], must_reject, (h, pl), "payload-arg-%s:%s:b64=%s" % (name, "embedded" if embedded else "detached", b64),
                              rfc7797=True, payload_arg=arg)
        # segment swaps between two valid tokens of the same algorithm and key
        for alg, idx in by_alg.items():
            pairs = [(a, b) for a in idx for b in idx if a < b and compact_tokens[a][2] == compact_tokens[b][2]
                     and compact_tokens[a][6] == compact_tokens[b][6]]
            for a, b in (pairs if not quick else rng.sample(pairs, min(len(pairs), 3))):
                A, B = compact_tokens[a], compact_tokens[b]
                sa, sb = A[0].split(b"."), B[0].split(b".")
                for mask in (1, 2, 3, 4, 5, 6):
                    parts = [sb[i] if mask >> i & 1 else sa[i] for i in range(3)]
                    t = b".".join(parts)
                    if t in (A[0], B[0]) or (parts[0] == sa[0] and parts[1] == sa[1] and b64u_dec(parts[2]) == b64u_dec(sa[2])):
                        continue
                    if A[6] is False and (A[7] is not None or B[7] is not None):
                        continue
                    R.des_compact(t, A[3], [alg], True, None, "segment-swap:%d" % mask, rfc7797=A[6] is not None)
        # multi-step history on shared objects
        for n in range(ctx.scale(25, 300)):
            A = compact_tokens[rng.randrange(len(compact_tokens))]
            B = compact_tokens[rng.randrange(len(compact_tokens))]
            if A[6] is not None:
                continue
            tamper = rng.random() < 0.5
            ta = A[0]
            if tamper:
                hs, ps, ss = ta.split(b".")
                ta = hs + b"." + b64u(b64u_dec(ps) + b"x") + b"." + ss
            rec.take()
            ra = call(jws.extract_compact, ta)
            rowsA, _ = rec.take()
            rb = call(jws.extract_compact, B[0])
            rec.take()
            if ra[0] != "ok":
                continue
            rv = call(jws.validate_compact, ra[1], A[3], [A[1]])
            rows, _ = rec.take()
            ctx.note_case(("history", ta, B[0]))
            R.note("history")
            if tamper and rv == ("ok", True):
                ctx.violation({"kind": "history-accepts-tampered"}, "validate_compact(objA) was True for a tampered A after extracting B",
                              {"fn": "history", "tokA": ta.decode(), "tokB": B[0].decode()})
            if not tamper and rv != ("ok", True):
                ctx.violation({"kind": "history-rejects-valid"}, "validate_compact(objA) was %r after extract_compact(B)" % (rv[1],),
                              {"fn": "history", "tokA": ta.decode(), "tokB": B[0].decode()})
            keyobj = A[3](None) if callable(A[3]) else A[3]
            R.add("JValidate %s %s %s %s %s" % (J.c_table(rowsA + rows), c_hex(ta), J.c_keysrc(keyobj), J.c_algs([A[1]]),
                                               J.c_res(rv, c_bool)), {"fn": "history", "tokA": ta.decode()[:200]})
        # HS* with the public encoding of an asymmetric key as the secret
        for kn, hs_alg in (("rsa", "HS256"), ("p256", "HS256"), ("ed25519", "HS512")):
            pem = K[kn].as_pem(private=False)
            forged = jws.serialize_compact({"alg": hs_alg}, b"forged", OctKey.import_key(pem), [hs_alg])
            sig_alg = {"rsa": "RS256", "p256": "ES256", "ed25519": "EdDSA"}[kn]
            R.des_compact(forged.encode(), J.pubkey_of(K[kn]), [sig_alg, hs_alg], True, None, "hmac-with-public-key-as-secret")

        # ------------------------------------------------------------------
        # JSON serializations
        # ------------------------------------------------------------------
        placements = ["protected", "split", "unprotected", "empty-protected"]
        json_tokens = []

        def member_for(alg, kn, placement, b64, use_kid):
            base = {"alg": alg}
            if use_kid:
                base["kid"] = kn
            if b64 is not None:
                base["b64"] = b64
                base["crit"] = ["b64"]
            if placement == "protected":
                return {"protected": base}
            if placement == "split":
                p = {k: v for k, v in base.items() if k != "kid"}
                return {"protected": p, "header": {"kid": kn}}
            if placement == "unprotected":
                return {"header": dict(base)}
            return {"protected": {}, "header": dict(base)}

        for alg in algs_all:
            kn = J.ALG_KEYS[alg][0]
            forms = keyforms(kn)
            for nsig in (0, 1, 2, 3):           # 0 = flattened
                for b64 in ((None, True, False) if nsig == 0 else (None,)):
                    for placement in placements if not quick else rng.sample(placements, 2):
                        pl = rng.choice(PAYLOADS)
                        fname, sk, vk = forms[rng.randrange(3)]
                        m = member_for(alg, kn, placement, b64, use_kid=(fname == "set" or placement == "split"))
                        if b64 is False:
                            try:
                                pl.decode("utf-8")
                            except ValueError:
                                pl = b"hello"
                        rec.take()
                        if nsig == 0:
                            r = call(r97.serialize_json if b64 is not None else jws.serialize_json, copy.deepcopy(m), pl, sk, [alg])
                        else:
                            r = call(jws.serialize_json, [copy.deepcopy(m) for _ in range(nsig)], pl, sk, [alg])
                        if r[0] != "ok":
                            if fixed and b64 is not None and placement == "split":
                                continue
                            ctx.violation({"kind": "sign-failed"}, "serialize_json failed: %r" % (r[1],),
                                          {"fn": "serialize_json", "member": m, "alg": alg})
                            continue
                        json_tokens.append((r[1], alg, kn, vk, m, pl, b64, nsig))
        ctx.coverage["valid_json_tokens"] = len(json_tokens)
        for (val, alg, kn, vk, m, pl, b64, nsig) in json_tokens:
            is97 = b64 is not None
            prot = m.get("protected") or None
            orig = ([prot] * max(nsig, 1), pl)
            R.des_json(val, vk, [alg], False, orig, "valid", rfc7797=is97)
            sigs = val["signatures"] if nsig else [val]

            def edit(fn, what, must_reject=True, rfc=is97, o=None):
                v2 = copy.deepcopy(val)
                s2 = v2["signatures"] if nsig else [v2]
                if fn(v2, s2) is False:
                    return
                R.des_json(v2, vk, [alg], must_reject, o, what, rfc7797=rfc)
            # decoded-octet faults
            which = rng.randrange(len(sigs))
            for n in range(3 if quick else 10):
                def f(v2, s2, n=n):
                    raw = b64u_dec(s2[which]["signature"].encode())
                    s2[which]["signature"] = b64u(J.flip_bit(raw, rng.randrange(len(raw) * 8))).decode()
                edit(f, "bitflip-signature")
                if prot:
                    def g(v2, s2):
                        raw = b64u_dec(s2[which]["protected"].encode())
                        s2[which]["protected"] = b64u(J.flip_bit(raw, rng.randrange(len(raw) * 8))).decode()
                    edit(g, "bitflip-protected")
                if pl:
                    def hh(v2, s2):
                        if b64 is False:
                            x = J.flip_bit(pl, rng.randrange(len(pl) * 8))
                            try:
                                v2["payload"] = x.decode("utf-8")
                            except ValueError:
                                return False
                        else:
                            v2["payload"] = b64u(J.flip_bit(pl, rng.randrange(len(pl) * 8))).decode()
                    edit(hh, "bitflip-payload")

            edit(lambda v2, s2: v2.__setitem__("payload", ""), "payload-member-empty", must_reject=bool(pl), o=orig)
            if len(pl) > 1:
                def pfx(v2, s2):
                    try:
                        v2["payload"] = pl[:-1].decode("utf-8") if b64 is False else b64u(pl[:-1]).decode()
                    except ValueError:
                        return False
                edit(pfx, "payload-member-prefix")
            if b64 is False:
                # the BASE64URL text in place of the unencoded payload (and vice versa below)
                edit(lambda v2, s2: v2.__setitem__("payload", b64u(pl).decode()), "payload-member-encoded-instead", must_reject=b64u(pl) != pl)
            elif pl and nsig == 0:
                def rawp(v2, s2):
                    try:
                        v2["payload"] = pl.decode("utf-8")
                    except ValueError:
                        return False
                edit(rawp, "payload-member-raw-instead")

            def trunc(v2, s2):
                raw = b64u_dec(s2[which]["signature"].encode())
                s2[which]["signature"] = b64u(raw[:rng.randrange(len(raw))]).decode()
            edit(trunc, "truncate-signature")

            def ext(v2, s2):
                raw = b64u_dec(s2[which]["signature"].encode())
                s2[which]["signature"] = b64u(raw + b"\x00").decode()
            edit(ext, "extend-signature")
            # structural edits
            if nsig:
                edit(lambda v2, s2: v2.__setitem__("signatures", []), "empty-signatures")
                edit(lambda v2, s2: v2.pop("signatures"), "drop-signatures")
                edit(lambda v2, s2: s2.append(dict(s2[0], signature=b64u(b"\x01" * 32).decode())), "append-bad-signature")
                edit(lambda v2, s2: s2.append(dict(s2[0])), "duplicate-valid-signature", must_reject=False, o=([prot] * (nsig + 1), pl))
                edit(lambda v2, s2: s2[which].pop("signature"), "drop-signature-member")
            edit(lambda v2, s2: v2.pop("payload"), "drop-payload")
            if prot:
                edit(lambda v2, s2: s2[which].pop("protected"), "drop-protected")
                edit(lambda v2, s2: s2[which].__setitem__("protected", "e30"), "empty-protected-object")

                def move(v2, s2):
                    p = dict(prot)
                    k = rng.choice(list(p))
                    hdr = dict(s2[which].get("header") or {})
                    hdr[k] = p.pop(k)
                    s2[which]["header"] = hdr
                    s2[which]["protected"] = b64u(json.dumps(p, separators=(",", ":")).encode()).decode()
                edit(move, "move-member-to-unprotected")
            if m.get("header"):
                def move2(v2, s2):
                    hdr = dict(s2[which]["header"])
                    k = rng.choice(list(hdr))
                    p = dict(prot or {})
                    p[k] = hdr.pop(k)
                    if hdr:
                        s2[which]["header"] = hdr
                    else:
                        s2[which].pop("header")
                    s2[which]["protected"] = b64u(json.dumps(p, separators=(",", ":")).encode()).decode()
                edit(move2, "move-member-to-protected")
            edit(lambda v2, s2: s2[which].__setitem__("header", dict(s2[which].get("header") or {}, alg="none")),
                 "unprotected-alg-none")
            # unprotected b64 / crit next to a header that does not have them
            if b64 is None and nsig == 0:
                def addb64(v2, s2):
                    s2[0]["header"] = dict(s2[0].get("header") or {}, b64=False, crit=["b64"])
                edit(addb64, "unprotected-b64:%s" % ("present" if "protected" in val else "absent"), rfc=True)
                edit(addb64, "unprotected-b64-plain-api")      # jws.deserialize_json: b64 is not a registered header
            # key substitution
            on = J.other_key_same_type(kn)
            if on:
                R.des_json(val, J.pubkey_of(K[on]), [alg], True, None, "other-key-same-type", rfc7797=is97)
            R.des_json(val, K["p256"] if not alg.startswith("ES") else K["oct32"], [alg], True, None, "key-of-other-type", rfc7797=is97)
        # payload swaps between JSON tokens
        for n in range(ctx.scale(20, 200)):
            A = json_tokens[rng.randrange(len(json_tokens))]
            B = json_tokens[rng.randrange(len(json_tokens))]
            if A[0].get("payload") == B[0].get("payload") or A[6] is False or B[6] is False:
                continue
            v2 = copy.deepcopy(A[0])
            v2["payload"] = B[0]["payload"]
            R.des_json(v2, A[3], [A[1]], True, None, "payload-swap", rfc7797=A[6] is not None)

        # ------------------------------------------------------------------
        # ES* name x EC curve x hash: tokens made OUTSIDE the library (pyca directly), every
        # combination incl. all mismatches; accepted iff curve and hash are the ones the name stands for
        # ------------------------------------------------------------------
        from cryptography.hazmat.primitives.asymmetric import ec as _ec
        from cryptography.hazmat.primitives import hashes as _hs
        from cryptography.hazmat.primitives.asymmetric.utils import decode_dss_signature as _dds
        from joserfc import jwt as _jwt
        ES = {"ES256": ("P-256", "sha256"), "ES384": ("P-384", "sha384"), "ES512": ("P-521", "sha512"), "ES256K": ("secp256k1", "sha256")}
        ECK = {"P-256": "p256", "P-384": "p384", "P-521": "p521", "secp256k1": "k256"}
        HS_ = {"sha256": _hs.SHA256, "sha384": _hs.SHA384, "sha512": _hs.SHA512}
        claims = b'{"sub":"ec-matrix"}'
        for name, (crv, hname) in ES.items():
            inst = jws.JWSRegistry.algorithms[name]
            for kcrv, kn in ECK.items():
                k = K[kn]
                pub = J.pubkey_of(k)
                L = (k.curve_key_size + 7) // 8
                for hn, hcls in HS_.items():
                    good = (kcrv == crv and hn == hname)
                    hdr = {"alg": name}
                    hs_ = b64u(json.dumps(hdr, separators=(",", ":")).encode())
                    ps_ = b64u(claims)
                    si = hs_ + b"." + ps_
                    r_, s_ = _dds(k.private_key.sign(si, _ec.ECDSA(hcls())))
                    sig = r_.to_bytes(L, "big") + s_.to_bytes(L, "big")
                    tok = si + b"." + b64u(sig)
                    what = "ec-matrix:%s:%s:%s" % (name, kcrv, hn)
                    R.des_compact(tok, pub, [name], not good, (hdr, claims), what if not good else "valid")
                    flat = {"payload": ps_.decode(), "protected": hs_.decode(), "signature": b64u(sig).decode()}
                    R.des_json(flat, pub, [name], not good, ([hdr], claims), what if not good else "valid")
                    gen = {"payload": ps_.decode(), "signatures": [{"protected": hs_.decode(), "signature": b64u(sig).decode()}]}
                    R.des_json(gen, pub, [name], not good, ([hdr], claims), what if not good else "valid", coq=False)
                    rec.take()
                    rj = call(_jwt.decode, tok.decode(), pub, [name])
                    rec.take()
                    if (rj[0] == "ok") != good:
                        ctx.violation({"kind": "ec-alg-curve", "fn": "jwt.decode"}, "jwt.decode of a token whose header says %s, signed on %s with %s: %r" % (name, kcrv, hn, rj[1]),
                                      {"fn": "jwt.decode", "token": tok.decode(), "key": pub.as_dict(), "algorithms": [name]})
                    # the wrapper alone
                    rec.take()
                    rv = call(inst.verify, si, sig, pub)
                    rows, calls = rec.take()
                    ctx.note_case(("ec-matrix-wrapper", name, kcrv, hn))
                    R.note("ec-matrix-wrapper")
                    if (rv == ("ok", True)) != good:
                        ctx.violation({"kind": "ec-alg-curve", "fn": "ECAlgModel.verify"}, "%s.verify with a key on %s, signature made with %s: %r" % (name, kcrv, hn, rv[1]),
                                      {"fn": "ec.verify", "alg": name, "curve": kcrv, "hash": hn})
                    R.add("JAlgVerify %s %s %s %s %s %s" % (J.c_table(rows), c_str(name), J.c_key(pub), c_hex(si), c_hex(sig), J.c_res(rv, c_bool)),
                          {"fn": "ec.verify", "what": what}, force=True)

        # ------------------------------------------------------------------
        # every PARAMETER an algorithm fixes, on signatures made OUTSIDE the library (pyca / hmac
        # directly): accepted iff every parameter is the RFC's (RFC 7518 3.2, 3.3, 3.5)
        # ------------------------------------------------------------------
        from cryptography.hazmat.primitives.asymmetric import padding as _pad
        import hmac as _hm2, hashlib as _hl2
        HC = {"sha256": _hs.SHA256, "sha384": _hs.SHA384, "sha512": _hs.SHA512}
        rsa_prv = K["rsa"].private_key
        rsa_pub = J.pubkey_of(K["rsa"])

        def ext_token(name, signer):
            hdr = {"alg": name}
            hs_ = b64u(json.dumps(hdr, separators=(",", ":")).encode())
            ps_ = b64u(b"param-matrix")
            si = hs_ + b"." + ps_
            sig = signer(si)
            return hdr, si + b"." + b64u(sig), {"payload": ps_.decode(), "protected": hs_.decode(), "signature": b64u(sig).decode()}

        def run_param(name, signer, good, what, keyobj, json_too):
            hdr, tok, flat = ext_token(name, signer)
            R.des_compact(tok, keyobj, [name], not good, (hdr, b"param-matrix"), "valid" if good else what)
            if json_too:
                R.des_json(flat, keyobj, [name], not good, ([hdr], b"param-matrix"), "valid" if good else what)
                R.des_json({"payload": flat["payload"], "signatures": [{"protected": flat["protected"], "signature": flat["signature"]}]},
                           keyobj, [name], not good, ([hdr], b"param-matrix"), "valid" if good else what, coq=False)

        for name, hn in (("PS256", "sha256"), ("PS384", "sha384"), ("PS512", "sha512")):
            hl = HC[hn].digest_size
            for salt in (0, 8, hl - 1, hl, hl + 1, "max"):
                for mgf in HC:
                    for mh in HC:
                        if quick and not (mgf == hn and mh == hn) and rng.random() < 0.7:
                            continue
                        sl = _pad.PSS.MAX_LENGTH if salt == "max" else salt
                        good = (salt == hl and mgf == hn and mh == hn)
                        signer = (lambda si, _m=mgf, _s=sl, _h=mh: rsa_prv.sign(si, _pad.PSS(mgf=_pad.MGF1(HC[_m]()), salt_length=_s), HC[_h]()))
                        run_param(name, signer, good, "pss-params:%s:salt=%s:mgf=%s:hash=%s" % (name, salt, mgf, mh), rsa_pub, mgf == hn and mh == hn)
            # a PKCS1-v1_5 signature under a PS* name
            run_param(name, lambda si, _h=hn: rsa_prv.sign(si, _pad.PKCS1v15(), HC[_h]()), False, "pss-params:%s:pkcs1v15-instead" % name, rsa_pub, False)
        for name, hn in (("RS256", "sha256"), ("RS384", "sha384"), ("RS512", "sha512")):
            for mh in HC:
                run_param(name, lambda si, _h=mh: rsa_prv.sign(si, _pad.PKCS1v15(), HC[_h]()), mh == hn, "rsa-params:%s:hash=%s" % (name, mh), rsa_pub, True)
            run_param(name, lambda si, _h=hn: rsa_prv.sign(si, _pad.PSS(mgf=_pad.MGF1(HC[_h]()), salt_length=HC[_h].digest_size), HC[_h]()),
                      False, "rsa-params:%s:pss-instead" % name, rsa_pub, False)
        for name, hn, kn in (("HS256", "sha256", "oct32"), ("HS384", "sha384", "oct64"), ("HS512", "sha512", "oct64")):
            kb = K[kn].raw_value
            for mh in HC:
                full = len(_hm2.new(kb, b"", getattr(_hl2, mh)).digest())
                for cut in (full, 16, 31, full - 1):
                    good = (mh == hn and cut == full)
                    run_param(name, lambda si, _h=mh, _c=cut: _hm2.new(kb, si, getattr(_hl2, _h)).digest()[:_c], good,
                              "hmac-params:%s:hash=%s:len=%d" % (name, mh, cut), K[kn], cut == full)
        from cryptography.hazmat.primitives.asymmetric.utils import encode_dss_signature as _eds
        for name, (crv, hn) in ES.items():
            k = K[ECK[crv]]
            L = (k.curve_key_size + 7) // 8

            def ecs(si, form, _k=k, _h=hn, _L=L):
                r_, s_ = _dds(_k.private_key.sign(si, _ec.ECDSA(HC[_h]())))
                if form == "raw":
                    return r_.to_bytes(_L, "big") + s_.to_bytes(_L, "big")
                if form == "der":
                    return _eds(r_, s_)
                if form == "long":
                    return r_.to_bytes(_L + 1, "big") + s_.to_bytes(_L + 1, "big")
                return (r_.to_bytes(_L, "big") + s_.to_bytes(_L, "big"))[1:]
            for form in ("raw", "der", "long", "short"):
                run_param(name, lambda si, _f=form: ecs(si, _f), form == "raw", "ecdsa-encoding:%s:%s" % (name, form), J.pubkey_of(k), form != "raw")

        # ------------------------------------------------------------------
        # signatures whose FIRST octet is 0x00 (searched: sign numbered payloads, ~1/256): cutting
        # leading octets off / prepending 00 must be rejected (no re-padding to the modulus / curve size)
        # ------------------------------------------------------------------
        for alg, kn in (("RS256", "rsa"), ("RS512", "rsa"), ("PS256", "rsa"), ("ES256", "p256"), ("ES512", "p521"), ("EdDSA", "ed25519"), ("HS256", "oct32")):
            k = K[kn]
            pub = J.pubkey_of(k)
            found = None
            for i_ in range(ctx.scale(2500, 6000)):
                t_ = jws.serialize_compact({"alg": alg}, b"n%d" % i_, k, [alg])
                sg_ = b64u_dec(t_.rsplit(".", 1)[1].encode())
                if sg_[:1] == b"\x00":
                    found = (t_.encode(), b"n%d" % i_, sg_)
                    break
            rec.take()
            ctx.coverage.setdefault("leading_zero_signature_found", {})[alg] = found is not None
            if not found:
                continue
            tok, pl, sg_ = found
            hs_, ps_, ss_ = tok.split(b".")
            hdr = {"alg": alg}
            R.des_compact(tok, pub, [alg], False, (hdr, pl), "valid")
            nz = len(sg_) - len(sg_.lstrip(b"\x00"))
            for name, sig2 in [("drop-leading-zero:%d" % n, sg_[n:]) for n in range(1, nz + 1)] + [("drop-leading:%d" % (nz + 1), sg_[nz + 1:]),
                               ("prepend-zero", b"\x00" + sg_), ("move-zero-to-end", sg_[1:] + b"\x00")]:
                t2 = hs_ + b"." + ps_ + b"." + b64u(sig2)
                R.des_compact(t2, pub, [alg], True, (hdr, pl), "leading-zero-signature-%s" % name)
                R.des_json({"payload": ps_.decode(), "protected": hs_.decode(), "signature": b64u(sig2).decode()}, pub, [alg], True, ([hdr], pl),
                           "leading-zero-signature-%s" % name, coq=False)

        # ------------------------------------------------------------------
        # wrong keys that SHARE METADATA with the right key, over HISTORIES: after a successful
        # verification with key A, the same token with key B (same kid / alg / use, other
        # material) must still be rejected; A re-imported must still verify
        # ------------------------------------------------------------------
        fam_pairs = [("HS256", K["oct32"], K["oct32b"]), ("HS384", K["oct64"], K["oct32"]), ("HS512", K["oct64"], K["oct16"]),
                     ("RS256", K["rsa"], None), ("PS256", K["rsa"], None), ("ES256", K["p256"], K["p256b"]),
                     ("EdDSA", K["ed25519"], K["ed25519b"])]
        for alg, ka, kb in fam_pairs:
            if kb is None:
                kb = J.second_rsa()
            metas = [{"kid": "shared-" + alg}, {"kid": "shared2-" + alg, "alg": alg, "use": "sig"}, {"kid": ka.thumbprint()}]
            for mi, meta in enumerate(metas):
                A = J.with_meta(ka, True, **meta)
                Apub = J.with_meta(ka, False, **meta)
                B = J.with_meta(kb, False, **meta)
                Arei = J.with_meta(ka, False, **meta)
                pl = b"history-" + alg.encode()
                hdr = {"alg": alg, "kid": meta["kid"]}
                tok = jws.serialize_compact(dict(hdr), pl, A, [alg]).encode()
                val = jws.serialize_json({"protected": dict(hdr)}, pl, A, [alg])
                rec.take()
                orig = (hdr, pl)
                if mi % 2 == 0:
                    R.des_compact(tok, Apub, [alg], False, orig, "valid")
                    R.des_compact(tok, B, [alg], True, orig, "same-kid-other-key-after-right-key:" + alg)
                    R.des_compact(tok, Arei, [alg], False, orig, "valid")
                    R.des_compact(tok, KeySet([Apub]), [alg], False, orig, "valid")
                    R.des_compact(tok, KeySet([B]), [alg], True, orig, "keyset-reloaded-same-kid:" + alg)
                    R.des_compact(tok, KeySet([B, K["oct16"]]), [alg], True, orig, "keyset-reloaded-same-kid:" + alg)
                else:
                    R.des_compact(tok, B, [alg], True, orig, "same-kid-other-key-before-right-key:" + alg)
                    R.des_compact(tok, Apub, [alg], False, orig, "valid")
                    R.des_compact(tok, B, [alg], True, orig, "same-kid-other-key-after-right-key:" + alg)
                R.des_json(val, Apub, [alg], False, ([hdr], pl), "valid")
                R.des_json(val, B, [alg], True, ([hdr], pl), "same-kid-other-key-after-right-key:" + alg)
                R.des_json(val, lambda obj, _b=B: _b, [alg], True, ([hdr], pl), "same-kid-other-key-after-right-key:" + alg)
        # same kid across HS256 / HS384 / HS512 with different secrets
        hk = {a: J.with_meta(K[n], True, kid="one-kid") for a, n in (("HS256", "oct32"), ("HS384", "oct64"), ("HS512", "oct16"))}
        htok = {a: jws.serialize_compact({"alg": a, "kid": "one-kid"}, b"x-" + a.encode(), hk[a], [a]).encode() for a in hk}
        rec.take()
        for a in hk:
            R.des_compact(htok[a], hk[a], [a], False, ({"alg": a, "kid": "one-kid"}, b"x-" + a.encode()), "valid")
        for a in hk:
            for b_ in hk:
                if a != b_:
                    R.des_compact(htok[a], hk[b_], [a], True, None, "same-kid-other-key-after-right-key:cross-" + a)
        # every per-token "other key" fault again with the other key carrying the right key's kid
        for (tok, alg, kn, vk, h, pl, b64, parg) in compact_tokens[::(7 if quick else 1)]:
            on = J.other_key_same_type(kn)
            if on and "kid" in h:
                R.des_compact(tok, vk, [alg], False, (h, pl), "valid", rfc7797=b64 is not None, payload_arg=parg, coq=False)
                R.des_compact(tok, J.with_meta(K[on], False, kid=h["kid"]), [alg], True, (h, pl), "same-kid-other-key-after-right-key:token",
                              rfc7797=b64 is not None, payload_arg=parg)

        # ------------------------------------------------------------------
        # NEAR keys, for every way a key enters the library: verify(token_K, K') must be rejected
        # whenever octets(K') != octets(K) (the material the caller gave), accepted when equal;
        # the token is MACed HERE (hmac directly) so that nothing depends on the library's import
        # ------------------------------------------------------------------
        import hmac as _hm, hashlib as _hl
        from joserfc.jwk import JWKRegistry as _JR
        bases = [b"secret-key-0123456789abcdef-XYZ", b" lead-space-key-0123456789abcdef", b"\tTab\nKey-0123456789abcdefgh\r\n",
                 bytes(rng.randrange(33, 127) for _ in range(32)), b"\x0b\x0c\x20" + bytes(rng.randrange(256) for _ in range(29))]

        def near(Kb):
            out = [("equal", Kb)]
            for wsb in (b" ", b"\t", b"\n", b"\r", b"\x0b", b"\x0c", b"\x00", b"\xa0", b"\x85"):
                out.append(("prepend-%02x" % wsb[0], wsb + Kb))
                if wsb != b"\x00":      # HMAC zero-pads short keys (RFC 2104): K and K + NUL are the SAME MAC key
                    out.append(("append-%02x" % wsb[0], Kb + wsb))
            out += [("lstrip", Kb.lstrip()), ("rstrip", Kb.rstrip()), ("strip", Kb.strip()), ("drop-first", Kb[1:]), ("drop-last", Kb[:-1]),
                    ("extend", Kb + b"x"), ("append-eq", Kb + b"="), ("swapcase", Kb.swapcase()), ("lower", Kb.lower()), ("upper", Kb.upper()),
                    ("b64-text", b64u(Kb)), ("crlf", Kb + b"\r\n"), ("double-space", b"  " + Kb)]
            return out

        def entries(kb):
            """every way raw octets become a key"""
            out = [("bytes", lambda: OctKey.import_key(kb)), ("bytearray", lambda: OctKey.import_key(bytearray(kb))),
                   ("registry-bytes", lambda: _JR.import_key(kb, "oct")),
                   ("jwk-dict", lambda: OctKey.import_key({"kty": "oct", "k": b64u(kb).decode()})),
                   ("jwk-dict-registry", lambda: _JR.import_key({"kty": "oct", "k": b64u(kb).decode()})),
                   ("raw-bytes-as-key", lambda: kb)]
            try:
                st = kb.decode("utf-8")
                out += [("str", lambda: OctKey.import_key(st)), ("raw-str-as-key", lambda: st)]
            except ValueError:
                pass
            return out

        for Kb in bases:
            hdr = {"alg": "HS256"}
            hs_ = b64u(json.dumps(hdr, separators=(",", ":")).encode())
            ps_ = b64u(b"near-key")
            tok = hs_ + b"." + ps_ + b"." + b64u(_hm.new(Kb, hs_ + b"." + ps_, _hl.sha256).digest())
            for vname, Kp in near(Kb):
                if not Kp:
                    continue
                for ename, mk in entries(Kp):
                    if quick and vname not in ("equal", "prepend-20", "prepend-09", "prepend-0a", "lstrip", "append-0a") and rng.random() < 0.6:
                        continue
                    kobj = call(mk)
                    if kobj[0] != "ok":
                        continue
                    keyarg = kobj[1]
                    ctx.note_case(("near-key", Kb, vname, ename))
                    R.note("near-key:%s" % ("equal" if Kp == Kb else "different"))
                    if isinstance(keyarg, OctKey):
                        # the material the MAC uses is exactly the octets given
                        used = call(lambda: (keyarg.raw_value, keyarg.get_op_key("verify"), keyarg.get_op_key("sign")))
                        if used[0] != "ok" or any(u != Kp for u in used[1]):
                            ctx.violation({"kind": "oct-import-not-exact", "entry": ename}, "an oct key imported (%s) from %r has key material %r" % (ename, Kp, used[1]),
                                          {"fn": "oct-import", "given_hex": Kp.hex(), "entry": ename})
                        if used[0] == "ok":
                            R.add("JOctImport %s %s" % (c_hex(Kp), c_hex(used[1][1])), {"fn": "oct-import", "what": "oct-import:" + ename, "given": Kp.hex()},
                                  force=(vname.startswith("prepend") or vname == "equal"))
                        R.des_compact(tok, keyarg, ["HS256"], Kp != Kb, (hdr, b"near-key"), "valid" if Kp == Kb else "near-key-%s:%s" % (vname, ename),
                                      coq=(ename in ("bytes", "jwk-dict")))
                    else:
                        rec.take()
                        r = call(jws.deserialize_compact, tok, keyarg, ["HS256"])
                        rec.take()
                        if (r[0] == "ok") != (Kp == Kb):
                            ctx.violation({"kind": "near-key", "entry": ename}, "a token MACed with %r %s under the raw key %r (%s)" % (
                                Kb, "verifies" if r[0] == "ok" else "is rejected: %r" % (r[1],), Kp, vname), {"fn": "near-key-raw", "token": tok.decode(), "key_hex": Kp.hex()})
        # asymmetric keys: the same key re-encoded (PEM with extra whitespace) must ACCEPT; another key must not
        from joserfc.jwk import ECKey as _EC, RSAKey as _RSA, OKPKey as _OK
        for alg, kn, cls in (("ES256", "p256", _EC), ("RS256", "rsa", _RSA), ("EdDSA", "ed25519", _OK)):
            k = K[kn]
            tok = jws.serialize_compact({"alg": alg}, b"pem", k, [alg]).encode()
            pem = k.as_pem(private=False)
            rec.take()
            for name, data, same in (("pem", pem, True), ("pem-leading-ws", b"\n  \t" + pem, True), ("pem-trailing-ws", pem + b"\n\n  ", True),
                                     ("pem-crlf", pem.replace(b"\n", b"\r\n"), True),
                                     ("pem-other-key", (K[J.other_key_same_type(kn)] if J.other_key_same_type(kn) else J.second_rsa()).as_pem(private=False), False)):
                ko = call(cls.import_key, data)
                if ko[0] != "ok":
                    if same and name == "pem":
                        ctx.violation({"kind": "pem-import"}, "importing the key's own PEM failed: %r" % (ko[1],), {"fn": "pem-import", "alg": alg})
                    continue
                R.des_compact(tok, ko[1], [alg], not same, ({"alg": alg}, b"pem"), "valid" if same else "near-key-pem-other:" + name)

        # ------------------------------------------------------------------
        # jwt.decode without a JWERegistry must never return a Token for an input that carries
        # no valid signature: JWEs encrypted to the verifier's own public key, other non-JWS values
        # ------------------------------------------------------------------
        from joserfc import jwe as _jwe, jwt as _jwt2
        from joserfc.jwk import OKPKey as _OKP
        evil = b'{"sub":"attacker","admin":true}'
        x25519 = _OKP.generate_key("X25519", {"kid": "x25519"})
        targets = [(K["rsa"], {"alg": "RSA-OAEP", "enc": "A128GCM"}), (K["p256"], {"alg": "ECDH-ES+A128KW", "enc": "A128GCM"}),
                   (K["p256"], {"alg": "ECDH-ES", "enc": "A128CBC-HS256"}), (K["p384"], {"alg": "ECDH-ES+A256KW", "enc": "A256GCM"}),
                   (x25519, {"alg": "ECDH-ES", "enc": "A128GCM"}), (K["oct16"], {"alg": "A128KW", "enc": "A128GCM"}),
                   (K["oct32"], {"alg": "dir", "enc": "A128CBC-HS256"})]
        nonjws = []
        for k, prot in targets:
            v = call(_jwe.encrypt_compact, dict(prot), evil, J.pubkey_of(k) if k.key_type != "oct" else k)
            if v[0] == "ok":
                nonjws.append((v[1], k, "jwe:" + prot["alg"]))
        nonjws += [("a.b.c.d.e", K["rsa"], "five-segments"), ("a.b.c.d", K["rsa"], "four-segments"), ("a.b", K["oct32"], "two-segments"),
                   (b64u(b'{"alg":"none"}').decode() + "." + b64u(evil).decode() + ".", K["oct32"], "alg-none")]
        rec.take()
        for value, k, what in nonjws:
            for kf_name, kf in (("key", k), ("set", KeySet([k, K["oct64"]])), ("callable", lambda obj, _k=k: _k)):
                for kw_name, kw in (("registry-omitted", {}), ("algorithms-jws-only", {"algorithms": ["RS256", "ES256", "HS256", "EdDSA"]}),
                                    ("jws-registry", {"registry": jws.JWSRegistry()}), ("algorithms-none", {"algorithms": None})):
                    r = call(_jwt2.decode, value, kf, **kw)
                    rec.take()
                    ctx.note_case(("jwt-nonjws", what, kf_name, kw_name))
                    R.note("jwt.decode:non-jws:" + what.split(":")[0])
                    if r[0] == "ok":
                        ctx.violation({"kind": "jwt-decode-unsigned", "input": what.split(":")[0]},
                                      "jwt.decode (%s, key as %s) returned claims %r for an input that carries no signature (%s)" % (kw_name, kf_name, r[1].claims, what),
                                      {"fn": "jwt.decode", "value": value, "key": k.as_dict(), "kwargs": kw_name, "what": what})

        # ------------------------------------------------------------------
        # the algorithm wrappers alone (none, ECDSA length gate)
        # ------------------------------------------------------------------
        none_alg = jws.JWSRegistry.algorithms["none"]
        for sig in (b"", b"x"):
            rec.take()
            r = call(none_alg.verify, b"m", sig, K["oct32"])
            rows, _ = rec.take()
            if r != ("ok", False):
                ctx.violation({"kind": "none-verifies"}, "none.verify returned %r" % (r[1],), {"fn": "none.verify"})
            R.add("JAlgVerify %s %s %s %s %s %s" % (J.c_table(rows), c_str("none"), J.c_key(K["oct32"]), c_hex(b"m"), c_hex(sig),
                                                  J.c_res(r, c_bool)), {"fn": "none.verify"}, force=True)
        for alg, kn in (("ES256", "p256"), ("ES384", "p384"), ("ES512", "p521"), ("ES256K", "k256")):
            inst = jws.JWSRegistry.algorithms[alg]
            k = K[kn]
            L = (k.curve_key_size + 7) // 8
            good = inst.sign(b"msg", k)
            rec.take()
            for n in sorted(set(list(range(0, 2 * L + 4)) if not quick else [0, 1, L, 2 * L - 1, 2 * L, 2 * L + 1, 2 * L + 2])):
                sig = (good + b"\x00\x00\x00\x00")[:n] if n != 2 * L else good
                rec.take()
                r = call(inst.verify, b"msg", sig, k)
                rows, calls = rec.take()
                consulted = calls and calls[-1][6] is not None
                ctx.note_case(("ec-len", alg, n))
                R.note("ecdsa-length")
                if n != 2 * L and (r != ("ok", False) or consulted):
                    ctx.violation({"kind": "ecdsa-length"}, "%s.verify with a %d-octet signature: result %r, primitive consulted: %s" % (alg, n, r[1], consulted),
                                  {"fn": "ec.verify", "alg": alg, "len": n})
                R.add("JAlgVerify %s %s %s %s %s %s" % (J.c_table(rows), c_str(alg), J.c_key(k), c_hex(b"msg"), c_hex(sig),
                                                      J.c_res(r, c_bool)), {"fn": "ec.verify", "alg": alg, "len": n}, force=True)
        (cases, meta), dist = R.select(), R.dist
    ctx.notes.append("implementation run: %.1fs, %d cases, %d chars" % (_t.time() - _t0, len(cases), sum(map(len, cases)))); _t0 = _t.time()

    ctx.coverage["rule"] = ("accepted => not derived by a fault and the returned (protected header, payload) are those of the issued token; "
                            "every tampered token is rejected with an exception; model verdict == implementation verdict per case")
    ctx.coverage["input_distribution"] = {k: v for k, v in sorted(dist.items())}
    ctx.coverage["rfc7797_json_variant"] = "fix01" if fixed else "pre-fix"
    for c in cases[:3]:
        ctx.sample({"coq_case": c[:300]})
    J.finish_correspondence(ctx, "C01", cases, meta, ok, log, "c01_check", "c01_show", "c01case")
    ctx.notes.append("coq evaluation: %.1fs" % (_t.time() - _t0))
    ctx.assumptions += [
        "json.loads and the cryptographic primitives (hmac, pyca RSA/ECDSA/EdDSA verify) are Section variables of the model; in the correspondence run they are the finite tables recorded from the real call (a query the real run did not make is a miss = disagreement)",
        "tamper theorems assume an ideal signature scheme (explicit Section hypotheses Ideal/Honest); the fault stream tests the same on the real primitives",
        "JSON serialization inputs are typed in the model: text members are str or absent, headers are dicts or absent",
    ]
    if not ctx.quick:
        ctx.coqchk()


def replay(path):
    from joserfc import jws
    from joserfc import rfc7797 as r97
    from joserfc.jwk import JWKRegistry
    d = json.load(open(path))
    r = d["replay"]
    print("replay:", json.dumps(r, default=str)[:1500])
    fn = r.get("fn", "")
    if "key" not in r or not isinstance(r["key"], dict):
        print("see the replay file")
        return 1
    key = JWKRegistry.import_key(r["key"])
    if fn.endswith("deserialize_compact"):
        f = r97.deserialize_compact if fn.startswith("rfc7797") else jws.deserialize_compact
        parg = r.get("payload_arg")
        if parg is not None:
            parg = parg.encode("latin1")
            if r.get("payload_arg_is_str"):
                parg = parg.decode("utf-8")
        args = (r["token"].encode("latin1"), key) + ((parg, r["algorithms"]) if fn.startswith("rfc7797") else (r["algorithms"],))
    else:
        f = r97.deserialize_json if fn.startswith("rfc7797") else jws.deserialize_json
        args = (r["value"], key, r["algorithms"])
    out = call(f, *args)
    print("result:", out[0], getattr(out[1], "payload", out[1]))
    return 1 if out[0] == "ok" else 0
