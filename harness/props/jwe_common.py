"""Shared JWE harness for C02 / C04 / C08: keys, interception of every external
primitive joserfc's JWE code calls (logged with exact argument octets),
runners for the public entry points, and rendering of Coq case terms for
coq/model/JweCases.v."""
from __future__ import annotations
import copy, hashlib, hmac as real_hmac, json as real_json, os, secrets as real_secrets
import lib
from lib import c_bool, c_list, c_opt, c_exn, exn_class, c_Z, c_flt


# literals: number literals parse much faster in Coq than string literals
def c_hex(b: bytes) -> str:
    return "(hx 0x1%s%%positive)" % bytes(b).hex()


def c_str(s: str) -> str:
    if all(32 <= ord(c) < 127 and c != '"' for c in s):
        if len(s) <= 12:
            return '(asc "%s")' % s
        return c_hex(s.encode("ascii"))
    return '(hex6 "%s")' % "".join("%06x" % ord(c) for c in s)


def c_pv(v) -> str:
    if v is None:
        return "PNone"
    if v is True or v is False:
        return "(PBool %s)" % c_bool(v)
    if isinstance(v, int):
        return "(PInt %s)" % c_Z(v)
    if isinstance(v, float):
        return "(PFloat %s)" % c_flt(v)
    if isinstance(v, str):
        return "(PStr %s)" % c_str(v)
    if isinstance(v, (bytes, bytearray)):
        return "(PBytes %s)" % c_hex(bytes(v))
    if isinstance(v, (list, tuple)):
        return "(PList %s)" % c_list([c_pv(x) for x in v])
    if isinstance(v, dict):
        items = []
        for k, x in v.items():
            if not isinstance(k, str):
                raise TypeError("c_pv: non-str dict key %r" % (k,))
            items.append("(%s, %s)" % (c_str(k), c_pv(x)))
        return "(PDict %s)" % c_list(items)
    raise TypeError("c_pv: cannot render %r" % (type(v),))


# --------------------------------------------------------------------------
# recorder
# --------------------------------------------------------------------------
class Rec:
    def __init__(self):
        self.active = False
        self.reset()

    def reset(self):
        self.log = []          # (name, [python values], ("ok", value) | ("err", class string))
        self.draw_models = []  # secrets.token_bytes draws of rfc7516.models (cek, iv)
        self.draw_algs = []    # draws of rfc7518.jwe_algs (GCMKW iv, PBES2 salt input)
        self.gen_keys = []     # ephemeral keys generated
        self.nondet = False

    def add(self, name, args, result):
        if not self.active:
            return
        for (n, a, r) in self.log:
            if n == name and a == args:
                if r != result:
                    self.nondet = True   # randomised primitive asked twice with the same input
                return
        self.log.append((name, args, result))


REC = Rec()
ZLIB_CALLS = []      # (input, zlib.compress output, extra args?) of every intercepted call: contract validation in c08
_installed = False


def ok(v):
    return ("ok", v)


def err(e):
    return ("err", exn_class(e))


def _hash_name(h):
    for n in ("sha1", "sha256", "sha384", "sha512"):
        if h is getattr(hashlib, n):
            return n
    name = getattr(h, "name", None) or getattr(h, "__name__", None) or repr(h)
    return str(name).replace("openssl_", "")


def key_handle(k) -> bytes:
    kt = k.key_type
    if kt == "oct":
        return k.raw_value
    if kt == "RSA":
        n = k.public_key.public_numbers().n
        return b"RSA:" + (n % (1 << 64)).to_bytes(8, "big")
    if kt == "EC":
        pn = k.public_key.public_numbers()
        size = (k.public_key.curve.key_size + 7) // 8
        return k.curve_name.encode() + b":" + pn.x.to_bytes(size, "big") + pn.y.to_bytes(size, "big")
    if kt == "OKP":
        from cryptography.hazmat.primitives import serialization as ser
        raw = k.public_key.public_bytes(ser.Encoding.Raw, ser.PublicFormat.Raw)
        return k.curve_name.encode() + b":" + raw
    raise TypeError("key_handle: %r" % (k,))


def key_desc(k):
    """python value rendered as Model.JweBase.key_to_pv"""
    kt = k.key_type
    crv = k.curve_name if kt in ("EC", "OKP") else ""
    return [kt, crv, bool(k.is_private), key_handle(k)]


def c_key(k) -> str:
    kt, crv, priv, hid = key_desc(k)
    return "(mk_key %s %s %s %s)" % (c_str(kt), c_str(crv), c_bool(priv), c_hex(hid))


def install():
    """Rebind the module-level names through which joserfc reaches external code."""
    global _installed
    if _installed:
        return
    _installed = True
    from joserfc import jwe as _jwe  # noqa: F401 (registers algorithms)
    from joserfc import util as jutil
    from joserfc.rfc7516 import models as m7516
    from joserfc.rfc7516.registry import JWERegistry
    from joserfc.rfc7517.models import BaseKey
    from joserfc.rfc7518 import jwe_encs, jwe_algs, derive_key, jwe_zips
    from joserfc.rfc7518.rsa_key import RSAKey
    from joserfc.rfc7518.ec_key import ECKey
    from joserfc.rfc8037.okp_key import OKPKey
    from joserfc.drafts import jwe_chacha20
    from joserfc.drafts.jwe_ecdh_1pu import register_ecdh_1pu
    from joserfc.drafts.jwe_chacha20 import register_chaha20_poly1305
    from joserfc.errors import InvalidExchangeKeyError
    from cryptography.exceptions import InvalidTag
    from cryptography.hazmat.primitives.ciphers import Cipher as RealCipher
    from cryptography.hazmat.primitives.ciphers.algorithms import AES as RealAES
    from cryptography.hazmat.primitives.ciphers.modes import GCM as RealGCM, CBC as RealCBC
    from cryptography.hazmat.primitives.keywrap import InvalidUnwrap
    from Crypto.Cipher import ChaCha20_Poly1305 as RealCC
    import sys
    sys.path.insert(0, os.path.join(lib.VERIF, "harness"))
    from extract_tables import pad_name

    if "ECDH-1PU" not in JWERegistry.algorithms["alg"]:
        register_ecdh_1pu()
    if "C20P" not in JWERegistry.algorithms["enc"]:
        register_chaha20_poly1305()

    # ---- hmac -----------------------------------------------------------
    class _HObj:
        def __init__(self, key, msg, dm):
            self.key, self.msg, self.dm = key, msg, dm

        def digest(self):
            try:
                d = real_hmac.new(self.key, self.msg, self.dm).digest()
            except Exception as e:
                REC.add("mac", [_hash_name(self.dm), self.key, self.msg], err(e))
                raise
            REC.add("mac", [_hash_name(self.dm), bytes(self.key), bytes(self.msg)], ok(d))
            return d

    class HmacProxy:
        compare_digest = staticmethod(real_hmac.compare_digest)

        @staticmethod
        def new(key, msg=None, digestmod=""):
            return _HObj(key, msg, digestmod)

    jwe_encs.hmac = HmacProxy

    # ---- AES / CBC / GCM through Cipher (lazy: everything happens at finalize)
    class AESProxy:
        block_size = RealAES.block_size

        def __init__(self, key):
            self.key = key

    class CBCProxy:
        kind = "CBC"

        def __init__(self, iv):
            self.iv, self.tag = iv, None

    class GCMProxy:
        kind = "GCM"

        def __init__(self, iv, tag=None, *a, **kw):
            self.iv, self.tag, self.extra, self.kw = iv, tag, a, kw      # extra arguments are passed on (and logged)

    class _Ctx:
        def __init__(self, cipher, encrypt):
            self.c, self.encrypt, self.aad, self.buf, self.tag = cipher, encrypt, None, b"", None

        def authenticate_additional_data(self, a):
            self.aad = (self.aad or b"") + bytes(a)

        def update(self, d):
            self.buf += bytes(d)
            return b""

        def finalize(self):
            key, mode = self.c.alg.key, self.c.mode
            if mode.kind == "CBC":
                name = "cbc_enc" if self.encrypt else "cbc_dec"
                args = [bytes(key), bytes(mode.iv), self.buf]
                try:
                    rc = RealCipher(RealAES(key), RealCBC(mode.iv))
                    x = rc.encryptor() if self.encrypt else rc.decryptor()
                    out = x.update(self.buf) + x.finalize()
                except Exception as e:
                    REC.add(name, args, err(e))
                    raise
                REC.add(name, args, ok(out))
                return out
            if self.encrypt:
                args = [bytes(key), bytes(mode.iv), self.aad, self.buf]
                if mode.extra or mode.kw:
                    args.append(repr((mode.extra, sorted(mode.kw.items()))))
                try:
                    rc = RealCipher(RealAES(key), RealGCM(mode.iv, None, *mode.extra, **mode.kw))
                    x = rc.encryptor()
                    if self.aad is not None:
                        x.authenticate_additional_data(self.aad)
                    out = x.update(self.buf) + x.finalize()
                    self.tag = x.tag
                except Exception as e:
                    REC.add("gcm_enc", args, err(e))
                    raise
                REC.add("gcm_enc", args, ok([out, self.tag]))
                return out
            args = [bytes(key), bytes(mode.iv), self.aad, self.buf, bytes(mode.tag)]
            if mode.extra or mode.kw:
                args.append(repr((mode.extra, sorted(mode.kw.items()))))
            try:
                rc = RealCipher(RealAES(key), RealGCM(mode.iv, mode.tag, *mode.extra, **mode.kw))
                x = rc.decryptor()
                if self.aad is not None:
                    x.authenticate_additional_data(self.aad)
                out = x.update(self.buf) + x.finalize()
            except InvalidTag:
                REC.add("gcm_dec", args, ok(None))
                raise
            except Exception as e:
                REC.add("gcm_dec", args, err(e))
                raise
            REC.add("gcm_dec", args, ok(out))
            return out

    class CipherProxy:
        def __init__(self, algorithm, mode, backend=None):
            self.alg, self.mode = algorithm, mode

        def encryptor(self):
            return _Ctx(self, True)

        def decryptor(self):
            return _Ctx(self, False)

    for mod in (jwe_encs, jwe_algs):
        mod.Cipher, mod.AES, mod.GCM = CipherProxy, AESProxy, GCMProxy
    jwe_encs.CBC = CBCProxy

    # ---- ChaCha20-Poly1305 ---------------------------------------------------
    class _CC:
        def __init__(self, key, nonce):
            self.key, self.nonce, self.aad = bytes(key), bytes(nonce), b""

        def update(self, aad):
            self.aad += bytes(aad)

        def encrypt_and_digest(self, pt):
            args = [self.key, self.nonce, self.aad, bytes(pt)]
            try:
                c = RealCC.new(key=self.key, nonce=self.nonce)
                c.update(self.aad)
                ct, tag = c.encrypt_and_digest(pt)
            except Exception as e:
                REC.add("cc_enc", args, err(e))
                raise
            REC.add("cc_enc", args, ok([ct, tag]))
            return ct, tag

        def decrypt_and_verify(self, ct, tag):
            args = [self.key, self.nonce, self.aad, bytes(ct), bytes(tag)]
            try:
                c = RealCC.new(key=self.key, nonce=self.nonce)
                c.update(self.aad)
                out = c.decrypt_and_verify(ct, tag)
            except Exception as e:
                REC.add("cc_dec", args, err(e))
                raise
            REC.add("cc_dec", args, ok(out))
            return out

    class CCProxy:
        @staticmethod
        def new(key=None, nonce=None):
            return _CC(key, nonce)

    jwe_chacha20.ChaCha20_Poly1305 = CCProxy

    # ---- AES key wrap ------------------------------------------------------
    real_wrap, real_unwrap = jwe_algs.aes_key_wrap, jwe_algs.aes_key_unwrap

    def aes_key_wrap(key, cek, backend=None):
        try:
            out = real_wrap(key, cek, backend)
        except Exception as e:
            REC.add("kw_wrap", [bytes(key), bytes(cek)], err(e))
            raise
        REC.add("kw_wrap", [bytes(key), bytes(cek)], ok(out))
        return out

    def aes_key_unwrap(key, ek, backend=None):
        try:
            out = real_unwrap(key, ek, backend)
        except InvalidUnwrap:
            REC.add("kw_unwrap", [bytes(key), bytes(ek)], ok(None))
            raise
        except Exception as e:
            REC.add("kw_unwrap", [bytes(key), bytes(ek)], err(e))
            raise
        REC.add("kw_unwrap", [bytes(key), bytes(ek)], ok(out))
        return out

    jwe_algs.aes_key_wrap, jwe_algs.aes_key_unwrap = aes_key_wrap, aes_key_unwrap

    # ---- PBKDF2 / Concat KDF ---------------------------------------------------
    RealPB, RealCK = jwe_algs.PBKDF2HMAC, derive_key.ConcatKDFHash

    class PBProxy:
        def __init__(self, algorithm=None, length=None, salt=None, iterations=None, backend=None):
            self.a = (algorithm, length, salt, iterations)

        def derive(self, key):
            algorithm, length, salt, iterations = self.a
            args = [_hash_name(algorithm), bytes(key), bytes(salt), iterations, length]
            try:
                out = RealPB(algorithm=algorithm, length=length, salt=salt, iterations=iterations).derive(key)
            except Exception as e:
                REC.add("pbkdf2", args, err(e))
                raise
            REC.add("pbkdf2", args, ok(out))
            return out

    class CKProxy:
        def __init__(self, algorithm=None, length=None, otherinfo=None, backend=None):
            self.a = (algorithm, length, otherinfo)

        def derive(self, z):
            algorithm, length, otherinfo = self.a
            args = [_hash_name(algorithm), bytes(z), bytes(otherinfo or b""), length]
            try:
                out = RealCK(algorithm=algorithm, length=length, otherinfo=otherinfo).derive(z)
            except Exception as e:
                REC.add("ckdf", args, err(e))
                raise
            REC.add("ckdf", args, ok(out))
            return out

    jwe_algs.PBKDF2HMAC, derive_key.ConcatKDFHash = PBProxy, CKProxy

    # ---- RSA op keys -----------------------------------------------------------
    class RsaProxy:
        def __init__(self, k, handle):
            self.k, self.handle = k, handle

        @property
        def key_size(self):
            REC.add("rsa_bits", [self.handle], ok(self.k.key_size))
            return self.k.key_size

        def encrypt(self, data, padding):
            args = [self.handle, pad_name(padding), bytes(data)]
            try:
                out = self.k.encrypt(data, padding)
            except Exception as e:
                REC.add("rsa_enc", args, err(e))
                raise
            REC.add("rsa_enc", args, ok(out))
            return out

        def decrypt(self, data, padding):
            args = [self.handle, pad_name(padding), bytes(data)]
            try:
                out = self.k.decrypt(data, padding)
            except Exception as e:
                REC.add("rsa_dec", args, err(e))
                raise
            REC.add("rsa_dec", args, ok(out))
            return out

    def rsa_get_op_key(self, operation):
        k = BaseKey.get_op_key(self, operation)
        return RsaProxy(k, key_handle(self)) if REC.active else k

    RSAKey.get_op_key = rsa_get_op_key

    # ---- ECDH ------------------------------------------------------------------
    def wrap_exchange(K):
        orig = K.exchange_derive_key

        def exchange_derive_key(self, key):
            if not REC.active:
                return orig(self, key)
            try:
                z = orig(self, key)
            except InvalidExchangeKeyError:
                raise                      # the gate refused: the primitive was not called
            except Exception as e:
                REC.add("ecdh", [key_handle(self), key_handle(key)], err(e))
                raise
            REC.add("ecdh", [key_handle(self), key_handle(key)], ok(z))
            return z
        K.exchange_derive_key = exchange_derive_key

    wrap_exchange(ECKey)
    wrap_exchange(OKPKey)

    # ---- validating JWK import (epk) and ephemeral key generation -----------------
    orig_import = BaseKey.import_key.__func__

    def import_key(cls, value, parameters=None, password=None):
        if not (REC.active and isinstance(value, dict)):
            return orig_import(cls, value, parameters, password)
        arg = copy.deepcopy(value)
        try:
            k = orig_import(cls, value, parameters, password)
        except Exception as e:
            REC.add("import", [cls.key_type, arg], err(e))
            raise
        REC.add("import", [cls.key_type, arg], ok(key_desc(k)))
        return k

    BaseKey.import_key = classmethod(import_key)

    def wrap_generate(K):
        orig = K.generate_key.__func__

        def generate_key(cls, *a, **kw):
            k = orig(cls, *a, **kw)
            if REC.active:
                REC.gen_keys.append(k)
            return k
        K.generate_key = classmethod(generate_key)

    wrap_generate(ECKey)
    wrap_generate(OKPKey)

    # ---- json --------------------------------------------------------------------
    class JsonProxy:
        JSONDecodeError = real_json.JSONDecodeError

        @staticmethod
        def loads(s, *a, **kw):
            arg = bytes(s) if isinstance(s, (bytes, bytearray)) else s
            try:
                r = real_json.loads(s, *a, **kw)
            except Exception as e:
                REC.add("loads", [arg], err(e))
                raise
            REC.add("loads", [arg], ok(copy.deepcopy(r)))
            return r

        @staticmethod
        def dumps(obj, *a, **kw):
            arg = copy.deepcopy(obj)
            try:
                out = real_json.dumps(obj, *a, **kw)
            except Exception as e:
                REC.add("dumps", [arg], err(e))
                raise
            REC.add("dumps", [arg], ok(out))
            return out

    jutil.json = JsonProxy

    # ---- zip, header check, randomness ----------------------------------------------
    Z = jwe_zips.DeflateZipModel
    od = Z.decompress
    import zlib as real_zlib

    class ZlibProxy:
        """jwe_zips.zlib: zlib.compress is the primitive of DeflateZipModel.compress (the model strips the 2-octet
        header and the Adler-32 itself); everything else is passed through unlogged, so a compressor reached another
        way is an oracle miss in the model"""
        def __getattr__(self, name):
            return getattr(real_zlib, name)

        def compress(self, s, *a, **kw):
            args = [bytes(s)]          # a compression level is not part of the framing: same primitive
            try:
                out = real_zlib.compress(s, *a, **kw)
            except Exception as e:
                REC.add("deflate", args, err(e))
                raise
            REC.add("deflate", args, ok(out))
            if len(ZLIB_CALLS) < 5000:
                ZLIB_CALLS.append((bytes(s), out, bool(a or kw)))
            return out

    jwe_zips.zlib = ZlibProxy()

    def decompress(self, s):
        try:
            out = od(self, s)
        except Exception as e:
            REC.add("inflate", [bytes(s)], err(e))
            raise
        REC.add("inflate", [bytes(s)], ok(out))
        return out

    Z.decompress = decompress

    och = JWERegistry.check_header

    def check_header(self, header, check_more=False):
        arg = copy.deepcopy(header)
        try:
            och(self, header, check_more)
        except Exception as e:
            REC.add("check_header", [arg, bool(check_more)], err(e))
            raise
        REC.add("check_header", [arg, bool(check_more)], ok(None))

    JWERegistry.check_header = check_header

    class SecProxy:
        def __init__(self, sink):
            self.sink = sink

        def token_bytes(self, n=None):
            b = real_secrets.token_bytes(n)
            if REC.active:
                getattr(REC, self.sink).append(b)
            return b

    m7516.secrets = SecProxy("draw_models")
    jwe_algs.secrets = SecProxy("draw_algs")


class recording:
    def __enter__(self):
        REC.reset()
        REC.active = True
        return REC

    def __exit__(self, *a):
        REC.active = False


# --------------------------------------------------------------------------
# algorithm catalogue and keys
# --------------------------------------------------------------------------
RSA_ALGS = ["RSA1_5", "RSA-OAEP", "RSA-OAEP-256"]
KW_ALGS = ["A128KW", "A192KW", "A256KW"]
GCMKW_ALGS = ["A128GCMKW", "A192GCMKW", "A256GCMKW"]
PBES2_ALGS = ["PBES2-HS256+A128KW", "PBES2-HS384+A192KW", "PBES2-HS512+A256KW"]
ES_ALGS = ["ECDH-ES", "ECDH-ES+A128KW", "ECDH-ES+A192KW", "ECDH-ES+A256KW"]
PU_ALGS = ["ECDH-1PU", "ECDH-1PU+A128KW", "ECDH-1PU+A192KW", "ECDH-1PU+A256KW"]
ALL_ALGS = RSA_ALGS + KW_ALGS + ["dir"] + ES_ALGS + GCMKW_ALGS + PBES2_ALGS + PU_ALGS
DIRECT_ALGS = ["dir", "ECDH-ES", "ECDH-1PU"]
CBC_ENCS = ["A128CBC-HS256", "A192CBC-HS384", "A256CBC-HS512"]
GCM_ENCS = ["A128GCM", "A192GCM", "A256GCM"]
CC_ENCS = ["C20P", "XC20P"]
ALL_ENCS = CBC_ENCS + GCM_ENCS + CC_ENCS
CEK_BITS = {"A128CBC-HS256": 256, "A192CBC-HS384": 384, "A256CBC-HS512": 512,
            "A128GCM": 128, "A192GCM": 192, "A256GCM": 256, "C20P": 256, "XC20P": 256}
IV_BITS = {"A128CBC-HS256": 128, "A192CBC-HS384": 128, "A256CBC-HS512": 128,
           "A128GCM": 96, "A192GCM": 96, "A256GCM": 96, "C20P": 96, "XC20P": 192}
EC_CURVES = ["P-256", "P-384", "P-521", "secp256k1"]
OKP_CURVES = ["X25519", "X448"]
ALL_CURVES = EC_CURVES + OKP_CURVES
ALL_NAMES = ALL_ALGS + ALL_ENCS + ["DEF"]


def alg_kw_bits(alg):
    for b in ("128", "192", "256"):
        if ("A%sKW" % b) in alg or ("A%sGCMKW" % b) in alg:
            return int(b)
    return None


def is_agreement(alg):
    return alg.startswith("ECDH-")


def valid_combo(alg, enc):
    """ECDH-1PU key wrapping is only defined with the CBC-HMAC family"""
    return not (alg in PU_ALGS[1:] and enc not in CBC_ENCS)


class Keys:
    """oct keys of every size, ONE generated RSA-2048 key (+ a fixed second one
    for wrong-key tests), EC on four curves, X25519 / X448; two of each."""
    _rsa = None

    def __init__(self, rng):
        install()
        from joserfc.jwk import OctKey, RSAKey, ECKey, OKPKey
        self.rng = rng
        self.oct, self.oct_alt = {}, {}
        for bits in (128, 192, 256, 384, 512):
            self.oct[bits] = OctKey.import_key(bytes(rng.randrange(256) for _ in range(bits // 8)))
            self.oct_alt[bits] = OctKey.import_key(bytes(rng.randrange(256) for _ in range(bits // 8)))
        if Keys._rsa is None:
            Keys._rsa = RSAKey.generate_key(2048)
            Keys._rsa_alt = RSAKey.generate_key(2048)
        self.rsa, self.rsa_alt = Keys._rsa, Keys._rsa_alt
        self.ec = {c: ECKey.generate_key(c) for c in EC_CURVES}
        self.ec_alt = {c: ECKey.generate_key(c) for c in EC_CURVES}
        self.ec_sender = {c: ECKey.generate_key(c) for c in EC_CURVES}
        self.okp = {c: OKPKey.generate_key(c) for c in OKP_CURVES}
        self.okp_alt = {c: OKPKey.generate_key(c) for c in OKP_CURVES}
        self.okp_sender = {c: OKPKey.generate_key(c) for c in OKP_CURVES}

    def curve_key(self, crv, which="main"):
        d = {"main": (self.ec, self.okp), "alt": (self.ec_alt, self.okp_alt),
             "sender": (self.ec_sender, self.okp_sender)}[which]
        return d[0][crv] if crv in EC_CURVES else d[1][crv]

    def for_alg(self, alg, enc, crv="P-256", which="main"):
        o = self.oct if which == "main" else self.oct_alt
        if alg == "dir":
            return o[CEK_BITS[enc]]
        if alg in KW_ALGS or alg in GCMKW_ALGS:
            return o[alg_kw_bits(alg)]
        if alg in PBES2_ALGS:
            return o[128]
        if alg in RSA_ALGS:
            return self.rsa if which == "main" else self.rsa_alt
        return self.curve_key(crv, which)


def registry(verify_all=True, names=None):
    from joserfc.jwe import JWERegistry
    return JWERegistry(algorithms=list(names or ALL_NAMES), verify_all_recipients=verify_all)


PREAMBLE = None


def preamble():
    return ("Definition gT := mk_reg (Some %s) true.\nDefinition gF := mk_reg (Some %s) false.\n" % (
        c_list([c_str(n) for n in ALL_NAMES]), c_list([c_str(n) for n in ALL_NAMES])))


def c_registry(verify_all=True, names=None):
    if names is None:
        return "gT" if verify_all else "gF"
    return "(mk_reg (Some %s) %s)" % (c_list([c_str(n) for n in (names or ALL_NAMES)]), c_bool(verify_all))


# --------------------------------------------------------------------------
# rendering
# --------------------------------------------------------------------------
def c_dict(d):
    return c_list(["(%s, %s)" % (c_str(k), c_pv(v)) for k, v in d.items()])


def c_otable(log):
    rows = []
    for name, args, (tag, val) in log:
        r = "Ok %s" % c_pv(val) if tag == "ok" else "Err %s" % c_exn(val)
        rows.append('(asc "%s", %s, %s)' % (name, c_list([c_pv(a) for a in args]), r))
    return c_list(rows)


def c_obs_dec(obs):
    if obs[0] == "ok":
        return "(Ok (%s, %s))" % (c_hex(obs[1]), c_pv(obs[2]))
    return "(Err %s)" % c_exn(obs[1])


def table_chars(log):
    n = 0
    for _, args, (_, val) in log:
        for a in list(args) + [val]:
            if isinstance(a, (bytes, str)):
                n += len(a)
            elif isinstance(a, list):
                n += sum(len(x) for x in a if isinstance(x, (bytes, str)))
    return n


# --------------------------------------------------------------------------
# runners
# --------------------------------------------------------------------------
def key_picker(keys):
    """a callable key: the i-th call returns the i-th key (one call per recipient)"""
    state = {"i": 0}

    def pick(obj):
        i = state["i"]
        state["i"] += 1
        return keys[min(i, len(keys) - 1)]
    return pick


def do_decrypt(ser, token, keys, sender=None, verify_all=True, names=None):
    """ser: 'compact' | 'json'.  keys: one Key per recipient.  -> (obs, rec-snapshot)"""
    from joserfc import jwe
    reg = registry(verify_all, names)
    with recording() as rec:
        try:
            if ser == "compact":
                o = jwe.decrypt_compact(token, keys[0], registry=reg, sender_key=sender)
            else:
                o = jwe.decrypt_json(copy.deepcopy(token), key_picker(keys), registry=reg, sender_key=sender)
            obs = ("ok", bytes(o.plaintext), copy.deepcopy(o.protected), o)
        except BaseException as e:  # noqa
            obs = ("err", exn_class(e), e)
    return obs, (list(rec.log), rec.nondet)


def case_dec(ser, token, keys, sender, verify_all, obs, log, names=None):
    g = c_registry(verify_all, names)
    sk = c_opt(sender, c_key)
    if ser == "compact":
        tb = token if isinstance(token, bytes) else token.encode("utf-8")
        return "CDecCompact %s %s %s %s %s %s" % (c_otable(log), g, c_hex(tb), c_key(keys[0]), sk, c_obs_dec(obs))
    return "CDecJson %s %s %s %s %s %s" % (c_otable(log), g, c_pv(token), c_list([c_key(k) for k in keys]), sk, c_obs_dec(obs))


def merged_headers(ser, protected, unprotected, header):
    rv = dict(protected)
    if ser != "compact" and unprotected:
        rv.update(unprotected)
    if header:
        rv.update(header)
    return rv


def do_encrypt(ser, protected, plaintext, recips, unprotected=None, aad=None, sender=None,
               verify_all=True, names=None):
    """ser: compact | flat | general; recips: [(header|None, Key)].
    -> (obs, info) with info = everything the model needs as input"""
    from joserfc import jwe
    reg = registry(verify_all, names)
    prot_in = copy.deepcopy(protected)
    hdr_in = [copy.deepcopy(h) for h, _ in recips]
    with recording() as rec:
        try:
            if ser == "compact":
                out = jwe.encrypt_compact(copy.deepcopy(protected), plaintext, recips[0][1], registry=reg, sender_key=sender)
                obs = ("ok", out.encode("utf-8"))
            else:
                cls = jwe.FlattenedJSONEncryption if ser == "flat" else jwe.GeneralJSONEncryption
                obj = cls(copy.deepcopy(protected), plaintext, copy.deepcopy(unprotected), aad)
                for h, k in recips:
                    obj.add_recipient(copy.deepcopy(h), k)
                out = jwe.encrypt_json(obj, None, registry=reg, sender_key=sender)
                obs = ("ok", copy.deepcopy(out))
        except BaseException as e:  # noqa
            obs = ("err", exn_class(e), e)
    eff = recips if ser != "flat" else recips[-1:]
    eff_hdr = hdr_in if ser != "flat" else hdr_in[-1:]
    # attribute the recorded draws
    gen = list(rec.gen_keys)
    dm, da = list(rec.draw_models), list(rec.draw_algs)
    algs = [merged_headers(ser, prot_in, unprotected, h).get("alg") for h in eff_hdr]
    all_direct = all(a in DIRECT_ALGS for a in algs)
    cek, civ = b"", b""
    if len(dm) >= 2:
        cek, civ = dm[0], dm[1]
    elif len(dm) == 1:
        if all_direct:
            civ = dm[0]
        else:
            cek = dm[0]
    rdraws, ephs = [], []
    for h, a in zip(eff_hdr, algs):
        kwiv, p2s, eph = b"", b"", None
        if isinstance(a, str) and a in GCMKW_ALGS and da:
            kwiv = da.pop(0)
        if isinstance(a, str) and a in PBES2_ALGS and "p2s" not in merged_headers(ser, prot_in, unprotected, h) and da:
            p2s = da.pop(0)
        if isinstance(a, str) and is_agreement(a) and gen:
            eph = gen.pop(0)
        rdraws.append((kwiv, p2s))
        ephs.append(eph)
    info = {"ser": ser, "protected": prot_in, "unprotected": copy.deepcopy(unprotected), "aad": aad,
            "plaintext": plaintext, "recips": [(h, k) for h, (_, k) in zip(eff_hdr, eff)],
            "sender": sender, "cek": cek, "civ": civ, "rdraws": rdraws, "ephs": ephs,
            "verify_all": verify_all, "names": names, "log": list(rec.log), "nondet": rec.nondet}
    return obs, info


def case_enc(obs, info, with_keys=False):
    ser = info["ser"]
    sk = c_opt(info["sender"], c_key)
    rs = []
    for (h, k), eph in zip(info["recips"], info["ephs"]):
        e = "None" if eph is None else "(Some (%s, %s))" % (c_key(eph), c_pv(eph.as_dict(private=False)))
        rs.append("(mk_recip %s %s %s %s)" % (c_pv(h), c_key(k), sk, e))
    o = "(mk_eobj %s %s %s %s %s %s)" % (
        {"compact": "Compact", "flat": "Flat", "general": "General"}[ser], c_dict(info["protected"]),
        c_pv(info["unprotected"]), c_opt(info["aad"], c_hex), c_hex(info["plaintext"]), c_list(rs))
    d = "(mk_edraw %s %s %s)" % (c_hex(info["cek"]), c_hex(info["civ"]),
                                 c_list(["(mk_rdraw %s %s)" % (c_hex(a), c_hex(b)) for a, b in info["rdraws"]]))
    g = c_registry(info["verify_all"], info["names"])
    head = "%s %s %s %s" % (c_otable(info["log"]), g, o, d)
    if ser == "compact":
        exp = "(Ok %s)" % c_hex(obs[1]) if obs[0] == "ok" else "(Err %s)" % c_exn(obs[1])
        if with_keys:
            return "CEncCompactK %s %s %s %s" % (head, c_kkey(info["recips"][0][1]), c_opt(info["sender"], c_kkey), exp)
        return "CEncCompact %s %s" % (head, exp)
    exp = "(Ok %s)" % c_pv(obs[1]) if obs[0] == "ok" else "(Err %s)" % c_exn(obs[1])
    if with_keys:
        ks = c_list(["(%s, %s)" % (c_kkey(k), c_opt(info["sender"], c_kkey)) for _, k in info["recips"]])
        return "CEncJsonK %s %s %s" % (head, ks, exp)
    return "CEncJson %s %s" % (head, exp)


IMPORTS = ["From Model Require Import Base PyVal JweBase JweCrypto JweMsg JweKeys JweCases."]


# --------------------------------------------------------------------------
# token surgery
# --------------------------------------------------------------------------
def b64e(b: bytes) -> str:
    import base64
    return base64.urlsafe_b64encode(b).rstrip(b"=").decode("ascii")


def b64d(s) -> bytes:
    import base64
    if isinstance(s, str):
        s = s.encode("ascii")
    return base64.urlsafe_b64decode(s + b"=" * (-len(s) % 4))


def compact_segments(tok: str):
    return [b64d(p) for p in tok.split(".")]


def compact_join(segs):
    return ".".join(b64e(s) for s in segs)


def decoded_view(ser, token):
    """The decoded octets of a token (what the property's oracle compares):
    compact: 5 segments; json: protected, iv, ciphertext, tag, aad, unprotected, recipients"""
    if ser == "compact":
        t = token.decode() if isinstance(token, bytes) else token
        return ("compact",) + tuple(compact_segments(t))
    d = token
    rec = d.get("recipients")
    if rec is None:
        rec = [{k: d[k] for k in ("header", "encrypted_key") if k in d}]
    return ("json", b64d(d["protected"]), b64d(d["iv"]), b64d(d["ciphertext"]), b64d(d["tag"]),
            b64d(d["aad"]) if "aad" in d else b"",      # an absent aad member is the empty octet sequence
            real_json.dumps(d.get("unprotected"), sort_keys=True),
            tuple((real_json.dumps(r.get("header"), sort_keys=True),
                   b64d(r["encrypted_key"]) if "encrypted_key" in r else b"") for r in rec))


# --------------------------------------------------------------------------
# token specifications (shared generators)
# --------------------------------------------------------------------------
def recipient_header(rng, alg, apu=None, apv=None, p2c="small", kid=None):
    h = {"alg": alg}
    if alg in PBES2_ALGS and p2c == "small":
        h["p2c"] = rng.choice([1, 2, 7, 16])
    if is_agreement(alg):
        if apu is not None:
            h["apu"] = b64e(apu)
        if apv is not None:
            h["apv"] = b64e(apv)
    if kid is not None:
        h["kid"] = kid
    return h


def make_spec(K, rng, ser, algs, enc, crv="P-256", zip_=False, plaintext=b"", aad=None,
              apu=None, apv=None, alg_in="auto", unprotected=None, p2c="small"):
    """algs: one alg per recipient (compact / flat: exactly one)."""
    protected = {"enc": enc}
    if zip_:
        protected["zip"] = "DEF"
    sender = K.curve_key(crv, "sender") if any(a in PU_ALGS for a in algs) else None
    recips = []
    for i, alg in enumerate(algs):
        h = recipient_header(rng, alg, apu, apv, p2c)
        key = K.for_alg(alg, enc, crv)
        if ser == "compact":
            protected = dict(list(h.items()) + list(protected.items()))
            recips.append((None, key))
        elif alg_in == "protected" and len(algs) == 1:
            protected = dict(list(protected.items()) + list(h.items()))
            recips.append((None, key))
        else:
            recips.append((h, key))
    return {"ser": ser, "protected": protected, "unprotected": unprotected, "recips": recips,
            "sender": sender, "aad": aad if ser != "compact" else None, "plaintext": plaintext,
            "algs": list(algs), "enc": enc, "crv": crv}


def encrypt_spec(spec, verify_all=True):
    return do_encrypt(spec["ser"], spec["protected"], spec["plaintext"], spec["recips"],
                      unprotected=spec["unprotected"], aad=spec["aad"], sender=spec["sender"],
                      verify_all=verify_all)


def dec_ser(ser):
    return "compact" if ser == "compact" else "json"


def token_of(obs):
    """the token as it is handed to decrypt (str for compact, dict for json)"""
    return obs[1].decode("ascii") if isinstance(obs[1], bytes) else obs[1]


def key_jwk(k):
    return None if k is None else k.as_dict(private=True)


def key_from_jwk(d):
    from joserfc.jwk import JWKRegistry
    return None if d is None else JWKRegistry.import_key(d)


# --------------------------------------------------------------------------
# evaluation of the cases in Coq: small shards (memory), one retry of shards whose
# coqc process died without a verdict (e.g. killed under memory pressure)
# --------------------------------------------------------------------------
def coq_eval(cases, shard=30, max_chars=90000, jobs=10, attempt=0):
    import time as _t
    ev = lib.CoqEval(IMPORTS, "jwecase", "jwe_check", "jwe_show", shard=shard, max_chars=max_chars, preamble=preamble())
    # CoqEval.run gives up after `timeout` seconds for the whole batch: scale it with the batch
    res = ev.run(cases, jobs=jobs, timeout=900 + len(cases) // 4)
    if not res["errors"] or attempt >= 3:
        return res
    # shard boundaries, as CoqEval.run computes them
    bounds, start, size = [], 0, 0
    for i, c in enumerate(cases):
        if i > start and (i - start >= shard or size + len(c) > max_chars):
            bounds.append((start, i)); start, size = i, 0
        size += len(c)
    if cases:
        bounds.append((start, len(cases)))
    ends = dict(bounds)
    errors = []
    for si, out in res["errors"]:
        if si not in ends or "Error" in out:
            errors.append((si, out))        # a genuine Coq error: keep it
            continue
        # the process died without a verdict (killed under memory pressure / timeout): evaluate again, smaller and slower
        _t.sleep(2 * (attempt + 1))
        sub = cases[si:ends[si]]
        r2 = coq_eval(sub, shard=max(1, len(sub) // 3 + 1), max_chars=max_chars, jobs=2, attempt=attempt + 1)
        res["evaluated"] += r2["evaluated"]
        res["failing"] += [si + i for i in r2["failing"]]
        for k, v in r2["shows"].items():
            res["shows"][si + k] = v
        errors += [(si + a, b) for a, b in r2["errors"]]
    res["errors"] = errors
    res["failing"].sort()
    return res


# --------------------------------------------------------------------------
# key resolution (model/JweKeys.v): Key / KeySet / callable, kid, use, skid
# --------------------------------------------------------------------------
def key_with(k, **params):
    """a copy of key k with extra JWK members (kid, use, ...)"""
    from joserfc.jwk import JWKRegistry
    d = k.as_dict(private=True)
    for a, b in params.items():
        if b is None:
            d.pop(a, None)
        else:
            d[a] = b
    return JWKRegistry.import_key(d)


def c_kkey(k) -> str:
    return "(mk_kkey %s %s %s)" % (c_key(k), c_pv(k.get("kid")), c_pv(k.get("use")))


def c_src0(x) -> str:
    from joserfc.jwk import KeySet
    if isinstance(x, KeySet):
        return "(KSet %s)" % c_list([c_kkey(k) for k in x.keys])
    return "(KOne %s)" % c_kkey(x)


def c_src(x) -> str:
    if isinstance(x, list):
        return "(KFun %s)" % c_list([c_src0(y) for y in x])
    return "(KPlain %s)" % c_src0(x)


def do_decrypt_k(ser, token, keysrc, sender=None, verify_all=True):
    """keysrc: Key | KeySet | list of them (handed over as a callable, one call per recipient)"""
    from joserfc import jwe
    reg = registry(verify_all)
    pk = key_picker(keysrc) if isinstance(keysrc, list) else keysrc
    with recording() as rec:
        try:
            if ser == "compact":
                o = jwe.decrypt_compact(token, pk, registry=reg, sender_key=sender)
            else:
                o = jwe.decrypt_json(copy.deepcopy(token), pk, registry=reg, sender_key=sender)
            obs = ("ok", bytes(o.plaintext), copy.deepcopy(o.protected), o)
        except BaseException as e:  # noqa
            obs = ("err", exn_class(e), e)
    return obs, (list(rec.log), rec.nondet)


def case_dec_k(ser, token, keysrc, sender, verify_all, obs, log):
    g = c_registry(verify_all)
    sk = c_opt(sender, c_src0)
    if ser == "compact":
        tb = token if isinstance(token, bytes) else token.encode("utf-8")
        return "CDecCompactK %s %s %s %s %s %s" % (c_otable(log), g, c_hex(tb), c_src(keysrc), sk, c_obs_dec(obs))
    return "CDecJsonK %s %s %s %s %s %s" % (c_otable(log), g, c_pv(token), c_src(keysrc), sk, c_obs_dec(obs))


def case_enc_k(obs, info):
    """like case_enc, with the use checks of the recipient / sender Key objects"""
    return case_enc(obs, info, with_keys=True)


# --------------------------------------------------------------------------
# registry selection of the entry points: none / algorithms= / registry= / both
# --------------------------------------------------------------------------
SEL_MODES = [("none", None, None), ("algorithms", True, None), ("registry-true", None, True),
             ("registry-false", None, False), ("both-true", True, True), ("both-false", True, False)]


def do_decrypt_sel(ser, token, keys, sender=None, algorithms=None, reg=None):
    """algorithms: list of names or None; reg: None or the verify_all_recipients of a caller's own registry"""
    from joserfc import jwe
    kw = {}
    if algorithms is not None:
        kw["algorithms"] = list(algorithms)
    if reg is not None:
        kw["registry"] = registry(reg)
    with recording() as rec:
        try:
            if ser == "compact":
                o = jwe.decrypt_compact(token, keys[0], sender_key=sender, **kw)
            else:
                o = jwe.decrypt_json(copy.deepcopy(token), key_picker(keys), sender_key=sender, **kw)
            obs = ("ok", bytes(o.plaintext), copy.deepcopy(o.protected), o)
        except BaseException as e:  # noqa
            obs = ("err", exn_class(e), e)
    return obs, (list(rec.log), rec.nondet)


def case_dec_sel(ser, token, keys, sender, algorithms, reg, obs, log):
    a = "None" if algorithms is None else "(Some %s)" % c_list([c_str(n) for n in algorithms])
    r = "None" if reg is None else "(Some %s)" % ("gT" if reg else "gF")
    sk = c_opt(sender, c_key)
    if ser == "compact":
        tb = token if isinstance(token, bytes) else token.encode("utf-8")
        return "CDecCompactSel %s %s %s %s %s %s %s" % (c_otable(log), a, r, c_hex(tb), c_key(keys[0]), sk, c_obs_dec(obs))
    return "CDecJsonSel %s %s %s %s %s %s %s" % (c_otable(log), a, r, c_pv(token), c_list([c_key(k) for k in keys]), sk, c_obs_dec(obs))


# --------------------------------------------------------------------------
# operation sequences on message objects (re-encryption of an existing object)
# --------------------------------------------------------------------------
def do_encrypt_obj(obj, sender=None, verify_all=True):
    """jwe.encrypt_json on an EXISTING Flattened/General object (keys attached to its recipients);
    -> (obs, info) where info describes the object's state BEFORE the call (the model's input)"""
    from joserfc import jwe
    reg = registry(verify_all)
    ser = "flat" if obj.flattened else "general"
    prot_in = copy.deepcopy(obj.protected)
    unprot_in = copy.deepcopy(obj.unprotected)
    recs_in = [(copy.deepcopy(r.header), r.recipient_key, r.ephemeral_key, r.sender_key) for r in obj.recipients]
    gen_flags = [bool(getattr(r, "_ephemeral_key_generated", False)) for r in obj.recipients]
    prior = [(k, bytes(v)) for k, v in obj.base64_segments.items()]
    aad_in, pt_in = obj.aad, obj.plaintext
    with recording() as rec:
        try:
            out = jwe.encrypt_json(obj, None, registry=reg, sender_key=sender)
            obs = ("ok", copy.deepcopy(out))
        except BaseException as e:  # noqa
            obs = ("err", exn_class(e), e)
    gen, dm, da = list(rec.gen_keys), list(rec.draw_models), list(rec.draw_algs)
    algs = [merged_headers(ser, prot_in, unprot_in, h).get("alg") for h, _, _, _ in recs_in]
    all_direct = all(a in DIRECT_ALGS for a in algs)
    cek, civ = b"", b""
    if len(dm) >= 2:
        cek, civ = dm[0], dm[1]
    elif len(dm) == 1:
        if all_direct:
            civ = dm[0]
        else:
            cek = dm[0]
    rdraws, ephs, estates = [], [], []
    for (h, _, eph0, _), a, gflag in zip(recs_in, algs, gen_flags):
        kwiv, p2s, draw = b"", b"", None
        if isinstance(a, str) and a in GCMKW_ALGS and da:
            kwiv = da.pop(0)
        if isinstance(a, str) and a in PBES2_ALGS and "p2s" not in merged_headers(ser, prot_in, unprot_in, h) and da:
            p2s = da.pop(0)
        # a generation event belongs to the next key-agreement recipient that has no caller-set ephemeral key
        if isinstance(a, str) and is_agreement(a) and (eph0 is None or gflag) and gen:
            draw = gen.pop(0)
        rdraws.append((kwiv, p2s))
        ephs.append(eph0)                       # the RAW state: what the object carried before the call
        estates.append((eph0, gflag, draw))
    snd = sender if sender is not None else next((s for _, _, _, s in recs_in if s is not None), None)
    info = {"ser": ser, "protected": prot_in, "unprotected": unprot_in, "aad": aad_in, "plaintext": pt_in,
            "recips": [(h, k) for h, k, _, _ in recs_in], "sender": snd, "cek": cek, "civ": civ, "rdraws": rdraws,
            "ephs": ephs, "verify_all": verify_all, "names": None, "log": list(rec.log), "nondet": rec.nondet,
            "prior": prior, "estates": estates}
    return obs, info


def case_enc_prior(obs, info):
    base = case_enc(obs, info)              # "CEncJson <table> <g> <o> <d> <exp>"
    assert base.startswith("CEncJson ")
    table = c_otable(info["log"])
    rest = base[len("CEncJson ") + len(table) + 1:]
    g, tail = rest.split(" ", 1)
    prior = c_list(["(%s, %s)" % (c_str(k), c_hex(v)) for k, v in info["prior"]])

    def c_eph(k):
        return "None" if k is None else "(Some (%s, %s))" % (c_key(k), c_pv(k.as_dict(private=False)))
    es = c_list(["(mk_ephstate %s %s %s)" % (c_eph(c), c_bool(f), c_eph(d)) for c, f, d in info["estates"]])
    return "CEncJsonPrior %s %s %s %s %s" % (table, g, prior, es, tail)


def content_aad_matches(log, token):
    """the AAD the content encryption was fed == ASCII(emitted "protected" member) [+ "." + emitted "aad" member]"""
    exp = token["protected"].encode("ascii") + ((b"." + token["aad"].encode("ascii")) if "aad" in token else b"")
    iv, ct = b64d(token["iv"]), b64d(token["ciphertext"])
    seen = False
    for name, args, res in log:
        if name == "gcm_enc" and args[2] is not None:
            seen = True
            if args[2] == exp:
                return True
        if name == "cc_enc":
            seen = True
            if args[2] == exp:
                return True
        if name == "mac":
            seen = True
            if args[2] == exp + iv + ct + (8 * len(exp)).to_bytes(8, "big"):
                return True
    return not seen and False


def sequence_checks(ctx, K, rng, cases, meta, bump, ref_decrypt=None, ref_encrypt=None, pid="C04"):
    """operation sequences: decrypt a foreign-spelled token and re-encrypt the returned object; encrypt one object
    several times with header edits in between.  Every result must decrypt (joserfc, and the strict reference when
    given), its AAD must be the emitted protected member, untouched fields must stay."""
    from joserfc import jwe

    def verdict(label, obj, obs, info, keys, expect_prot):
        ctx.note_case(("sequence", label))
        bump("sequence")
        sig = {"kind": "sequence", "step": label.split(":")[0]}
        rp = {"label": label, "protected": info["protected"], "prior": [k for k, _ in info["prior"]]}
        if obs[0] != "ok":
            ctx.violation(dict(sig, what="encrypt-failed"), "re-encryption of a message object failed (%s): %s" % (label, obs[1]), rp)
            return None
        tok = obs[1]
        if not info["nondet"] and table_chars(info["log"]) < 40000:
            cases.append(case_enc_prior(obs, info)); meta.append(("sequence", label))
        if not content_aad_matches(info["log"], tok):
            ctx.violation(dict(sig, what="aad-not-emitted-header"),
                          "the AAD fed to the content encryption is not ASCII(the \"protected\" member that was emitted) (%s)" % label,
                          dict(rp, token=tok))
        o2, _ = do_decrypt("json", tok, keys)
        if o2[0] != "ok" or o2[1] != info["plaintext"]:
            ctx.violation(dict(sig, what="joserfc-rejects"), "joserfc does not decrypt what it re-encrypted (%s): %s" % (
                label, o2[1] if o2[0] == "err" else "other plaintext"), dict(rp, token=tok))
        if ref_decrypt is not None:
            for i, k in enumerate(keys):
                try:
                    good = ref_decrypt(tok, k.as_dict(private=True), None, index=i) == info["plaintext"]
                    why = "other plaintext"
                except Exception as e:  # noqa
                    good, why = False, "%s: %s" % (type(e).__name__, e)
                if not good:
                    ctx.violation(dict(sig, what="reference-rejects"),
                                  "the independent implementation does not decrypt a re-encrypted object (%s, recipient %d): %s" % (label, i, why),
                                  dict(rp, token=tok))
        if obj.protected != expect_prot or obj.plaintext != info["plaintext"] or obj.aad != info["aad"] \
                or (obj.unprotected or None) != (info["unprotected"] or None):
            ctx.violation(dict(sig, what="object-fields-changed"),
                          "encrypt_json changed fields of the object the caller did not touch (%s)" % label, rp)
        return tok

    combos = [("A128KW", "A128CBC-HS256"), ("dir", "A256GCM"), ("ECDH-ES+A128KW", "A128GCM"), ("RSA-OAEP", "C20P"),
              ("A128GCMKW", "A192CBC-HS384"), ("PBES2-HS256+A128KW", "A128GCM")]
    if not ctx.quick:
        combos += [(a, e) for a in ALL_ALGS if a not in PU_ALGS for e in ("A256CBC-HS512", "XC20P")][::2]
    # (1) decrypt a foreign token (other spelling of the protected header), re-encrypt the returned object
    if ref_encrypt is not None:
        spells = [("spaced", lambda t: json_respaced(t)), ("pretty", lambda t: real_json.dumps(real_json.loads(t), indent=2)),
                  ("padded", lambda t: " " + t + "\n")]
        for n, (alg, enc) in enumerate(combos):
            for ser in ("flat", "general"):
                key = K.for_alg(alg, enc, "P-256")
                pt = b"foreign then re-encrypted %d" % n
                rcp = [{"alg": alg, "key": key.as_dict(private=True), "sender": None, "apu": None, "apv": None, "p2c": 3}]
                sp = spells[n % len(spells)]
                tok = ref_encrypt(ser, enc, rcp, pt, aad=b"aad" if n % 2 else None, spell=sp[1], alg_in_protected=(n % 3 == 0))
                try:
                    obj = jwe.decrypt_json(tok, key, registry=registry())
                except Exception as e:  # noqa
                    ctx.violation({"kind": "sequence", "step": "foreign-decrypt"}, "foreign token rejected: %r" % e, {"token": tok})
                    continue
                exp_prot = copy.deepcopy(obj.protected)
                obs, info = do_encrypt_obj(obj)
                verdict("reencrypt-foreign:%s/%s/%s/%s" % (alg, enc, ser, sp[0]), obj, obs, info, [key], exp_prot)
                alt = K.for_alg(alg, enc, "P-256", "alt")
                for r in obj.recipients:
                    r.recipient_key = alt
                    r.ephemeral_key = None
                obs, info = do_encrypt_obj(obj)
                verdict("reencrypt-foreign-new-key:%s/%s/%s" % (alg, enc, ser), obj, obs, info, [alt], exp_prot)
    # (2) one object encrypted several times, the protected header edited in between
    other_enc = {"A128CBC-HS256": "A256GCM", "A256GCM": "A128CBC-HS256", "A128GCM": "A192GCM", "C20P": "A256GCM",
                 "A192CBC-HS384": "A256CBC-HS512", "A256CBC-HS512": "XC20P", "XC20P": "C20P"}
    for n, (alg, enc) in enumerate(combos):
        for ser in ("flat", "general"):
            cls = jwe.FlattenedJSONEncryption if ser == "flat" else jwe.GeneralJSONEncryption
            keys = [K.for_alg(alg, enc, "P-256")]
            pt = b"same object again %d" % n
            prot = {"enc": enc}
            obj = cls(copy.deepcopy(prot), pt, {"cty": "t"} if n % 2 else None, b"extra" if n % 3 == 0 else None)
            obj.add_recipient(recipient_header(rng, alg), keys[0])
            if ser == "general" and alg not in DIRECT_ALGS and n % 2 == 0:
                keys.append(K.for_alg("A256KW", enc))
                obj.add_recipient({"alg": "A256KW"}, keys[1])
            tag = "%s/%s/%s" % (alg, enc, ser)
            preset = None
            if is_agreement(alg) and ser == "general":
                # the CALLER sets the ephemeral key: it is kept across encryptions (a generated one is not)
                preset = K.curve_key("P-256", "alt")
                obj.recipients[0].ephemeral_key = preset
                tag += "/preset-epk"
            obs, info = do_encrypt_obj(obj)
            tok1 = verdict("first:" + tag, obj, obs, info, keys, prot)
            obj.protected["zip"] = "DEF"
            prot = dict(prot, zip="DEF")
            obs, info = do_encrypt_obj(obj)
            verdict("after-adding-zip:" + tag, obj, obs, info, keys, prot)
            obj.protected["cty"] = "text/plain"
            del obj.protected["zip"]
            prot = {"enc": enc, "cty": "text/plain"}
            obs, info = do_encrypt_obj(obj)
            verdict("after-member-added-and-removed:" + tag, obj, obs, info, keys, prot)
            if alg != "dir":
                obj.protected["enc"] = other_enc[enc]
                prot = dict(prot, enc=other_enc[enc])
                obs, info = do_encrypt_obj(obj)
                verdict("after-changing-enc:" + tag, obj, obs, info, keys, prot)
            obs, info = do_encrypt_obj(obj)
            tokn = verdict("unchanged-again:" + tag, obj, obs, info, keys, prot)
            if is_agreement(alg) and tok1 and tokn:
                def epk_of(t):
                    h = dict(real_json.loads(b64d(t["protected"])))
                    for it in (t.get("recipients") or [t]):
                        h.update(it.get("header") or {})
                        break
                    return h.get("epk")
                same = epk_of(tok1) == epk_of(tokn)
                ctx.note_case(("sequence", "epk-reuse", tag))
                if preset is None and same:
                    ctx.violation({"kind": "sequence", "step": "epk-reused"},
                                  "two encryptions of one object used the SAME library-generated ephemeral key (%s)" % tag,
                                  {"label": tag})
                if preset is not None and (not same or epk_of(tok1) != preset.as_dict(private=False)):
                    ctx.violation({"kind": "sequence", "step": "preset-epk-dropped"},
                                  "the ephemeral key set by the caller was not used / not kept (%s)" % tag, {"label": tag})


def json_respaced(t):
    return real_json.dumps(real_json.loads(t), separators=(", ", ": "))


# --------------------------------------------------------------------------
# falsy-but-valid values for every optional input of the round trip
# --------------------------------------------------------------------------
def falsy_checks(ctx, K, rng, cases, meta, bump, ref_decrypt=None, coq_cases=True):
    """aad in {None, b"", b"\\x00", text}; plaintext b""; unprotected / per-recipient header None vs {};
    apu / apv ""; kid ""; p2s "".  Each must round trip (joserfc, and the strict reference when given) or be refused
    at ENCRYPTION time - never yield a token the right key cannot decrypt."""
    def one(label, ser, protected, pt, recips, unprotected=None, aad=None, sender=None):
        ctx.note_case(("falsy", label, ser))
        bump("falsy")
        obs, info = do_encrypt(ser, protected, pt, recips, unprotected=unprotected, aad=aad, sender=sender)
        if coq_cases and not info["nondet"] and table_chars(info["log"]) < 40000:
            cases.append(case_enc(obs, info)); meta.append(("falsy-enc", label))
        if obs[0] != "ok":
            bump("falsy-refused-at-encryption")
            return
        token = token_of(obs)
        keys = [k for _, k in info["recips"]]
        o2, (dlog, nondet) = do_decrypt(dec_ser(ser), token, keys, sender=sender)
        if coq_cases and not nondet and table_chars(dlog) < 40000:
            cases.append(case_dec(dec_ser(ser), token, keys, sender, True, o2, dlog)); meta.append(("falsy-dec", label))
        rp = {"label": label, "ser": ser, "protected": protected, "unprotected": unprotected,
              "aad_hex": None if aad is None else aad.hex(), "plaintext_hex": pt.hex(),
              "recips": [[h, key_jwk(k)] for h, k in recips], "sender": key_jwk(sender), "token": token}
        if o2[0] != "ok" or o2[1] != pt:
            ctx.violation({"kind": "falsy-input-undecryptable", "case": label.split(":")[0], "ser": ser},
                          "encryption accepted a falsy-but-valid input and produced a token the right key does not decrypt "
                          "(%s): %s" % (label, o2[1] if o2[0] == "err" else "other plaintext"), rp)
        if ref_decrypt is not None:
            for i, k in enumerate(keys):
                try:
                    good = ref_decrypt(token, k.as_dict(private=True), key_jwk(sender), index=i) == pt
                    why = "other plaintext"
                except Exception as e:  # noqa
                    good, why = False, "%s: %s" % (type(e).__name__, e)
                if not good:
                    ctx.violation({"kind": "falsy-input-reference-rejects", "case": label.split(":")[0], "ser": ser},
                                  "the independent implementation does not decrypt the token for a falsy-but-valid input (%s): %s" % (label, why), rp)

    combos = [("A128KW", "A128CBC-HS256"), ("dir", "A256GCM"), ("ECDH-ES", "A128GCM"), ("A128GCMKW", "C20P"),
              ("RSA-OAEP", "A256CBC-HS512"), ("ECDH-ES+A128KW", "XC20P")]
    if not ctx.quick:
        combos = [(a, e) for a in ALL_ALGS if a not in PU_ALGS for e in ALL_ENCS][::3]
    hcombos = combos if not ctx.quick else combos[:3]
    # AAD values x JSON serializations
    for n, (alg, enc) in enumerate(combos):
        key = K.for_alg(alg, enc, "P-256")
        for ser in ("flat", "general"):
            for aname, aad in (("none", None), ("empty", b""), ("nul", b"\x00"), ("text", b"additional data")):
                hdr = recipient_header(rng, alg)
                one("aad-%s:%s/%s" % (aname, alg, enc), ser, {"enc": enc}, b"with aad", [(hdr, key)], aad=aad)
                one("aad-%s+empty-plaintext:%s/%s" % (aname, alg, enc), ser, {"enc": enc, "zip": "DEF"}, b"", [(hdr, key)], aad=aad)
    # empty plaintext: every enc, zip on/off, every serialization
    for enc in ALL_ENCS:
        for z in (False, True):
            for ser in ("compact", "flat", "general"):
                alg = "dir" if enc != "XC20P" else "A256KW"
                key = K.for_alg(alg, enc)
                prot = {"enc": enc}
                if z:
                    prot["zip"] = "DEF"
                if ser == "compact":
                    one("empty-plaintext:%s%s" % (enc, "/DEF" if z else ""), ser, dict(prot, alg=alg), b"", [(None, key)])
                else:
                    one("empty-plaintext:%s%s" % (enc, "/DEF" if z else ""), ser, prot, b"", [({"alg": alg}, key)])
    # unprotected None vs {} ; per-recipient header None vs {} (alg in the protected header)
    for n, (alg, enc) in enumerate(hcombos):
        key = K.for_alg(alg, enc, "P-256")
        for ser in ("flat", "general"):
            for uname, unprot in (("none", None), ("empty", {})):
                for hname, hdr in (("none", None), ("empty", {})):
                    prot = dict({"enc": enc}, **recipient_header(rng, alg))
                    one("unprotected-%s/header-%s:%s" % (uname, hname, alg), ser, prot, b"headers", [(hdr, key)], unprotected=unprot)
    # apu / apv "" (empty base64url), kid "", p2s ""
    for ser in ("compact", "flat", "general"):
        for alg, enc in (("ECDH-ES", "A128GCM"), ("ECDH-ES+A256KW", "A128CBC-HS256"), ("ECDH-1PU", "A256GCM")):
            for crv in (("P-256", "X25519") if not ctx.quick else ("P-256",) if ser != "flat" else ("X25519",)):
                key = K.curve_key(crv)
                snd = K.curve_key(crv, "sender") if alg in PU_ALGS else None
                for extra in ({"apu": ""}, {"apv": ""}, {"apu": "", "apv": ""}, {"apu": "", "apv": b64e(b"Bob")}):
                    h = dict({"alg": alg}, **extra)
                    if ser == "compact":
                        one("empty-apu-apv:%s/%s" % (alg, crv), ser, dict({"enc": enc}, **h), b"party info", [(None, key)], sender=snd)
                    else:
                        one("empty-apu-apv:%s/%s" % (alg, crv), ser, {"enc": enc}, b"party info", [(h, key)], sender=snd)
        for alg, enc in (("A128KW", "A128GCM"), ("dir", "A128CBC-HS256")):
            key = K.for_alg(alg, enc)
            h = {"alg": alg, "kid": ""}
            if ser == "compact":
                one("empty-kid:%s" % alg, ser, dict({"enc": enc}, **h), b"kid", [(None, key)])
            else:
                one("empty-kid:%s" % alg, ser, {"enc": enc}, b"kid", [(h, key)])
                one("empty-kid-unprotected:%s" % alg, ser, {"enc": enc}, b"kid", [({"alg": alg}, key)], unprotected={"kid": ""})
        for alg in PBES2_ALGS:
            key = K.for_alg(alg, "A128GCM")
            h = {"alg": alg, "p2s": "", "p2c": 2}
            if ser == "compact":
                one("empty-p2s:%s" % alg, ser, dict({"enc": "A128GCM"}, **h), b"salt input", [(None, key)])
            else:
                one("empty-p2s:%s" % alg, ser, {"enc": "A128GCM"}, b"salt input", [(h, key)])
