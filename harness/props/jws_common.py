"""Shared helpers of the JWS checks C01 / C03 / C07: keys, interception of the
algorithm models (oracle tables = "what exactly was fed to the primitive"),
Coq term printers for the shared model coq/model/Jws.v."""
from __future__ import annotations
import hashlib, hmac as _hmac, json, contextlib, time
import lib
from lib import c_hex, c_str, c_Z, c_N, c_bool, c_list, c_opt, c_pv, c_exn, exn_class

# --------------------------------------------------------------------------
# keys (generated once per process; ONE RSA-2048)
# --------------------------------------------------------------------------
_KEYS = None

# algorithm -> names of the keys of keys() that suit it
ALG_KEYS = {
    "HS256": ["oct32", "oct16", "oct64", "oct1"], "HS384": ["oct64", "oct32"], "HS512": ["oct64", "oct16"],
    "RS256": ["rsa"], "RS384": ["rsa"], "RS512": ["rsa"],
    "PS256": ["rsa"], "PS384": ["rsa"], "PS512": ["rsa"],
    "ES256": ["p256"], "ES384": ["p384"], "ES512": ["p521"], "ES256K": ["k256"],
    "EdDSA": ["ed25519", "ed448"],
}
ALL_ALGS = list(ALG_KEYS)            # the 14 signing algorithms; "none" is handled apart


def keys():
    """name -> joserfc private Key, every key with a distinct kid (= its name)."""
    global _KEYS
    if _KEYS is None:
        from joserfc.jwk import OctKey, RSAKey, ECKey, OKPKey
        import random as _r
        rnd = _r.Random(20240917)
        k = {}
        for name, n in (("oct1", 1), ("oct16", 16), ("oct32", 32), ("oct64", 64), ("oct32b", 32)):
            k[name] = OctKey.import_key(bytes(rnd.randrange(256) for _ in range(n)), {"kid": name})
        k["rsa"] = RSAKey.generate_key(2048, {"kid": "rsa"})
        for name, crv in (("p256", "P-256"), ("p256b", "P-256"), ("p384", "P-384"), ("p521", "P-521"), ("k256", "secp256k1")):
            k[name] = ECKey.generate_key(crv, {"kid": name})
        for name, crv in (("ed25519", "Ed25519"), ("ed25519b", "Ed25519"), ("ed448", "Ed448")):
            k[name] = OKPKey.generate_key(crv, {"kid": name})
        _KEYS = k
    return _KEYS


_RSA2 = None


def second_rsa():
    """a second RSA-2048 key (only for the same-kid / wrong-key histories of C01)"""
    global _RSA2
    if _RSA2 is None:
        from joserfc.jwk import RSAKey
        _RSA2 = RSAKey.generate_key(2048, {"kid": "rsab"})
    return _RSA2


def with_meta(k, private, **params):
    """the same key material re-imported with other JWK metadata (kid, alg, use, key_ops)"""
    from joserfc.jwk import JWKRegistry, OctKey
    if k.key_type == "oct":
        return OctKey.import_key(k.raw_value, dict(params))
    d = {x: v for x, v in k.as_dict(private=private).items() if x not in ("kid", "alg", "use", "key_ops")}
    return JWKRegistry.import_key(dict(d, **params))


def other_key_same_type(name):
    """a different key of the same type/curve (key substitution); None for RSA
    (one RSA key per process: substitution uses a re-import with another kid)"""
    return {"oct32": "oct32b", "oct16": "oct32", "oct64": "oct32", "oct1": "oct16", "p256": "p256b",
            "ed25519": "ed25519b", "p384": None, "p521": None, "k256": None, "ed448": None, "rsa": None}.get(name)


# --------------------------------------------------------------------------
# small helpers
# --------------------------------------------------------------------------
def call(f, *a, **kw):
    try:
        return ("ok", f(*a, **kw))
    except BaseException as e:  # noqa
        if isinstance(e, (KeyboardInterrupt, SystemExit)):
            raise
        return ("err", e)


def b64u(b: bytes) -> bytes:
    import base64
    return base64.urlsafe_b64encode(b).rstrip(b"=")


def b64u_dec(s: bytes) -> bytes:
    import base64
    return base64.urlsafe_b64decode(s + b"=" * (-len(s) % 4))


def c_s(s: str) -> str:
    """Coq [string] literal (ASCII only, used for table keys)"""
    assert all(32 <= ord(c) < 127 and c != '"' for c in s), s
    return '"%s"%%string' % s


def c_res(r, okf):
    if r[0] == "ok":
        return "(Ok %s)" % okf(r[1])
    return "(Err %s)" % c_exn(exn_class(r[1]))


def c_dict(d) -> str:
    return c_list(["(%s, %s)" % (c_str(k), c_pv(v)) for k, v in d.items()])


def c_bytes_of_text(x) -> str:
    """a JSON-serialization text member -> its UTF-8 octets"""
    if isinstance(x, bytes):
        return c_hex(x)
    return c_hex(x.encode("utf-8"))


_KID = {}


def key_id(key) -> int:
    """identity of the key MATERIAL (same for the public and the private form)"""
    t = key.thumbprint()
    if t not in _KID:
        _KID[t] = len(_KID) + 1
    return _KID[t]


def c_key(key) -> str:
    kty = key.key_type
    crv = key.curve_name if kty in ("EC", "OKP") else ""
    bits = key.curve_key_size if kty == "EC" else 0
    ops = key.get("key_ops")
    return ("{| k_id := %s; k_kid := %s; k_kty := %s; k_crv := %s; k_bits := %s; k_use := %s; "
            "k_ops := %s; k_alg := %s; k_private := %s |}") % (
        c_N(key_id(key)), c_opt(key.kid, c_str), c_s(kty), c_s(crv), c_N(bits),
        c_opt(key.get("use"), c_str), c_opt(ops, lambda l: c_list([c_str(x) for x in l])),
        c_opt(key.get("alg"), c_str), c_bool(key.is_private))


def c_keysrc(k) -> str:
    from joserfc.jwk import KeySet, OctKey, RSAKey, ECKey, OKPKey
    if isinstance(k, KeySet):
        return "(KSet %s)" % c_list([c_key(x) for x in k.keys])
    if isinstance(k, (OctKey, RSAKey, ECKey, OKPKey)):
        return "(KOne %s)" % c_key(k)
    return "KBad"


def c_algs(algs) -> str:
    return c_opt(algs, lambda l: c_list([c_str(a) for a in l]))


def c_jsig(d) -> str:
    return "{| js_protected := %s; js_header := %s; js_signature := %s |}" % (
        c_opt(d.get("protected"), c_bytes_of_text), c_opt(d.get("header"), c_dict),
        c_opt(d.get("signature"), c_bytes_of_text))


def modelable_json(v) -> bool:
    """the shapes of a JSON-serialization dict the typed model input covers"""
    def sig_ok(d):
        return (isinstance(d, dict) and all(isinstance(d.get(k, ""), str) for k in ("protected", "signature"))
                and isinstance(d.get("header", {}), dict))
    if not isinstance(v, dict) or not isinstance(v.get("payload", ""), str):
        return False
    if "signatures" in v:
        return isinstance(v["signatures"], list) and all(sig_ok(d) for d in v["signatures"])
    return sig_ok(v)


def c_jval(v) -> str:
    assert modelable_json(v), v
    p = c_opt(v.get("payload"), c_bytes_of_text)
    if "signatures" in v:
        return "(JGen %s %s)" % (p, c_list([c_jsig(d) for d in v["signatures"]]))
    return "(JFlat %s %s)" % (p, c_jsig(v))


def c_smember(m) -> str:
    return "{| sm_protected := %s; sm_header := %s |}" % (c_opt(m.get("protected"), c_dict), c_opt(m.get("header"), c_dict))


def c_compact_result(r) -> str:
    return c_res(r, lambda o: "(%s, %s)" % (c_pv(o.protected), c_hex(o.payload)))


def c_json_result(r) -> str:
    def okf(o):
        ms = ["(%s, %s)" % (c_opt(m.protected, c_pv), c_opt(m.header, c_dict)) for m in o.members]
        return "(%s, %s)" % (c_list(ms), c_hex(o.payload))
    return c_res(r, okf)


# --------------------------------------------------------------------------
# interception: json, the algorithm models, the DER <-> (r, s) conversion
# --------------------------------------------------------------------------
def row_key(alg) -> str:
    """name|family|hash|curve|pad of the REAL algorithm object (as extract_tables renders it)"""
    import extract_tables as ET
    fam = {"NoneAlgModel": "none", "HMACAlgModel": "HMAC", "RSAAlgModel": "RSA", "ECAlgModel": "EC",
           "RSAPSSAlgModel": "PSS", "EdDSAAlgModel": "EdDSA"}[type(alg).__name__]
    return "|".join([alg.name, fam, ET.hash_name(getattr(alg, "hash_alg", None)), getattr(alg, "curve", ""),
                     ET.pad_name(getattr(alg, "padding", None))]), fam


def gallina_json_ok(v) -> bool:
    """the fragment of model/Json.v (json_ok): no floats, str keys, no lone surrogates"""
    if v is None or isinstance(v, (bool, int)):
        return True
    if isinstance(v, str):
        return not any(0xD800 <= ord(c) <= 0xDFFF for c in v)
    if isinstance(v, list):
        return all(gallina_json_ok(x) for x in v)
    if isinstance(v, dict):
        return all(isinstance(k, str) and gallina_json_ok(k) and gallina_json_ok(x) for k, x in v.items())
    return False


class Recorder:
    """While active: every json.loads / json.dumps of joserfc.util, every
    alg.sign / alg.verify of the registered JWS algorithm singletons and the
    (r, s) pairs crossing encode_dss_signature / decode_dss_signature are logged."""

    def __init__(self):
        self.gallina_json = 0   # json calls left to the Gallina JSON model (no oracle row)
        self.rows = []       # Coq [orow] terms of the current case
        self.calls = []      # (op, alg name, key, msg, sig, result tuple, rs) of the current case

    def take(self):
        r, c = self.rows, self.calls
        self.rows, self.calls = [], []
        return r, c

    def __enter__(self):
        import json as real_json
        import joserfc.util as U
        import joserfc.rfc7518.jws_algs as JA
        from joserfc.jws import JWSRegistry
        rec = self
        self._U, self._JA, self._real_json = U, JA, real_json

        class JsonProxy:
            JSONDecodeError = real_json.JSONDecodeError

            @staticmethod
            def loads(s, *a, **kw):
                r = call(real_json.loads, s, *a, **kw)
                raw = s if isinstance(s, bytes) else s.encode("utf-8")
                # the Gallina JSON parser (model/Json.v) evaluates ASCII texts whose value is
                # float-free itself; the recorded row is kept for everything else
                if not (r[0] == "ok" and gallina_json_ok(r[1]) and all(b < 128 for b in raw)):
                    try:
                        rec.rows.append("OLoads %s %s" % (c_hex(raw), c_res(r, c_pv)))
                    except TypeError:
                        pass
                else:
                    rec.gallina_json += 1
                if r[0] == "err":
                    raise r[1]
                return r[1]

            @staticmethod
            def dumps(o, *a, **kw):
                out = real_json.dumps(o, *a, **kw)
                if not (gallina_json_ok(o) and kw == {"ensure_ascii": True, "separators": (",", ":")} and not a):
                    try:
                        rec.rows.append("ODumps %s %s" % (c_pv(o), c_hex(out.encode("utf-8"))))
                    except TypeError:
                        pass
                else:
                    rec.gallina_json += 1
                return out
        U.json = JsonProxy
        self._cur = {}
        self._enc, self._dec = JA.encode_dss_signature, JA.decode_dss_signature

        def enc(r, s):
            rec._cur["rs"] = (r, s)
            return rec._enc(r, s)

        def dec(der):
            r, s = rec._dec(der)
            rec._cur["rs"] = (r, s)
            return r, s
        JA.encode_dss_signature, JA.decode_dss_signature = enc, dec
        self._insts = list(JWSRegistry.algorithms.values())
        for inst in self._insts:
            self._wrap(inst)
        return self

    def _wrap(self, inst):
        rec = self
        cls_sign, cls_verify = type(inst).sign, type(inst).verify

        def sign(msg, key):
            rec._cur = {}
            r = call(cls_sign, inst, msg, key)
            rec._log("sign", inst, key, msg, None, r, rec._cur.get("rs"))
            if r[0] == "err":
                raise r[1]
            return r[1]

        def verify(msg, sig, key):
            rec._cur = {}
            r = call(cls_verify, inst, msg, sig, key)
            rec._log("verify", inst, key, msg, sig, r, rec._cur.get("rs"))
            if r[0] == "err":
                raise r[1]
            return r[1]
        inst.sign, inst.verify = sign, verify

    def _log(self, op, inst, key, msg, sig, r, rs):
        self.calls.append((op, inst.name, key, msg, sig, r, rs))
        try:
            rk, fam = row_key(inst)
            kid = key_id(key)
        except Exception:
            return
        if fam == "none":
            return
        if fam == "HMAC":
            if key.key_type == "oct":
                # the MAC is recomputed here with hashlib/hmac directly, from the raw key octets
                import extract_tables as ET
                h = ET.hash_name(inst.hash_alg)
                out = _hmac.new(key.raw_value, msg, getattr(hashlib, h)).digest()
                self.rows.append("OMac %s %s %s %s" % (c_s(h), c_N(kid), c_hex(msg), c_hex(out)))
            return
        if fam == "EC":
            if rs is None:
                return                      # the primitive was not consulted
            if op == "sign" and r[0] == "ok":
                self.rows.append("OEcSign %s %s %s %s %s" % (c_s(rk), c_N(kid), c_hex(msg), c_Z(rs[0]), c_Z(rs[1])))
            elif op == "verify" and r[0] == "ok":
                self.rows.append("OEcVerify %s %s %s %s %s (Ok %s)" % (
                    c_s(rk), c_N(kid), c_hex(msg), c_Z(rs[0]), c_Z(rs[1]), c_bool(r[1])))
            return
        if r[0] != "ok":
            return
        if op == "sign":
            self.rows.append("OSign %s %s %s (Ok %s)" % (c_s(rk), c_N(kid), c_hex(msg), c_hex(r[1])))
        else:
            self.rows.append("OVerify %s %s %s %s (Ok %s)" % (c_s(rk), c_N(kid), c_hex(msg), c_hex(sig), c_bool(r[1])))

    def __exit__(self, *a):
        self._U.json = self._real_json
        self._JA.encode_dss_signature, self._JA.decode_dss_signature = self._enc, self._dec
        for inst in self._insts:
            for n in ("sign", "verify"):
                if n in inst.__dict__:
                    del inst.__dict__[n]
        return False


def c_table(rows) -> str:
    return c_list(rows)


COQ_IMPORTS = ["From Model Require Import Jws JwsOracle.", "From Gen Require Import Tables."]


# --------------------------------------------------------------------------
# token construction helpers (used by the fault stream: NOT joserfc code)
# --------------------------------------------------------------------------
def split_compact(tok: str):
    h, p, s = tok.split(".")
    return h, p, s


def flip_bit(b: bytes, i: int) -> bytes:
    x = bytearray(b)
    x[i // 8] ^= 1 << (i % 8)
    return bytes(x)


def pubkey_of(key):
    """the public form of a key (same material, same kid)"""
    from joserfc.jwk import JWKRegistry
    if key.key_type == "oct":
        return key
    return JWKRegistry.import_key(key.as_dict(private=False))


def finish_correspondence(ctx, pid, cases, meta, ok, log, check, show, ctype):
    """evaluate the cases in Coq and turn disagreements / broken proofs into violations"""
    SH, MC = 100, 160000
    ev = lib.CoqEval(["From Model Require Import Jws JwsOracle %sCases." % pid, "From Gen Require Import Tables."],
                     ctype, check, None, shard=SH, max_chars=MC)   # no [show]: its output (whole tokens) can exceed the pipe buffer
    res = ev.run(cases, jobs=8)
    # a coqc killed by the OS (no output: memory pressure from parallel builds) is retried alone
    if any(not out.strip() or "TIMEOUT" in out for si, out in res["errors"]):
        bounds, start, size = {}, 0, 0
        for i, c in enumerate(cases):
            if i > start and (i - start >= SH or size + len(c) > MC):
                bounds[start] = i
                start, size = i, 0
            size += len(c)
        bounds[start] = len(cases)
        still = []
        for si, out in res["errors"]:
            if (out.strip() and "TIMEOUT" not in out) or si not in bounds:
                still.append((si, out))
                continue
            sub = None
            for attempt in range(3):
                sub = ev.run(cases[si:bounds[si]], jobs=1)
                if not sub["errors"]:
                    break
                time.sleep(5)
            if sub["errors"]:
                still.append((si, sub["errors"][0][1]))
            else:
                res["evaluated"] += sub["evaluated"]
                res["failing"] += [si + j for j in sub["failing"]]
                for k2, v2 in sub["shows"].items():
                    res["shows"][si + k2] = v2
        res["errors"] = still
    ctx.coverage["traces_validated_against_impl"] = res["evaluated"]
    ctx.coverage["disagreements_checked"] = len(res["failing"])
    direct = len(ctx.violations) + len(ctx.known_hits)
    for i in res["failing"][:20]:
        ctx.violation({"kind": "correspondence", "fn": meta[i].get("fn")},
                      "model and implementation disagree on %s" % json.dumps(meta[i], default=str)[:600],
                      {"case": cases[i][:6000], "meta": meta[i], "no_failing_input_found": direct == 0,
                       "broken": "correspondence model/Jws.v vs joserfc"})
    for si, err in res["errors"][:3]:
        ctx.violation({"kind": "correspondence-error"}, "coqc failed on a generated case file",
                      {"output": err, "no_failing_input_found": True, "broken": "case evaluation"})
    if not ok:
        ctx.violation({"kind": "proof-broken"}, "props/%s.v or its closure no longer compiles" % pid,
                      {"log": log[-3000:], "no_failing_input_found": direct == 0 and not res["failing"],
                       "broken": "theorems of props/%s.v" % pid})
    return res
